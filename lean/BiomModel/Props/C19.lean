/-
  C19 — property theorems.  Every statement is for EVERY table (any shape, any values, any IDs
  that are distinct), every WF compressed layout without stored zeros (any index order inside a
  vector), every reduce function, every axis/mode.
-/
import Mathlib.Data.List.Nodup
import BiomModel.Lemmas.C19

namespace Biom.C19
open CS

/-- the table's shape invariant plus distinct IDs on both axes (the C01 domain) -/
structure TableOK (t : Table Rat) : Prop where
  wf : t.WF
  obsNodup : t.obs.Nodup
  sampNodup : t.samp.Nodup

theorem TableOK.rect {t : Table Rat} (h : TableOK t) : Rect t.samp.length t.rows := h.wf.2.1
theorem TableOK.nrows {t : Table Rat} (h : TableOK t) : t.rows.length = t.obs.length := h.wf.1

theorem iterData_samp (t : Table Rat) : iterData t .samp = transposeGrid t.samp.length t.rows := rfl

theorem iterData_length (t : Table Rat) (h : TableOK t) (ax : Axis) : (iterData t ax).length = (t.ids ax).length := by
  cases ax
  · exact h.nrows
  · simp [iterData, Table.ids]

/-- looking the vectors up by ID, in ID order, gives the vectors in storage order -/
theorem vecs_by_id (t : Table Rat) (h : TableOK t) (ax : Axis) :
    (t.ids ax).map (vecOf? t ax) = (iterData t ax).map some := by
  cases ax
  · exact lookupBy_self_map t.obs t.rows h.obsNodup h.nrows.symm
  · exact lookupBy_self_map t.samp _ h.sampNodup (by simp [transposeGrid_length])

theorem perId_eq {β : Type} (t : Table Rat) (h : TableOK t) (ax : Axis) (f : List Rat → β) :
    perId t ax f = (iterData t ax).map (fun v => some (f v)) := by
  have hv := vecs_by_id t h ax
  have : perId t ax f = ((t.ids ax).map (vecOf? t ax)).map (fun o => o.map f) := by
    simp [perId, List.map_map, Function.comp_def]
  rw [this, hv]
  simp [List.map_map, Function.comp_def]

/-! ### sums -/

/-- `sum(axis)`: one figure per ID of the axis, the sum of that ID's vector -/
theorem sum_axis (t : Table Rat) (h : TableOK t) (ax : Axis) :
    ∃ xs, sumM t (some ax) = .nums xs ∧ xs.map some = perId t ax List.sum := by
  refine ⟨(iterData t ax).map List.sum, ?_, ?_⟩
  · cases ax
    · simp [sumM, spSum, scipyAxis, iterData]
    · simp [sumM, spSum, scipyAxis, iterData, List.map_map, Function.comp_def]
  · rw [perId_eq t h]; simp [List.map_map, Function.comp_def]

/-- `sum('whole')` = Σ all cells = Σ of the per-observation sums = Σ of the per-sample sums -/
theorem sum_whole (t : Table Rat) (h : TableOK t) :
    sumM t none = .num (total t.rows) ∧
    total t.rows = ((iterData t .obs).map List.sum).sum ∧
    total t.rows = ((iterData t .samp).map List.sum).sum := by
  refine ⟨by simp [sumM, spSum, scipyAxis], rfl, ?_⟩
  rw [iterData_samp]
  exact (total_transpose t.samp.length t.rows h.rect).symm

/-! ### non-zero counts -/

/-- `nonzero_counts(axis, binary)`: per ID the number of non-zero cells / the sum of its vector -/
theorem nonzero_counts_axis (t : Table Rat) (h : TableOK t) (ax : Axis) (binary : Bool) :
    ∃ xs, nzcM t (some ax) binary = .nums xs ∧
      xs.map some = perId t ax (fun v => if binary then (cntNZ v : Rat) else v.sum) := by
  refine ⟨(iterData t ax).map (opNZ binary), rfl, ?_⟩
  rw [perId_eq t h]
  simp [List.map_map, Function.comp_def, opNZ]

/-- `nonzero_counts('whole')`: the number of non-zero cells of the table / the sum of all cells -/
theorem nonzero_counts_whole (t : Table Rat) (h : TableOK t) :
    nzcM t none true = .nums [(nnzCells t.rows : Rat)] ∧ nzcM t none false = .nums [total t.rows] := by
  have hT : opNZ true = fun v => (cntNZ v : Rat) := by funext v; simp [opNZ]
  have hF : opNZ false = fun v => v.sum := by funext v; simp [opNZ]
  constructor
  · simp only [nzcM, foldl_add_eq_sum, iterData_samp, hT]
    rw [← cast_sum_cntNZ, nnzCells_transpose _ _ h.rect]
    congr 2; grind
  · have htt := total_transpose t.samp.length t.rows h.rect
    simp only [total] at htt
    simp only [nzcM, foldl_add_eq_sum, iterData_samp, hF, htt]
    congr 2; simp only [total]; grind

/-! ### density -/

/-- density = (number of non-zero cells) / (N·M), 0 for a table without cells -/
theorem density_spec (inp : Input) (hrow : inp.rowOK) : densityM inp = specDensity inp.t := by
  have hn : nnzM inp.csr = nnzCells inp.t.rows := by
    rw [nnzM_eq_nnzCells inp.csr hrow.wf hrow.nsz, hrow.content]
  unfold densityM specDensity
  rw [hn]
  by_cases h1 : inp.t.samp.length = 0 <;> by_cases h2 : inp.t.obs.length = 0 <;> simp [h1, h2]

/-! ### reduce -/

/-- `functools.reduce(f, v)` on a non-empty vector -/
def reduceSpec (f : Rat → Rat → Rat) : List Rat → Rat
  | [] => 0
  | x :: xs => xs.foldl f x

theorem iterData_ne_nil (t : Table Rat) (h : TableOK t) (hn : ¬ (t.samp.length = 0 ∨ t.obs.length = 0)) (ax : Axis) :
    ∀ v ∈ iterData t ax, v ≠ [] := by
  have hs : t.samp.length ≠ 0 := fun e => hn (Or.inl e)
  have ho : t.obs.length ≠ 0 := fun e => hn (Or.inr e)
  intro v hv
  cases ax
  · have := h.rect v hv
    intro e; rw [e] at this; exact hs this.symm
  · rw [iterData_samp] at hv
    have := rect_transposeGrid _ _ h.rect v hv
    rw [h.nrows] at this
    intro e; rw [e] at this; exact ho this.symm

/-- `reduce(f, axis)`, for every function `f`: refuses a table without cells; otherwise one figure
per ID of the axis, the left fold of `f` over that ID's vector -/
theorem reduce_spec (t : Table Rat) (h : TableOK t) (f : Rat → Rat → Rat) (ax : Axis) :
    (t.samp.length = 0 ∨ t.obs.length = 0 → reduceM t f ax = .err .tableException) ∧
    (¬ (t.samp.length = 0 ∨ t.obs.length = 0) →
      ∃ xs, reduceM t f ax = .nums xs ∧ xs.map some = perId t ax (reduceSpec f) ∧
        ∀ v ∈ iterData t ax, v ≠ []) := by
  constructor
  · intro he; unfold reduceM; rw [if_pos he]
  · intro hn
    have hne := iterData_ne_nil t h hn ax
    refine ⟨(iterData t ax).map (reduceSpec f), ?_, ?_, hne⟩
    · have hm := mapE_ok (reduce1 f) (reduceSpec f) (iterData t ax) (by
        intro v hv
        cases v with
        | nil => exact absurd rfl (hne [] hv)
        | cons x xs => rfl)
      unfold reduceM; rw [if_neg hn]; simp only [hm]
    · rw [perId_eq t h]; simp [List.map_map, Function.comp_def]

/-! ### minimum and maximum of the non-zero values -/

/-- what `minNZ v = some m` says: `m` is a non-zero value of `v` and no non-zero value is smaller -/
theorem minNZ_iff (v : List Rat) (m : Rat) :
    minNZ v = some m ↔ (m ∈ v ∧ m ≠ 0) ∧ ∀ x ∈ v, x ≠ 0 → m ≤ x := by
  unfold minNZ
  rw [minL?_eq_selL?]
  constructor
  · intro h
    have hs := selL?_isSel sel_min _ _ h
    simp only [IsSel, nzVals, List.mem_filter, decide_eq_true_eq] at hs
    exact ⟨hs.1, fun x hx h0 => hs.2 x ⟨hx, h0⟩⟩
  · intro h
    apply selL?_of_isSel sel_min
    simp only [IsSel, nzVals, List.mem_filter, decide_eq_true_eq]
    exact ⟨h.1, fun x hx => h.2 x hx.1 hx.2⟩

theorem maxNZ_iff (v : List Rat) (m : Rat) :
    maxNZ v = some m ↔ (m ∈ v ∧ m ≠ 0) ∧ ∀ x ∈ v, x ≠ 0 → x ≤ m := by
  unfold maxNZ
  rw [maxL?_eq_selL?]
  constructor
  · intro h
    have hs := selL?_isSel sel_max _ _ h
    simp only [IsSel, nzVals, List.mem_filter, decide_eq_true_eq] at hs
    exact ⟨hs.1, fun x hx h0 => hs.2 x ⟨hx, h0⟩⟩
  · intro h
    apply selL?_of_isSel sel_max
    simp only [IsSel, nzVals, List.mem_filter, decide_eq_true_eq]
    exact ⟨h.1, fun x hx => h.2 x hx.1 hx.2⟩

theorem allNonEmpty_iff (t : Table Rat) (h : TableOK t) (ax : Axis) :
    allNonEmpty t ax = true ↔ ∀ v ∈ iterData t ax, nzVals v ≠ [] := by
  unfold allNonEmpty
  rw [perId_eq t h]
  simp only [List.all_map, List.all_eq_true, Function.comp_def, bne_iff_ne, ne_eq, cntNZ]
  constructor
  · intro hh v hv e; exact hh v hv (by rw [e]; rfl)
  · intro hh v hv e; exact hh v hv (List.length_eq_zero_iff.mp e)

theorem view_ok (inp : Input) (hrow : inp.rowOK) (hcol : inp.colOK) (ax : Axis) :
    (inp.view ax).WF ∧ (inp.view ax).NoStoredZeros ∧ (inp.view ax).toDense = iterData inp.t ax := by
  cases ax
  · exact ⟨hrow.wf, hrow.nsz, hrow.content⟩
  · exact ⟨hcol.wf, hcol.nsz, hcol.content⟩

/-- cells of the columns are cells of the rows and conversely -/
theorem cells_transpose (t : Table Rat) (h : TableOK t) :
    (∀ c ∈ iterData t .samp, ∀ x ∈ c, x ∈ allCells t) ∧ (∀ x ∈ allCells t, ∃ c ∈ iterData t .samp, x ∈ c) := by
  constructor
  · intro c hc x hx
    rw [iterData_samp] at hc
    simp only [transposeGrid, List.mem_map, List.mem_range] at hc
    obtain ⟨j, _, rfl⟩ := hc
    obtain ⟨r, hr, hxr⟩ := mem_colAt hx
    exact List.mem_flatten.mpr ⟨r, hr, hxr⟩
  · intro x hx
    obtain ⟨r, hr, hxr⟩ := List.mem_flatten.mp hx
    have hinv := transposeGrid_involutive t.samp.length t.rows h.rect
    rw [← hinv] at hr
    simp only [transposeGrid, List.mem_map, List.mem_range] at hr
    obtain ⟨i, _, rfl⟩ := hr
    obtain ⟨c, hc, hxc⟩ := mem_colAt hxr
    exact ⟨c, by rw [iterData_samp]; exact hc, hxc⟩

/-- `min` of one vector: the minimum over the stored values of vector `i` of ANY well-formed layout
without stored zeros is the minimum of the non-zero values of the dense vector; an all-zero vector
is refused -/
theorem min_spec (cs : CS Rat) (hwf : cs.WF) (hnsz : cs.NoStoredZeros) (i : Nat) (hi : i < cs.nMajor) :
    npMin ((cs.slice i).map (·.2)) =
      match minNZ (denseVec cs.nMinor (cs.slice i)) with | some m => .ok m | none => .error .value := by
  rw [npMin_eq, minL?_eq_selL?, sel_stored sel_min cs hwf hnsz i hi]
  simp only [minNZ, minL?_eq_selL?]
  generalize selL? min _ = o
  cases o <;> rfl

theorem max_spec (cs : CS Rat) (hwf : cs.WF) (hnsz : cs.NoStoredZeros) (i : Nat) (hi : i < cs.nMajor) :
    npMax ((cs.slice i).map (·.2)) =
      match maxNZ (denseVec cs.nMinor (cs.slice i)) with | some m => .ok m | none => .error .value := by
  rw [npMax_eq, maxL?_eq_selL?, sel_stored sel_max cs hwf hnsz i hi]
  simp only [maxNZ, maxL?_eq_selL?]
  generalize selL? max _ = o
  cases o <;> rfl

theorem extremeM_axis {op : Rat → Rat → Rat} {le : Rat → Rat → Prop} (S : Sel op le)
    (red : List Rat → Except Err Rat) (neg : Bool)
    (hred : ∀ xs, red xs = match selL? op xs with | some m => .ok m | none => .error .value)
    (inp : Input) (ht : TableOK inp.t) (hrow : inp.rowOK) (hcol : inp.colOK) (ax : Axis)
    (hall : allNonEmpty inp.t ax = true) :
    ∃ xs, extremeM red op neg inp (some ax) = .nums xs ∧
      xs.map (fun x => some (some x)) = perId inp.t ax (fun v => selL? op (nzVals v)) := by
  obtain ⟨hwf, hnsz, hcontent⟩ := view_ok inp hrow hcol ax
  have hne := (allNonEmpty_iff inp.t ht ax).mp hall
  have hm := extreme_axis S red hred (inp.view ax) hwf hnsz (by rw [hcontent]; exact hne)
  rw [hcontent] at hm
  refine ⟨(iterData inp.t ax).map (fun v => (selL? op (nzVals v)).getD 0), by simp only [extremeM, hm], ?_⟩
  rw [perId_eq inp.t ht, List.map_map]
  apply List.map_congr_left
  intro v hv
  obtain ⟨m, hm'⟩ := selL?_ne_nil op _ (hne v hv)
  simp [hm']

theorem extremeM_whole {op : Rat → Rat → Rat} {le : Rat → Rat → Prop} (S : Sel op le)
    (red : List Rat → Except Err Rat) (neg : Bool)
    (hred : ∀ xs, red xs = match selL? op xs with | some m => .ok m | none => .error .value)
    (inp : Input) (ht : TableOK inp.t) (hcol : inp.colOK)
    (hall : allNonEmpty inp.t .samp = true) (hM : inp.t.samp.length ≠ 0) :
    ∃ m, extremeM red op neg inp none = .num m ∧ some m = selL? op (nzVals (allCells inp.t)) := by
  have hne := (allNonEmpty_iff inp.t ht .samp).mp hall
  have hm := extreme_axis S red hred inp.csc hcol.wf hcol.nsz (by rw [hcol.content]; exact hne)
  rw [hcol.content] at hm
  cases hL : (transposeGrid inp.t.samp.length inp.t.rows).map (fun v => (selL? op (nzVals v)).getD 0) with
  | nil =>
    have := congrArg List.length hL
    simp only [List.length_map, transposeGrid_length, List.length_nil] at this
    exact absurd this hM
  | cons m0 ms =>
    rw [hL] at hm
    refine ⟨ms.foldl op m0, by simp only [extremeM, hm], ?_⟩
    have hc := cells_transpose inp.t ht
    exact (extreme_whole S _ inp.t.rows m0 ms hne hL hc.1 hc.2).symm

/-- `min(axis)` on the table: when every vector of the axis has a non-zero value, the figure of each
ID is the minimum of the non-zero values of that ID's vector -/
theorem min_axis_spec (inp : Input) (ht : TableOK inp.t) (hrow : inp.rowOK) (hcol : inp.colOK) (ax : Axis)
    (hall : allNonEmpty inp.t ax = true) :
    ∃ xs, minM inp (some ax) = .nums xs ∧ xs.map (fun x => some (some x)) = perId inp.t ax minNZ := by
  rw [minNZ_eq]
  exact extremeM_axis sel_min npMin false npMin_sel inp ht hrow hcol ax hall

theorem max_axis_spec (inp : Input) (ht : TableOK inp.t) (hrow : inp.rowOK) (hcol : inp.colOK) (ax : Axis)
    (hall : allNonEmpty inp.t ax = true) :
    ∃ xs, maxM inp (some ax) = .nums xs ∧ xs.map (fun x => some (some x)) = perId inp.t ax maxNZ := by
  rw [maxNZ_eq]
  exact extremeM_axis sel_max npMax true npMax_sel inp ht hrow hcol ax hall

/-- `min('whole')`: the minimum of all non-zero cells (every sample having one) -/
theorem min_whole_spec (inp : Input) (ht : TableOK inp.t) (hcol : inp.colOK)
    (hall : allNonEmpty inp.t .samp = true) (hM : inp.t.samp.length ≠ 0) :
    ∃ m, minM inp none = .num m ∧ some m = minNZ (allCells inp.t) := by
  rw [minNZ_eq]
  exact extremeM_whole sel_min npMin false npMin_sel inp ht hcol hall hM

theorem max_whole_spec (inp : Input) (ht : TableOK inp.t) (hcol : inp.colOK)
    (hall : allNonEmpty inp.t .samp = true) (hM : inp.t.samp.length ≠ 0) :
    ∃ m, maxM inp none = .num m ∧ some m = maxNZ (allCells inp.t) := by
  rw [maxNZ_eq]
  exact extremeM_whole sel_max npMax true npMax_sel inp ht hcol hall hM

/-! ### why "no stored zero" matters, and why it holds -/

def zeroCS : CS Rat := { nMajor := 1, nMinor := 3, indptr := [0, 3], indices := [0, 1, 2], data := [3, 0, 5] }

theorem zeroCS_wf : zeroCS.WF where
  ptrLen := by decide
  ptrZero := by decide
  ptrMono := by intro i hi; have : i = 0 := by simp [zeroCS] at hi; omega
                subst this; decide
  ptrLast := by decide
  sameLen := by decide
  inRange := by decide
  distinct := by intro i hi; have : i = 0 := by simp [zeroCS] at hi; omega
                 subst this; decide

/-- kernel level: with an explicitly stored zero the minimum over the stored values is that zero,
not the minimum of the non-zero values, and the last `indptr` entry over-counts the non-zero cells -/
theorem min_stored_zero_witness :
    zeroCS.WF ∧ ¬ zeroCS.NoStoredZeros ∧
    npMin ((zeroCS.slice 0).map (·.2)) = .ok 0 ∧ minNZ (denseVec zeroCS.nMinor (zeroCS.slice 0)) = some 3 ∧
    nnzM zeroCS = 3 ∧ nnzCells zeroCS.toDense = 2 := by
  refine ⟨zeroCS_wf, ?_, by rfl, by decide, by decide, by decide⟩
  intro h
  exact h 0 (by decide) rfl

/-- scipy's `eliminate_zeros` (run by the constructor): every vector keeps its non-zero entries -/
def eliminateZeros (cs : CS Rat) : CS Rat :=
  let ents := (List.range cs.nMajor).map (fun i => (cs.slice i).filter (fun e => e.2 ≠ 0))
  { nMajor := cs.nMajor, nMinor := cs.nMinor,
    indptr := ents.foldl (fun acc e => acc ++ [acc.getLast! + e.length]) [0],
    indices := ents.flatMap (·.map (·.1)),
    data := ents.flatMap (·.map (·.2)) }

theorem eliminateZeros_noStoredZeros (cs : CS Rat) : (eliminateZeros cs).NoStoredZeros := by
  intro v hv
  simp only [eliminateZeros, List.mem_flatMap, List.mem_map] at hv
  obtain ⟨l, ⟨i, _, hl⟩, e, he, hv⟩ := hv
  rw [← hl] at he
  rw [← hv]
  exact of_decide_eq_true (List.mem_filter.mp he).2

/-! ### the predicate holds of the model: summaries -/

theorem reduceSpec_toOption (f : Rat → Rat → Rat) (v : List Rat) (h : v ≠ []) :
    (reduce1 f v).toOption = some (reduceSpec f v) := by
  cases v with
  | nil => exact absurd rfl h
  | cons x xs => rfl

/-- for every table of the domain, every well-formed layout pair without stored zeros, every reduce
function and every query: the declarative predicate is true of what the model answers -/
theorem queries_model_holds (inp : Input) (f : Rat → Rat → Rat) (q : Query)
    (ht : TableOK inp.t) (hrow : inp.rowOK) (hcol : inp.colOK) :
    holdsQ inp.t f q (answerF inp f q) = true := by
  cases q with
  | sum ax =>
    cases ax with
    | none => simp [answerF, holdsQ, (sum_whole inp.t ht).1]
    | some ax =>
      obtain ⟨xs, h1, h2⟩ := sum_axis inp.t ht ax
      simp [answerF, holdsQ, h1, h2]
  | min ax =>
    cases ax with
    | some ax =>
      by_cases hall : allNonEmpty inp.t ax = true
      · obtain ⟨xs, h1, h2⟩ := min_axis_spec inp ht hrow hcol ax hall
        simp [answerF, holdsQ, hall, h1, h2]
      · simp [holdsQ, hall]
    | none =>
      by_cases hall : (allNonEmpty inp.t .samp && inp.t.samp.length != 0) = true
      · simp only [Bool.and_eq_true, bne_iff_ne, ne_eq] at hall
        obtain ⟨m, h1, h2⟩ := min_whole_spec inp ht hcol hall.1 hall.2
        simp [answerF, holdsQ, hall.1, hall.2, h1, h2]
      · simp only [holdsQ]; rw [if_neg hall]
  | max ax =>
    cases ax with
    | some ax =>
      by_cases hall : allNonEmpty inp.t ax = true
      · obtain ⟨xs, h1, h2⟩ := max_axis_spec inp ht hrow hcol ax hall
        simp [answerF, holdsQ, hall, h1, h2]
      · simp [holdsQ, hall]
    | none =>
      by_cases hall : (allNonEmpty inp.t .samp && inp.t.samp.length != 0) = true
      · simp only [Bool.and_eq_true, bne_iff_ne, ne_eq] at hall
        obtain ⟨m, h1, h2⟩ := max_whole_spec inp ht hcol hall.1 hall.2
        simp [answerF, holdsQ, hall.1, hall.2, h1, h2]
      · simp only [holdsQ]; rw [if_neg hall]
  | nzc ax b =>
    cases ax with
    | some ax =>
      obtain ⟨xs, h1, h2⟩ := nonzero_counts_axis inp.t ht ax b
      cases b <;> simp_all [answerF, holdsQ]
    | none =>
      have h := nonzero_counts_whole inp.t ht
      cases b <;> simp [answerF, holdsQ, h.1, h.2]
  | density =>
    simp only [answerF, holdsQ, density_spec inp hrow, approx_refl]
  | nnz =>
    simp only [answerF, holdsQ, nnzM_eq_nnzCells inp.csr hrow.wf hrow.nsz, hrow.content, beq_self_eq_true]
  | reduce name ax =>
    have h := reduce_spec inp.t ht f ax
    by_cases he : inp.t.samp.length = 0 ∨ inp.t.obs.length = 0
    · simp only [answerF, holdsQ, if_pos he, h.1 he]; decide
    · obtain ⟨xs, h1, h2, h3⟩ := h.2 he
      simp only [answerF, holdsQ, if_neg he, h1]
      have : xs.map (fun x => some (some x)) = perId inp.t ax (fun v => (reduce1 f v).toOption) := by
        have h2' : (xs.map some).map (fun o => o.map some) = (perId inp.t ax (reduceSpec f)).map (fun o => o.map some) := by
          rw [h2]
        rw [perId_eq inp.t ht] at h2' ⊢
        simp only [List.map_map, Function.comp_def, Option.map_some] at h2'
        rw [h2']
        apply List.map_congr_left
        intro v hv
        rw [reduceSpec_toOption f v (h3 v hv)]
      simp [this]

/-! ### per-sample count statistics -/

/-- the counts the helper works on: one per sample ID, in ID order -/
def countsOf (t : Table Rat) (binary : Bool) : List Rat := (iterData t .samp).map (countOf binary)

theorem countsOf_length (t : Table Rat) (b : Bool) : (countsOf t b).length = t.samp.length := by
  simp [countsOf, iterData]

theorem statsM_dict (t : Table Rat) (h : TableOK t) (b : Bool) :
    buildDict (t.samp.zip (countsOf t b)) = t.samp.zip (countsOf t b) := by
  apply buildDict_nodup
  rw [List.map_fst_zip (by rw [countsOf_length]; exact Nat.le_refl _)]
  exact h.sampNodup

theorem zip_snd (t : Table Rat) (b : Bool) : (t.samp.zip (countsOf t b)).map (·.2) = countsOf t b :=
  List.map_snd_zip (by rw [countsOf_length]; exact Nat.le_refl _)

theorem zip_fst (t : Table Rat) (b : Bool) : (t.samp.zip (countsOf t b)).map (·.1) = t.samp :=
  List.map_fst_zip (by rw [countsOf_length]; exact Nat.le_refl _)

theorem statsM_eq (t : Table Rat) (h : TableOK t) (b : Bool) :
    statsM t b = match countsOf t b with
      | [] => { min := 0, max := 0, median := 0, mean := 0, counts := t.samp.zip (countsOf t b) }
      | x :: xs => { min := xs.foldl min x, max := xs.foldl max x, median := median (countsOf t b),
                     mean := mean (countsOf t b), counts := t.samp.zip (countsOf t b) } := by
  have hd := statsM_dict t h b
  have hs := zip_snd t b
  unfold countsOf at hd hs
  simp only [statsM, hd, hs]
  rfl

theorem specCounts_eq (t : Table Rat) (h : TableOK t) (b : Bool) :
    specCounts t b = (countsOf t b).map some := by
  simp [specCounts, perId_eq t h, countsOf, List.map_map, Function.comp_def]

/-- the statistics helper: its dict lists every sample ID with that sample's count; min/max/median/
mean are those of these counts -/
theorem stats_model_holds (t : Table Rat) (h : TableOK t) (b : Bool) : holdsStats t b (statsM t b) = true := by
  have hc : (statsM t b).counts = t.samp.zip (countsOf t b) := by
    rw [statsM_eq t h b]; split <;> rfl
  have h1 : ((specCounts t b).map (·.getD 0)) = countsOf t b := by
    rw [specCounts_eq t h b]; simp [List.map_map, Function.comp_def]
  have h2 : (t.samp.zip (countsOf t b)).map (fun e => some e.2) = specCounts t b := by
    rw [specCounts_eq t h b]
    conv => rhs; rw [← zip_snd t b]
    simp [List.map_map, Function.comp_def]
  unfold holdsStats
  simp only [h1, h2, hc, zip_fst, beq_self_eq_true, Bool.true_and]
  rw [statsM_eq t h b]
  cases hC : countsOf t b with
  | nil => simp
  | cons x xs => simp [minL?, maxL?, approx_refl]

theorem stats_bounds (t : Table Rat) (h : TableOK t) (b : Bool) (id : Id) (c : Rat)
    (hm : (id, c) ∈ (statsM t b).counts) : (statsM t b).min ≤ c ∧ c ≤ (statsM t b).max := by
  rw [statsM_eq t h b] at hm ⊢
  cases hC : countsOf t b with
  | nil => simp [hC] at hm
  | cons x xs =>
    simp only [hC] at hm ⊢
    have hc : c ∈ x :: xs := (List.of_mem_zip hm).2
    rcases List.mem_cons.mp hc with rfl | hc
    · exact ⟨foldl_sel_le_init sel_min xs c, foldl_sel_le_init sel_max xs c⟩
    · exact ⟨foldl_sel_le_mem sel_min xs x c hc, foldl_sel_le_mem sel_max xs x c hc⟩

/-- mean · (number of samples) = Σ of the per-sample counts -/
theorem stats_mean_total (t : Table Rat) (h : TableOK t) (b : Bool) (hM : t.samp.length ≠ 0) :
    (statsM t b).mean * (t.samp.length : Rat) = (countsOf t b).sum := by
  rw [statsM_eq t h b]
  have hl := countsOf_length t b
  cases hC : countsOf t b with
  | nil => rw [hC] at hl; exact absurd hl.symm hM
  | cons x xs =>
    rw [hC] at hl
    simp only [mean, ← hl]
    have : ((x :: xs).length : Rat) ≠ 0 := by
      simp only [List.length_cons]
      have : (0 : Rat) ≤ (xs.length : Rat) := by exact_mod_cast Nat.zero_le _
      intro e
      have e' : ((xs.length : Nat) : Rat) + 1 = 0 := by simpa using e
      grind
    exact Rat.div_mul_cancel this

theorem isort_sorted_perm (c : List Rat) : (isort c).Perm c ∧ (isort c).Pairwise (· ≤ ·) := by
  rw [isort_eq]
  exact ⟨sortBy_perm id c, sortBy_sorted id c⟩

/-- the median, for ANY ascending arrangement `s` of the counts: the middle element for an odd
number of counts, the mean of the two middle elements for an even number -/
theorem median_spec (c s : List Rat) (hp : s.Perm c) (hs : s.Pairwise (· ≤ ·)) :
    (c.length % 2 = 1 → median c = s.getD (c.length / 2) 0) ∧
    (c.length % 2 = 0 → median c = (s.getD (c.length / 2 - 1) 0 + s.getD (c.length / 2) 0) / 2) := by
  have hi := isort_sorted_perm c
  have he : isort c = s := sorted_perm_unique _ _ (hi.1.trans hp.symm) hi.2 hs
  have hl : s.length = c.length := hp.length_eq
  unfold median
  simp only [he, hl]
  constructor
  · intro h; simp [h]
  · intro h; simp [h]

/-! ### listings, head, data frames -/

theorem ids_model_holds (t : Table Rat) (o : Bool) : holdsIds t o (idsM t o) = true := by
  cases o <;> simp [holdsIds, idsM, Table.ids]

/-- `head -n -m`: refuses n, m ≤ 0; otherwise lists the first n observation and m sample IDs in
order and every value shown is the table's value for that (observation ID, sample ID) -/
theorem head_model_holds (t : Table Rat) (n m : Int) : holdsHead t n m (headM t n m) = true := by
  unfold holdsHead headM
  by_cases h0 : n = 0 ∨ m = 0
  · have : n ≤ 0 ∨ m ≤ 0 := by omega
    simp [h0, this]
  · by_cases hn : n < 0
    · have : n ≤ 0 ∨ m ≤ 0 := by omega
      simp [h0, hn, this]
    · by_cases hm : m < 0
      · have : n ≤ 0 ∨ m ≤ 0 := by omega
        simp [h0, hn, hm, this]
      · have hpos : ¬ (n ≤ 0 ∨ m ≤ 0) := by omega
        simp only [h0, hn, hm, hpos, if_false, beq_self_eq_true, Bool.true_and, List.all_eq_true]
        intro o ho s hs
        rw [lookupBy_map, lookupBy_take _ _ _ _ ho]
        simp only [Table.cell?, Table.row?, beq_iff_eq]
        cases lookupBy t.obs t.rows o with
        | none => rfl
        | some r => simp only [Option.map_some, Option.bind_some]; exact lookupBy_take _ _ _ _ hs

/-- `to_dataframe(dense=True)`: the table's labels, and every cell found by its labels is the table's value -/
theorem frame_dense_holds (t : Table Rat) : holdsFrame t (frameDenseM t) = true := by
  have hv : frameValues t (frameDenseM t) = true := by
    simp only [frameValues, List.all_eq_true, beq_iff_eq]
    intro o _ s _
    simp only [Frame.cell?, frameDenseM, lookupBy_map, Table.cell?, Table.row?]
    cases lookupBy t.obs t.rows o with
    | none => rfl
    | some r => simp [lookupBy_map]
  simp only [holdsFrame, hv, Bool.and_true]
  simp [frameLabels, frameDenseM]

/-- the table's rows read off the column view -/
theorem rows_of_csc (inp : Input) (ht : TableOK inp.t) (hcol : inp.colOK) :
    inp.t.rows = (List.range inp.t.obs.length).map (fun i =>
      (List.range inp.t.samp.length).map (fun j => entryAt (inp.csc.slice j) i)) := by
  have hinv := transposeGrid_involutive inp.t.samp.length inp.t.rows ht.rect
  rw [ht.nrows, ← hcol.content] at hinv
  rw [← hinv]
  simp only [transposeGrid]
  apply List.map_congr_left
  intro i hi
  rw [colAt_toDense inp.csc i (by rw [hcol.nMin]; exact List.mem_range.mp hi), hcol.nMaj]

/-- `to_dataframe()` (sparse frame, as the installed pandas builds it): the table's labels, and every
cell whose table value is NOT zero, found by its labels, shows that value -/
theorem to_dataframe_sparse_partial (inp : Input) (ht : TableOK inp.t) (hcol : inp.colOK)
    (o s : Id) (v : Rat) (hv : inp.t.cell? o s = some v) (h0 : v ≠ 0) :
    frameLabels inp.t (frameSparseM inp) = true ∧ (frameSparseM inp).cell? o s = some (some v) := by
  refine ⟨by simp [frameLabels, frameSparseM], ?_⟩
  have hEF : ∀ i j, entryAt (inp.csc.slice j) i ≠ 0 →
      ((inp.csc.slice j).find? (fun e => e.1 == i)).map (·.2) = some (entryAt (inp.csc.slice j) i) := by
    intro i j h
    unfold entryAt at h ⊢
    cases hf : (inp.csc.slice j).find? (fun e => e.1 == i) with
    | none => rw [hf] at h; exact absurd rfl h
    | some e => rfl
  have hrows := rows_of_csc inp ht hcol
  simp only [Table.cell?, Table.row?] at hv
  rw [hrows, lookupBy_map] at hv
  simp only [Frame.cell?, frameSparseM, lookupBy_map]
  cases hi : lookupBy inp.t.obs (List.range inp.t.obs.length) o with
  | none => rw [hi] at hv; simp at hv
  | some i =>
    rw [hi] at hv
    simp only [Option.map_some, Option.bind_some, lookupBy_map] at hv ⊢
    cases hj : lookupBy inp.t.samp (List.range inp.t.samp.length) s with
    | none => rw [hj] at hv; simp at hv
    | some j =>
      rw [hj] at hv
      simp only [Option.map_some, Option.some.injEq] at hv ⊢
      rw [hEF i j (by rw [hv]; exact h0), hv]

def nanInput : Input :=
  { t := { obs := ["o1"], samp := ["s1", "s2"], rows := [[0, 5]] },
    csr := { nMajor := 1, nMinor := 2, indptr := [0, 1], indices := [1], data := [5] },
    csc := { nMajor := 2, nMinor := 1, indptr := [0, 0, 1], indices := [0], data := [5] } }

/-- a zero cell is shown as NaN: on a legal table and layout the frame predicate is false of the
sparse frame (F-C19-1), while it is true of the dense one -/
theorem to_dataframe_sparse_witness :
    nanInput.okb = true ∧ (frameSparseM nanInput).cell? "o1" "s1" = some none ∧
    nanInput.t.cell? "o1" "s1" = some 0 ∧ holdsFrame nanInput.t (frameSparseM nanInput) = false ∧
    holdsFrame nanInput.t (frameDenseM nanInput.t) = true := by
  refine ⟨by decide, by decide, by decide, by decide, by decide⟩

/-! ### the `summarize-table` report -/

def rAxis (o : Bool) : Axis := if o then .obs else .samp

/-- the per-ID counts a report is about, by ID of the summarised axis -/
def rCounts (t : Table Rat) (q o : Bool) : List Rat :=
  (t.ids (rAxis o)).map (fun id => ((vecOf? t (rAxis o) id).map (countOf q)).getD 0)

theorem transpose_ok (t : Table Rat) (h : TableOK t) : TableOK t.transpose := by
  refine ⟨⟨?_, ?_, ?_, ?_⟩, h.sampNodup, h.obsNodup⟩
  · simp [Table.transpose, transposeGrid_length]
  · have := rect_transposeGrid _ _ h.rect
    rw [h.nrows] at this
    exact this
  · intro m hm; exact h.wf.2.2.2 m hm
  · intro m hm; exact h.wf.2.2.1 m hm

theorem rCounts_eq (t : Table Rat) (h : TableOK t) (q o : Bool) :
    rCounts t q o = (iterData t (rAxis o)).map (countOf q) := by
  have := perId_eq t h (rAxis o) (countOf q)
  simp only [perId] at this
  have h2 := congrArg (List.map (fun (x : Option Rat) => x.getD 0)) this
  simp only [List.map_map, Function.comp_def, Option.getD_some] at h2
  exact h2

theorem countsOf_transpose (t : Table Rat) (h : TableOK t) (q : Bool) :
    countsOf t.transpose q = (iterData t .obs).map (countOf q) := by
  have hinv := transposeGrid_involutive t.samp.length t.rows h.rect
  rw [h.nrows] at hinv
  simp only [countsOf, iterData, Table.transpose]
  show List.map (countOf q) (transposeGrid t.obs.length (transposeGrid t.samp.length t.rows)) = _
  rw [hinv]

def rInput (inp : Input) (o : Bool) : Input := if o then inp.transpose else inp

theorem rInput_ok (inp : Input) (ht : TableOK inp.t) (o : Bool) : TableOK (rInput inp o).t := by
  cases o
  · exact ht
  · exact transpose_ok inp.t ht

theorem rInput_samp (inp : Input) (o : Bool) : (rInput inp o).t.samp = inp.t.ids (rAxis o) := by
  cases o <;> rfl

theorem rInput_counts (inp : Input) (ht : TableOK inp.t) (q o : Bool) :
    countsOf (rInput inp o).t q = rCounts inp.t q o := by
  rw [rCounts_eq inp.t ht]
  cases o
  · rfl
  · exact countsOf_transpose inp.t ht q

theorem rInput_rowOK (inp : Input) (hrow : inp.rowOK) (hcol : inp.colOK) (o : Bool) : (rInput inp o).rowOK := by
  cases o
  · exact hrow
  · exact hcol

theorem specDensity_transpose (t : Table Rat) (h : TableOK t) : specDensity t.transpose = specDensity t := by
  unfold specDensity
  simp only [Table.transpose, nnzCells_transpose _ _ h.rect, Nat.mul_comm t.obs.length]
  by_cases h1 : t.samp.length = 0 <;> by_cases h2 : t.obs.length = 0 <;> simp [h1, h2]

theorem rInput_density (inp : Input) (ht : TableOK inp.t) (hrow : inp.rowOK) (hcol : inp.colOK) (o : Bool) :
    densityM (rInput inp o) = specDensity inp.t := by
  rw [density_spec _ (rInput_rowOK inp hrow hcol o)]
  cases o
  · rfl
  · exact specDensity_transpose inp.t ht

theorem rCounts_sum (t : Table Rat) (h : TableOK t) (o : Bool) : (rCounts t false o).sum = total t.rows := by
  rw [rCounts_eq t h]
  have hc : countOf false = List.sum := by funext v; simp [countOf]
  rw [hc]
  cases o
  · exact total_transpose _ _ h.rect
  · rfl

theorem stR_eq (inp : Input) (ht : TableOK inp.t) (q o : Bool) :
    statsM (rInput inp o).t q = match rCounts inp.t q o with
      | [] => { min := 0, max := 0, median := 0, mean := 0, counts := (inp.t.ids (rAxis o)).zip (rCounts inp.t q o) }
      | x :: xs => { min := xs.foldl min x, max := xs.foldl max x, median := median (rCounts inp.t q o),
                     mean := mean (rCounts inp.t q o), counts := (inp.t.ids (rAxis o)).zip (rCounts inp.t q o) } := by
  rw [statsM_eq _ (rInput_ok inp ht o), rInput_counts inp ht, rInput_samp]

theorem rCounts_length (t : Table Rat) (q o : Bool) : (rCounts t q o).length = (t.ids (rAxis o)).length := by
  simp [rCounts]

theorem vecOf_some (t : Table Rat) (h : TableOK t) (ax : Axis) (id : Id) (hid : id ∈ t.ids ax) :
    ∃ v, vecOf? t ax id = some v := by
  have hv := vecs_by_id t h ax
  have : vecOf? t ax id ∈ (t.ids ax).map (vecOf? t ax) := List.mem_map.mpr ⟨id, hid, rfl⟩
  rw [hv] at this
  obtain ⟨v, _, hv'⟩ := List.mem_map.mp this
  exact ⟨v, hv'.symm⟩

/-- the report, in each of the four mode combinations, shows the figures of the dense table: the
axis sizes, the truncated total, the density, min/max/median/mean/std of the per-ID counts of the
summarised axis, the metadata categories, and one detail line per ID of that axis with that ID's
count, in ascending order of count -/
theorem report_model_holds (inp : Input) (ht : TableOK inp.t) (hrow : inp.rowOK) (hcol : inp.colOK) (q o : Bool)
    (std : Option Rat) (hstd : printsAsStd (reportM inp q o).variance std = true) :
    holdsReport inp.t q o ((reportM inp q o).printed std) = true := by
  have hst := stR_eq inp ht q o
  have hden := rInput_density inp ht hrow hcol o
  have hinp : (if o = true then inp.transpose else inp) = rInput inp o := rfl
  have hax : (if o = true then Axis.obs else Axis.samp) = rAxis o := rfl
  have hcounts : (statsM (rInput inp o).t q).counts = (inp.t.ids (rAxis o)).zip (rCounts inp.t q o) := by
    rw [hst]; cases rCounts inp.t q o <;> rfl
  have hcv : List.map (fun x => x.snd) ((inp.t.ids (rAxis o)).zip (rCounts inp.t q o)) = rCounts inp.t q o :=
    List.map_snd_zip (by rw [rCounts_length]; exact Nat.le_refl _)
  have hck : List.map (fun x => x.fst) ((inp.t.ids (rAxis o)).zip (rCounts inp.t q o)) = inp.t.ids (rAxis o) :=
    List.map_fst_zip (by rw [rCounts_length]; exact Nat.le_refl _)
  have hC : List.map (fun id => (Option.map (countOf q) (vecOf? inp.t (rAxis o) id)).getD 0) (inp.t.ids (rAxis o)) =
      rCounts inp.t q o := rfl
  have hperm := sortBy_perm (fun (e : Id × Rat) => e.2) ((inp.t.ids (rAxis o)).zip (rCounts inp.t q o))
  have hsorted := sortBy_sorted (fun (e : Id × Rat) => e.2) ((inp.t.ids (rAxis o)).zip (rCounts inp.t q o))
  have hmem : ∀ e ∈ sortBy (fun (e : Id × Rat) => e.2) ((inp.t.ids (rAxis o)).zip (rCounts inp.t q o)),
      Option.map (countOf q) (vecOf? inp.t (rAxis o) e.1) = some e.2 := by
    intro e he
    have he' := hperm.mem_iff.mp he
    have hid : e.1 ∈ inp.t.ids (rAxis o) := (List.of_mem_zip he').1
    obtain ⟨v, hv⟩ := vecOf_some inp.t ht (rAxis o) e.1 hid
    have := mem_zip_map_self _ _ e.1 e.2 he'
    rw [this, hv]; rfl
  simp only [reportM, hinp] at hstd ⊢
  simp only [holdsReport, Report.printed, hax, hC, hcounts, hcv, sortKV_eq] at hstd ⊢
  simp only [Bool.and_eq_true]
  refine ⟨⟨⟨⟨⟨⟨⟨⟨⟨⟨⟨?_, ?_⟩, ?_⟩, ?_⟩, ?_⟩, ?_⟩, ?_⟩, ?_⟩, ?_⟩, ?_⟩, ?_⟩, ?_⟩
  · cases o <;> simp [rInput, Input.transpose, Table.transpose]
  · cases o <;> simp [rInput, Input.transpose, Table.transpose]
  · cases q
    · simp [rCounts_sum inp.t ht o, hden, printsAs3_refl]
    · simp
  · simp
  · simp
  · rw [hst]
    cases hCC : rCounts inp.t q o with
    | nil =>
      rw [hCC] at hstd
      simp only [printsAs3_refl, Bool.true_and]
      cases std with
      | none => rfl
      | some s => simp [printsAsStd] at hstd
    | cons x xs =>
      rw [hCC] at hstd
      simp only [List.length_cons, Nat.add_one_ne_zero, if_false] at hstd
      simp [minL?, maxL?, printsAs3_refl, hstd]
  · cases o <;> simp [rInput, Input.transpose, Table.transpose]
  · cases o <;> simp [rInput, Input.transpose, Table.transpose]
  · simp only [beq_iff_eq]
    rw [hperm.length_eq, List.length_zip, rCounts_length]; simp
  · simp only [List.all_eq_true, List.contains_eq_mem, decide_eq_true_eq]
    intro id hid
    rw [(hperm.map (fun x => x.fst)).mem_iff, hck]
    exact hid
  · simp only [List.all_eq_true]
    intro e he
    rw [hmem e he]
    exact printsAs3_refl _
  · apply pairwiseLe_of_pairwise
    rw [List.pairwise_map]
    refine hsorted.imp_of_mem ?_
    intro a b ha hb hab
    rw [hmem a ha, hmem b hb]
    exact hab



/-! ### metadata frames -/

/-- `metadata_to_dataframe`: refuses an axis without metadata; otherwise (entries with the same
categories in the same order, distinct column names) the frame is indexed by the IDs in order and,
for every ID, shows every value of that ID's entry under its column, and nothing else -/
theorem rowFor_full (cols : List String) (m : MdE) (hc : entryColumns m = cols) (hnd : cols.Nodup) :
    rowFor cols m = entryRow m := by
  have hl : cols.length = (entryRow m).length := by rw [entryRow_length, hc]
  have h := lookupBy_self_map cols (entryRow m) hnd hl
  have h2 := congrArg (List.map (fun (o : Option String) => o.getD missing)) h
  simp only [List.map_map, Function.comp_def, Option.getD_some, List.map_id'] at h2
  simp only [rowFor, hc]
  exact h2

theorem entryColumns_shape (m : MdE) : entryColumns m = colsOfShape (m.map itemShape) := by
  simp only [entryColumns, colsOfShape, List.flatMap_map]
  apply List.flatMap_congr
  intro kv _
  obtain ⟨k, v⟩ := kv
  cases v <;> simp [itemShape]

theorem widthsStep_fresh (w : List (String × Bool × Nat)) (it : String × Bool × Nat) (h : it.1 ∉ w.map (·.1)) :
    widthsStep w it = w ++ [it] := by
  unfold widthsStep
  have : w.any (fun e => e.1 == it.1) = false := by
    simp only [List.any_eq_false, beq_iff_eq]
    intro e he hk
    exact h (List.mem_map.mpr ⟨e, he, hk⟩)
  simp [this]

theorem foldl_widthsStep_fresh (its : List (String × Bool × Nat)) :
    ∀ acc : List (String × Bool × Nat), ((acc ++ its).map (·.1)).Nodup → its.foldl widthsStep acc = acc ++ its := by
  induction its with
  | nil => intro acc _; simp
  | cons it its ih =>
    intro acc h
    have hk : it.1 ∉ acc.map (·.1) := by
      simp only [List.map_append, List.map_cons, List.nodup_append, List.nodup_cons] at h
      intro hmem
      exact h.2.2 _ hmem _ (by simp) rfl
    simp only [List.foldl_cons, widthsStep_fresh acc it hk]
    rw [ih (acc ++ [it]) (by simpa using h)]
    simp

theorem widthsStep_same (w : List (String × Bool × Nat)) (it : String × Bool × Nat) (hmem : it ∈ w)
    (hnd : (w.map (·.1)).Nodup) : widthsStep w it = w := by
  unfold widthsStep
  have hany : w.any (fun e => e.1 == it.1) = true := by
    simp only [List.any_eq_true, beq_iff_eq]
    exact ⟨it, hmem, rfl⟩
  simp only [hany, if_true]
  conv => rhs; rw [← List.map_id w]
  apply List.map_congr_left
  intro e he
  by_cases hk : e.1 = it.1
  · have : e = it := List.inj_on_of_nodup_map hnd he hmem hk
    subst this
    obtain ⟨k, b, n⟩ := e
    cases b <;> simp
  · simp [hk]

theorem foldl_widthsStep_same (its w : List (String × Bool × Nat)) (h : ∀ it ∈ its, it ∈ w)
    (hnd : (w.map (·.1)).Nodup) : its.foldl widthsStep w = w := by
  induction its with
  | nil => rfl
  | cons it its ih =>
    simp only [List.foldl_cons, widthsStep_same w it (h it (by simp)) hnd]
    exact ih (fun x hx => h x (by simp [hx]))

/-- entries of one shape: the layout pass ends with that shape -/
theorem layout_homog (sh : List (String × Bool × Nat)) (hk : (sh.map (·.1)).Nodup) :
    ∀ (es : List MdE), (∀ m ∈ es, m.map itemShape = sh) → es ≠ [] →
      (es.flatMap (·.map itemShape)).foldl widthsStep [] = sh
  | [], _, hne => absurd rfl hne
  | m0 :: rest, h, _ => by
    have h0 := h m0 (by simp)
    simp only [List.flatMap_cons, List.foldl_append, h0]
    rw [foldl_widthsStep_fresh sh [] (by simpa using hk)]
    simp only [List.nil_append]
    apply foldl_widthsStep_same _ _ _ hk
    intro it hit
    obtain ⟨m, hm, hit'⟩ := List.mem_flatMap.mp hit
    rw [h m (by simp [hm])] at hit'
    exact hit'

/-- `metadata_to_dataframe`: refuses an axis without metadata; otherwise (every ID carrying categories
of one shape, distinct keys and column names) the frame is indexed by the IDs in order and, for every
ID, shows every value of that ID's entry under its column, and nothing else -/
theorem mdframe_model_holds (ids : List Id) (es : List MdE) (sh : List (String × Bool × Nat))
    (hlen : es.length = ids.length) (hids : ids.Nodup) (hk : (sh.map (·.1)).Nodup) (hcols : (colsOfShape sh).Nodup)
    (hsh : ∀ m ∈ es, m.map itemShape = sh) :
    holdsMdFrame ids none (mdFrameM ids none) = true ∧
    holdsMdFrame ids (some es) (mdFrameM ids (some es)) = true := by
  refine ⟨by simp only [holdsMdFrame, mdFrameM]; decide, ?_⟩
  have hhom : ∀ m ∈ es, entryColumns m = colsOfShape sh := by
    intro m hm; rw [entryColumns_shape, hsh m hm]
  cases hes : es with
  | nil =>
    subst hes
    have : ids = [] := List.length_eq_zero_iff.mp (by simpa using hlen.symm)
    subst this
    simp [holdsMdFrame, mdFrameM, colsOfShape]
  | cons m0 rest =>
    rw [← hes]
    have hne : es ≠ [] := by rw [hes]; simp
    have hrows : es.map (rowFor (colsOfShape sh)) = es.map entryRow := by
      apply List.map_congr_left
      intro m hm
      exact rowFor_full _ m (hhom m hm) hcols
    simp only [holdsMdFrame, mdFrameM, layout_homog sh hk es hsh hne, hrows, beq_self_eq_true, List.length_map, hlen,
      Bool.true_and, Bool.and_eq_true, List.all_eq_true]
    constructor
    · intro ⟨id, m⟩ hm
      have hmes : m ∈ es := (List.of_mem_zip hm).2
      have hl := lookupBy_zip_mem ids es id m hids hm
      simp only [lookupBy_map, hl, Option.map_some, Bool.and_eq_true, beq_iff_eq, List.all_eq_true]
      refine ⟨⟨?_, ?_⟩, ?_⟩
      · rw [entryRow_length, hhom m hmes]
      · intro ⟨c, v⟩ hcv
        rw [hhom m hmes] at hcv
        exact lookupBy_zip_mem _ (entryRow m) c v hcols hcv
      · intro c hc
        rw [hhom m hmes]
        simp [hc]
    · intro c hc
      rw [List.any_eq_true]
      have hm0 : m0 ∈ es := by rw [hes]; simp
      exact ⟨m0, hm0, by rw [hhom m0 hm0]; simpa using hc⟩

/-- a list-valued category of uneven length followed by another category (the input of the repaired
defect 6363233a): the shorter list leaves its last column missing and the following category stays in
ITS column, whichever entry comes first -/
theorem mdframe_ragged_keeps_columns :
    mdFrameM ["a", "b"]
        (some [[("taxonomy", .list ["k", "p"]), ("grp", .scalar "g1")],
               [("taxonomy", .list ["k", "p", "c"]), ("grp", .scalar "g2")]]) =
      .ok { index := ["a", "b"], columns := ["taxonomy_0", "taxonomy_1", "taxonomy_2", "grp"],
            rows := [["k", "p", missing, "g1"], ["k", "p", "c", "g2"]] } ∧
    holdsMdFrame ["a", "b"]
      (some [[("taxonomy", .list ["k", "p"]), ("grp", .scalar "g1")],
             [("taxonomy", .list ["k", "p", "c"]), ("grp", .scalar "g2")]])
      (mdFrameM ["a", "b"]
        (some [[("taxonomy", .list ["k", "p"]), ("grp", .scalar "g1")],
               [("taxonomy", .list ["k", "p", "c"]), ("grp", .scalar "g2")]])) = true ∧
    holdsMdFrame ["a", "b"]
      (some [[("taxonomy", .list ["k", "p", "c"]), ("grp", .scalar "g1")],
             [("taxonomy", .list ["k"]), ("grp", .scalar "g2")]])
      (mdFrameM ["a", "b"]
        (some [[("taxonomy", .list ["k", "p", "c"]), ("grp", .scalar "g1")],
               [("taxonomy", .list ["k"]), ("grp", .scalar "g2")]])) = true := by
  refine ⟨by decide, by decide, by decide⟩



/-- two uneven list categories, no ID having both at their longest (repaired defect cc0c0aa1): A has
`t` of 3 and `p` of 1, B has `t` of 1 and `p` of 3 — the frame has all of t_0..t_2, p_0..p_2, with
B's p_1 and p_2 present, and the predicate holds whichever entry comes first -/
theorem mdframe_undominated_all_columns :
    mdFrameM ["A", "B"]
        (some [[("t", .list ["t0", "t1", "t2"]), ("p", .list ["p0"])],
               [("t", .list ["u0"]), ("p", .list ["q0", "q1", "q2"])]]) =
      .ok { index := ["A", "B"], columns := ["t_0", "t_1", "t_2", "p_0", "p_1", "p_2"],
            rows := [["t0", "t1", "t2", "p0", missing, missing], ["u0", missing, missing, "q0", "q1", "q2"]] } ∧
    holdsMdFrame ["A", "B"]
      (some [[("t", .list ["t0", "t1", "t2"]), ("p", .list ["p0"])],
             [("t", .list ["u0"]), ("p", .list ["q0", "q1", "q2"])]])
      (mdFrameM ["A", "B"]
        (some [[("t", .list ["t0", "t1", "t2"]), ("p", .list ["p0"])],
               [("t", .list ["u0"]), ("p", .list ["q0", "q1", "q2"])]])) = true ∧
    holdsMdFrame ["B", "A"]
      (some [[("t", .list ["u0"]), ("p", .list ["q0", "q1", "q2"])],
             [("t", .list ["t0", "t1", "t2"]), ("p", .list ["p0"])]])
      (mdFrameM ["B", "A"]
        (some [[("t", .list ["u0"]), ("p", .list ["q0", "q1", "q2"])],
               [("t", .list ["t0", "t1", "t2"]), ("p", .list ["p0"])]])) = true := by
  refine ⟨by decide, by decide, by decide⟩


/-- the figures of the report, for every mode: axis sizes, truncated total, density, and the
statistics of the per-ID counts `rCounts` of the summarised axis; the detail lines are those
(ID, count) pairs, rearranged in ascending order of count -/
theorem report_fields (inp : Input) (ht : TableOK inp.t) (hrow : inp.rowOK) (hcol : inp.colOK) (q o : Bool) :
    (reportM inp q o).numSamples = inp.t.samp.length ∧
    (reportM inp q o).numObservations = inp.t.obs.length ∧
    (reportM inp q o).total = (if q then none else some (truncZ (total inp.t.rows))) ∧
    (reportM inp q o).density = (if q then none else some (specDensity inp.t)) ∧
    (rCounts inp.t q o ≠ [] →
      some (reportM inp q o).min = minL? (rCounts inp.t q o) ∧ some (reportM inp q o).max = maxL? (rCounts inp.t q o) ∧
      (reportM inp q o).median = median (rCounts inp.t q o) ∧ (reportM inp q o).mean = mean (rCounts inp.t q o) ∧
      (reportM inp q o).variance = some (variance (rCounts inp.t q o))) ∧
    (reportM inp q o).detail.Perm ((inp.t.ids (rAxis o)).zip (rCounts inp.t q o)) ∧
    (reportM inp q o).detail.Pairwise (fun a b => a.2 ≤ b.2) := by
  have hst := stR_eq inp ht q o
  have hden := rInput_density inp ht hrow hcol o
  have hinp : (if o = true then inp.transpose else inp) = rInput inp o := rfl
  have hcounts : (statsM (rInput inp o).t q).counts = (inp.t.ids (rAxis o)).zip (rCounts inp.t q o) := by
    rw [hst]; cases rCounts inp.t q o <;> rfl
  have hcv : List.map (fun x => x.snd) ((inp.t.ids (rAxis o)).zip (rCounts inp.t q o)) = rCounts inp.t q o :=
    List.map_snd_zip (by rw [rCounts_length]; exact Nat.le_refl _)
  simp only [reportM, hinp, hcounts, hcv, sortKV_eq, hden]
  refine ⟨?_, ?_, ?_, trivial, ?_, sortBy_perm _ _, sortBy_sorted _ _⟩
  · cases o <;> simp [rInput, Input.transpose, Table.transpose]
  · cases o <;> simp [rInput, Input.transpose, Table.transpose]
  · cases q
    · simp [rCounts_sum inp.t ht o]
    · rfl
  · intro hne
    rw [hst]
    cases hC : rCounts inp.t q o with
    | nil => exact absurd hC hne
    | cons x xs => simp [minL?, maxL?]

/-- default mode: the counts are the per-sample sums -/
theorem rCounts_default (t : Table Rat) :
    rCounts t false false = t.samp.map (fun id => ((vecOf? t .samp id).map List.sum).getD 0) := by
  have hc : countOf false = List.sum := by funext v; simp [countOf]
  simp [rCounts, rAxis, hc, Table.ids]

/-- `--qualitative`: the counts are the numbers of non-zero entries per sample -/
theorem rCounts_qualitative (t : Table Rat) :
    rCounts t true false = t.samp.map (fun id => ((vecOf? t .samp id).map (fun v => (cntNZ v : Rat))).getD 0) := by
  have hc : countOf true = fun v => (cntNZ v : Rat) := by funext v; simp [countOf]
  simp [rCounts, rAxis, hc, Table.ids]

/-- `--observations`: the counts are the per-observation sums (the code transposes the table) -/
theorem rCounts_observations (t : Table Rat) :
    rCounts t false true = t.obs.map (fun id => ((t.row? id).map List.sum).getD 0) := by
  have hc : countOf false = List.sum := by funext v; simp [countOf]
  simp [rCounts, rAxis, hc, Table.ids, vecOf?]

/-! ### nonzero() -/

/-- the pairs `nonzero()` yields, by position: one per stored entry of the row view -/
def pairsOf (inp : Input) : List (Id × Id) :=
  (List.range inp.csr.nMajor).flatMap (fun i =>
    (inp.csr.slice i).map (fun e => (inp.t.obs.getD i "", inp.t.samp.getD e.1 "")))

theorem nonzeroM_eq (inp : Input) (hrow : inp.rowOK) : nonzeroM inp = .ok (pairsOf inp) := by
  unfold nonzeroM pairsOf
  have hmem : ∀ i ∈ List.range inp.csr.nMajor, i < inp.csr.nMajor := by simp
  generalize List.range inp.csr.nMajor = l at hmem ⊢
  induction l with
  | nil => rfl
  | cons i l ih =>
    have hi : i < inp.t.obs.length := by rw [← hrow.nMaj]; exact hmem i (by simp)
    have hin : mapE (fun (e : Nat × Rat) => do let s ← getE inp.t.samp e.1; pure (inp.t.obs.getD i "", s)) (inp.csr.slice i)
        = .ok ((inp.csr.slice i).map (fun e => (inp.t.obs.getD i "", inp.t.samp.getD e.1 ""))) := by
      apply mapE_ok
      intro e he
      have : e.1 < inp.t.samp.length := by
        rw [← hrow.nMin]; exact hrow.wf.inRange _ (slice_idx_mem _ _ e he).1
      rw [getE_lt _ _ "" this]; rfl
    simp only [List.foldr_cons, List.flatMap_cons, ih (fun j hj => hmem j (by simp [hj]))]
    simp only [getE_lt _ _ "" hi, bind, Except.bind, pure, Except.pure] at hin ⊢
    rw [hin]

/-- the value of the cell of the i-th observation and j-th sample, read off the row view -/
theorem cell_at (inp : Input) (ht : TableOK inp.t) (hrow : inp.rowOK) (i j : Nat)
    (hi : i < inp.t.obs.length) (hj : j < inp.t.samp.length) :
    inp.t.cell? inp.t.obs[i] inp.t.samp[j] = some (entryAt (inp.csr.slice i) j) := by
  have hrows : inp.t.rows = (List.range inp.t.obs.length).map (fun i => denseVec inp.t.samp.length (inp.csr.slice i)) := by
    rw [← hrow.content, toDense_getElem, hrow.nMaj, hrow.nMin]
  simp only [Table.cell?, Table.row?]
  rw [lookupBy_getElem _ _ ht.obsNodup ht.nrows.symm i hi]
  have hir : i < inp.t.rows.length := by rw [ht.nrows]; exact hi
  rw [List.getElem?_eq_getElem hir]
  simp only [Option.bind_some]
  have hrl : inp.t.rows[i] = denseVec inp.t.samp.length (inp.csr.slice i) := by
    simp only [hrows, List.getElem_map, List.getElem_range]
  rw [hrl, lookupBy_getElem _ _ ht.sampNodup (by simp [denseVec]) j hj]
  simp [denseVec, hj]

theorem getD_obs (inp : Input) (i : Nat) (hi : i < inp.t.obs.length) : inp.t.obs.getD i "" = inp.t.obs[i] := by
  simp [List.getD, List.getElem?_eq_getElem hi]
theorem getD_samp (inp : Input) (j : Nat) (hj : j < inp.t.samp.length) : inp.t.samp.getD j "" = inp.t.samp[j] := by
  simp [List.getD, List.getElem?_eq_getElem hj]

theorem slice_idx_lt (inp : Input) (hrow : inp.rowOK) (i : Nat) (e : Nat × Rat) (he : e ∈ inp.csr.slice i) :
    e.1 < inp.t.samp.length := by
  rw [← hrow.nMin]; exact hrow.wf.inRange _ (slice_idx_mem _ _ e he).1

theorem mem_pairsOf (inp : Input) (ht : TableOK inp.t) (hrow : inp.rowOK) (i j : Nat)
    (hi : i < inp.t.obs.length) (hj : j < inp.t.samp.length) :
    (inp.t.obs[i], inp.t.samp[j]) ∈ pairsOf inp ↔ ∃ e ∈ inp.csr.slice i, e.1 = j := by
  simp only [pairsOf, List.mem_flatMap, List.mem_map, List.mem_range, Prod.mk.injEq, hrow.nMaj]
  constructor
  · rintro ⟨i', hi', e, he, h1, h2⟩
    have hlt := slice_idx_lt inp hrow i' e he
    rw [getD_obs inp i' hi'] at h1
    rw [getD_samp inp e.1 hlt] at h2
    have hii : i' = i := (ht.obsNodup.getElem_inj_iff).mp h1
    have hjj : e.1 = j := (ht.sampNodup.getElem_inj_iff).mp h2
    subst hii
    exact ⟨e, he, hjj⟩
  · rintro ⟨e, he, hej⟩
    refine ⟨i, hi, e, he, getD_obs inp i hi, ?_⟩
    subst hej
    exact getD_samp inp e.1 hj

theorem pairsOf_nodup (inp : Input) (ht : TableOK inp.t) (hrow : inp.rowOK) : (pairsOf inp).Nodup := by
  unfold pairsOf
  rw [List.nodup_flatMap]
  constructor
  · intro i hi
    have hi' : i < inp.csr.nMajor := List.mem_range.mp hi
    have hnd := hrow.wf.distinct i hi'
    apply List.Nodup.map_on _ (List.Nodup.of_map _ hnd)
    intro e he e' he' heq
    simp only [Prod.mk.injEq, true_and] at heq
    rw [getD_samp inp e.1 (slice_idx_lt inp hrow i e he), getD_samp inp e'.1 (slice_idx_lt inp hrow i e' he')] at heq
    have h1 : e.1 = e'.1 := (ht.sampNodup.getElem_inj_iff).mp heq
    exact List.inj_on_of_nodup_map hnd he he' h1
  · apply List.Pairwise.imp_of_mem _ (List.nodup_iff_pairwise_ne.mp List.nodup_range)
    intro i i' hi hi' hne
    simp only [Function.onFun]
    rw [List.disjoint_left]
    intro p hp hp'
    obtain ⟨e, _, rfl⟩ := List.mem_map.mp hp
    obtain ⟨e', _, heq⟩ := List.mem_map.mp hp'
    simp only [Prod.mk.injEq] at heq
    have hi1 : i < inp.t.obs.length := by rw [← hrow.nMaj]; exact List.mem_range.mp hi
    have hi2 : i' < inp.t.obs.length := by rw [← hrow.nMaj]; exact List.mem_range.mp hi'
    rw [getD_obs inp i hi1, getD_obs inp i' hi2] at heq
    exact hne ((ht.obsNodup.getElem_inj_iff).mp heq.1).symm

/-- `nonzero()`: exactly the (observation ID, sample ID) pairs whose cell is not zero, each once -/
theorem nonzero_model_holds (inp : Input) (ht : TableOK inp.t) (hrow : inp.rowOK) :
    ∃ ps, nonzeroM inp = .ok ps ∧ holdsNonzero inp.t ps = true := by
  refine ⟨pairsOf inp, nonzeroM_eq inp hrow, ?_⟩
  simp only [holdsNonzero, Bool.and_eq_true, decide_eq_true_eq, List.all_eq_true, List.contains_eq_mem,
    beq_iff_eq]
  refine ⟨⟨pairsOf_nodup inp ht hrow, ?_⟩, ?_⟩
  · intro p hp
    simp only [pairsOf, List.mem_flatMap, List.mem_map, List.mem_range, hrow.nMaj] at hp
    obtain ⟨i, hi, e, he, rfl⟩ := hp
    have hlt := slice_idx_lt inp hrow i e he
    simp only [getD_obs inp i hi, getD_samp inp e.1 hlt]
    exact ⟨List.getElem_mem _, List.getElem_mem _⟩
  · intro o ho s hs
    obtain ⟨i, hi, rfl⟩ := List.getElem_of_mem ho
    obtain ⟨j, hj, rfl⟩ := List.getElem_of_mem hs
    rw [cell_at inp ht hrow i j hi hj]
    have hnz : ∀ e ∈ inp.csr.slice i, e.2 ≠ 0 := fun e he => hrow.nsz _ (slice_idx_mem _ _ e he).2
    have h1 := mem_pairsOf inp ht hrow i j hi hj
    have h2 := entryAt_ne_zero_iff (inp.csr.slice i) j hnz
    by_cases hm : (inp.t.obs[i], inp.t.samp[j]) ∈ pairsOf inp
    · have := h2.mpr (h1.mp hm)
      simp [hm, this]
    · have : entryAt (inp.csr.slice i) j = 0 := by
        by_contra hne
        exact hm (h1.mpr (h2.mp hne))
      simp [hm, this]


/-! ### repr -/

theorem specDensity_nonneg (t : Table Rat) : 0 ≤ specDensity t := by
  unfold specDensity
  split
  · exact Rat.le_refl
  · next h =>
    have hk : t.samp.length * t.obs.length ≠ 0 := by
      intro e
      rcases Nat.mul_eq_zero.mp e with e | e
      · exact h (Or.inr e)
      · exact h (Or.inl e)
    obtain ⟨k, hk'⟩ := Nat.exists_eq_succ_of_ne_zero hk
    rw [hk', Rat.div_def]
    apply Rat.mul_nonneg Rat.natCast_nonneg
    apply Rat.le_of_lt
    rw [Rat.inv_pos]
    have : (0 : Rat) ≤ (k : Rat) := Rat.natCast_nonneg
    have e : ((k.succ : Nat) : Rat) = (k : Rat) + 1 := by simp
    rw [e]; grind

theorem pctOK_trunc (d : Rat) (hd : 0 ≤ d) : pctOK d (truncZ (100 * d)) = true := by
  have hx : (0 : Rat) ≤ 100 * d := Rat.mul_nonneg (by decide) hd
  have h1 := Rat.floor_le (100 * d)
  have h2 := Rat.lt_floor_add_one (100 * d)
  have h3 : (((100 * d).floor + 1 : Int) : Rat) = ((100 * d).floor : Rat) + 1 := by simp
  rw [h3] at h2
  simp only [pctOK, truncZ, hx, if_true, Bool.and_eq_true, decide_eq_true_eq, pctEps]
  constructor <;> grind

/-- `repr(table)`: the shape, the number of non-zero cells, and the truncated density percentage -/
theorem repr_model_holds (inp : Input) (hrow : inp.rowOK) : holdsRepr inp.t (reprM inp) = true := by
  simp only [holdsRepr, reprM, beq_self_eq_true, Bool.true_and, nnzM_eq_nnzCells inp.csr hrow.wf hrow.nsz,
    hrow.content, density_spec inp hrow]
  exact pctOK_trunc _ (specDensity_nonneg inp.t)

/-- everything at once: for every table of the domain in every well-formed layout without stored
zeros, each predicate of the property is true of what the model of the code produces -/
theorem model_holds (inp : Input) (ht : TableOK inp.t) (hrow : inp.rowOK) (hcol : inp.colOK) :
    (∀ f q, holdsQ inp.t f q (answerF inp f q) = true) ∧
    (∀ b, holdsStats inp.t b (statsM inp.t b) = true) ∧
    (∀ q o std, printsAsStd (reportM inp q o).variance std = true →
      holdsReport inp.t q o ((reportM inp q o).printed std) = true) ∧
    (∀ o, holdsIds inp.t o (idsM inp.t o) = true) ∧
    (∀ n m, holdsHead inp.t n m (headM inp.t n m) = true) ∧
    holdsFrame inp.t (frameDenseM inp.t) = true ∧
    (∃ ps, nonzeroM inp = .ok ps ∧ holdsNonzero inp.t ps = true) ∧
    holdsRepr inp.t (reprM inp) = true :=
  ⟨fun f q => queries_model_holds inp f q ht hrow hcol,
   fun b => stats_model_holds inp.t ht b,
   fun q o std h => report_model_holds inp ht hrow hcol q o std h,
   fun o => ids_model_holds inp.t o,
   fun n m => head_model_holds inp.t n m,
   frame_dense_holds inp.t,
   nonzero_model_holds inp ht hrow,
   repr_model_holds inp hrow⟩


/-! ### the decidable layout check of the driver implies the hypotheses of the theorems -/

theorem okb_sound (inp : Input) (h : inp.okb = true) : inp.rowOK ∧ inp.colOK := by
  simp only [Input.okb, Bool.and_eq_true] at h
  exact ⟨viewOK_of_b _ _ _ _ h.1, viewOK_of_b _ _ _ _ h.2⟩

/-! ### non-vacuity: a concrete asymmetric table in an unsorted layout meets every hypothesis -/

def exInput : Input :=
  { t := { obs := ["o1", "o2"], samp := ["s1", "s2", "s3"], rows := [[0, 5, 2], [3, 0, -1]] },
    csr := { nMajor := 2, nMinor := 3, indptr := [0, 2, 4], indices := [2, 1, 0, 2], data := [2, 5, 3, -1] },
    csc := { nMajor := 3, nMinor := 2, indptr := [0, 1, 2, 4], indices := [1, 0, 1, 0], data := [3, 5, -1, 2] } }

theorem exInput_tableOK : TableOK exInput.t := by
  refine ⟨⟨by decide, by decide, ?_, ?_⟩, by decide, by decide⟩
  · intro m h; cases h
  · intro m h; cases h

theorem exInput_layout : exInput.rowOK ∧ exInput.colOK := okb_sound exInput (by decide)

example : answer exInput (.sum (some .samp)) = .nums [3, 5, 1] := by decide +kernel
example : answer exInput (.sum (some .obs)) = .nums [7, 2] := by decide +kernel
example : answer exInput (.min (some .obs)) = .nums [2, -1] := by decide +kernel
example : answer exInput (.max none) = .num 5 := by decide +kernel
example : answer exInput (.nzc (some .samp) true) = .nums [1, 1, 2] := by decide +kernel
example : holdsQ exInput.t (redF "sub") (.reduce "sub" .obs) (answer exInput (.reduce "sub" .obs)) = true :=
  queries_model_holds exInput (redF "sub") (.reduce "sub" .obs) exInput_tableOK exInput_layout.1 exInput_layout.2
example : (statsM exInput.t false).counts = [("s1", 3), ("s2", 5), ("s3", 1)] := by decide +kernel
example : (reportM exInput false true).detail = [("o2", 2), ("o1", 7)] := by decide +kernel
example : (reportM exInput true false).detail.map (·.1) = ["s1", "s2", "s3"] := by decide +kernel
/-- the predicate is not trivially true: a wrong-axis answer is rejected -/
example : holdsQ exInput.t (fun a _ => a) (.sum (some .samp)) (.nums [7, 2]) = false := by decide +kernel
example : holdsQ exInput.t (fun a _ => a) (.sum (some .samp)) (.nums [7, 2, 0]) = false := by decide +kernel
example : holdsQ exInput.t (fun a _ => a) (.max (some .obs)) (.nums [2, -1]) = false := by decide +kernel


end Biom.C19
