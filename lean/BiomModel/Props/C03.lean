/-
  C03 — property theorems: exporting a table to the classic tab-separated text and importing that
  text again gives back the IDs of both axes in order, exactly the grid, and an exported metadata
  category.  Every table shape (any number ≥ 1 of observations and samples, so also a single
  sample or a single observation), every grid, every ID list meeting the guard, every pair of
  number printing / parsing functions meeting the float-text contract, every formatter and
  processing function that are inverse on the exported values, every blank line end.
-/
import BiomModel.Lemmas.C03

namespace Biom.C03

/-! ### the guard of the property -/

/-- a field that survives the trip: non-empty, no tab, no blank at either end -/
structure FieldOk (s : Text) : Prop where
  ne : s ≠ []
  noTab : '\t' ∉ s
  noLead : NoLead s
  noTrail : NoTrail s

/-- an observation ID: a field that does not start with '#' -/
def IdOk (s : Text) : Prop := FieldOk s ∧ startsHash s = false

/-- the contract of the two external number functions on a value `v`: the printed text parses
back to `v`, has no tab and no blank at either end -/
structure NumOk (io : NumIO α) (v : α) : Prop where
  parse_fmt : io.parse (io.fmt v) = some v
  noTab : '\t' ∉ io.fmt v
  noLead : NoLead (io.fmt v)
  noTrail : NoTrail (io.fmt v)

/-- shape and ID hypotheses on the exported table -/
structure TableOk (io : NumIO α) (e : Export α μ) : Prop where
  obs_ne : e.obs ≠ []
  samp_ne : e.samp ≠ []
  obs_ok : ∀ o ∈ e.obs, IdOk o
  samp_ok : ∀ s ∈ e.samp, FieldOk s
  obs_nodup : e.obs.Nodup
  samp_nodup : e.samp.Nodup
  rows_len : e.rows.length = e.obs.length
  row_len : ∀ r ∈ e.rows, r.length = e.samp.length
  num_ok : ∀ r ∈ e.rows, ∀ v ∈ r, NumOk io v
  col_ne : e.colName ≠ []
  col_noTab : '\t' ∉ e.colName
  col_noLead : NoLead e.colName

/-! ### the header lines -/

theorem line0_facts : strip line0 = line0 ∧ split '\t' line0 = [line0] ∧ startsHash line0 = true ∧ line0 ≠ [] := by
  decide

theorem noTrail_join_line (o : Text) (fs : List Text) (hne : fs ≠ [])
    (h : ∀ f ∈ fs, FieldOk f) : NoTrail (o ++ '\t' :: join '\t' fs) := by
  obtain ⟨p, hp⟩ := join_ends '\t' o fs hne
  rw [hp]
  have hl := h _ (List.getLast_mem hne)
  exact noTrail_append p _ (List.cons_ne_nil _ _) (noTrail_cons _ _ hl.ne hl.noTrail)

/-- the header line `col \t f1 \t … \t fk`: stripping changes nothing and its fields after the first are `fs` -/
theorem header_fields (col : Text) (fs : List Text) (hne : fs ≠ []) (h : ∀ f ∈ fs, FieldOk f)
    (c1 : col ≠ []) (c2 : '\t' ∉ col) (c3 : NoLead col) :
    let l := col ++ '\t' :: join '\t' fs
    strip l = l ∧ rstrip l = l ∧ (split '\t' l).tail = fs ∧ l ≠ [] := by
  intro l
  have hl : l = join '\t' (col :: fs) := (join_cons_ne_nil '\t' col fs hne).symm
  have nt : NoTrail l := noTrail_join_line col fs hne h
  have nl : NoLead l := noLead_append col _ c1 c3
  refine ⟨strip_of_clean l nl nt, rstrip_of_noTrail l nt, ?_, ?_⟩
  · rw [hl, split_join '\t' (col :: fs) ?_ (List.cons_ne_nil _ _)]
    · rfl
    · intro f hf
      rcases List.mem_cons.mp hf with e | hf
      · exact e ▸ c2
      · exact (h f hf).noTab
  · cases col with
    | nil => exact absurd rfl c1
    | cons c t => exact List.cons_ne_nil _ _

/-- the header loop on an exported text: the header is the second line, data start at line 2 -/
theorem findHeader_classic (l1 d : Text) (ds : List Text) (H : List Text) (hH : H ≠ [])
    (h1 : strip l1 = l1) (h1r : rstrip l1 = l1) (h1s : (split '\t' l1).tail = H) (h1n : l1 ≠ [])
    (hd1 : strip d ≠ []) (hd2 : startsHash d = false) :
    findHeader (line0 :: l1 :: d :: ds) none 0 = (some H, 2) := by
  obtain ⟨a, b, c, n0⟩ := line0_facts
  simp only [findHeader, n0, h1n, if_false, c, Bool.not_true, a, b, List.tail_cons, h1, h1r, h1s]
  by_cases hs : startsHash l1 = true
  · simp only [hs, Bool.not_true, if_false, hd1, hd2, Bool.not_false, if_true]
    cases H with
    | nil => exact absurd rfl hH
    | cons x xs => simp [falsy]
  · have : startsHash l1 = false := by simpa using hs
    simp [this, falsy]

/-! ### the data lines -/

theorem data_line_plain (io : NumIO α) (o : Text) (r : List α) (ho : IdOk o) (hr : r ≠ [])
    (hv : ∀ v ∈ r, NumOk io v) :
    let l := baseLine io o r
    strip l ≠ [] ∧ startsHash l = false ∧ stripLast (split '\t' l) = o :: r.map io.fmt ∧
    (io.parse (strip (afterLast '\t' l))).isSome = true := by
  intro l
  have hF : r.map io.fmt ≠ [] := by simpa using hr
  have hl : l = join '\t' (o :: r.map io.fmt) := (join_cons_ne_nil '\t' o _ hF).symm
  have hclean : ∀ f ∈ r.map io.fmt, strip f = f := by
    intro f hf
    obtain ⟨v, hvm, rfl⟩ := List.mem_map.mp hf
    exact strip_of_clean _ (hv v hvm).noLead (hv v hvm).noTrail
  refine ⟨strip_ne_nil l ?_ (noLead_append o _ ho.1.ne ho.1.noLead), ?_, ?_, ?_⟩
  · cases o with
    | nil => exact absurd rfl ho.1.ne
    | cons c t => exact List.cons_ne_nil _ _
  · show startsHash (o ++ _) = false
    rw [startsHash_append o _ ho.1.ne]; exact ho.2
  · rw [hl, split_join '\t' _ ?_ (List.cons_ne_nil _ _), stripLast_cons o _ hF, stripLast_of_clean _ hclean]
    intro f hf
    rcases List.mem_cons.mp hf with e | hf
    · exact e ▸ ho.1.noTab
    · obtain ⟨v, hvm, rfl⟩ := List.mem_map.mp hf
      exact (hv v hvm).noTab
  · obtain ⟨p, hp⟩ := join_ends '\t' o (r.map io.fmt) hF
    have hlast : (r.map io.fmt).getLast hF ∈ r.map io.fmt := List.getLast_mem hF
    obtain ⟨v, hvm, hve⟩ := List.mem_map.mp hlast
    show (io.parse (strip (afterLast '\t' (o ++ '\t' :: join '\t' (r.map io.fmt))))).isSome = true
    rw [hp, ← hve, afterLast_append_cons '\t' p _ (hv v hvm).noTab,
      strip_of_clean _ (hv v hvm).noLead (hv v hvm).noTrail, (hv v hvm).parse_fmt]
    rfl

theorem data_line_md (io : NumIO α) (o m : Text) (r : List α) (ho : IdOk o) (hr : r ≠ [])
    (hv : ∀ v ∈ r, NumOk io v) (hm : '\t' ∉ m) :
    let l := baseLine io o r ++ '\t' :: m
    strip l ≠ [] ∧ startsHash l = false ∧ stripLast (split '\t' l) = o :: (r.map io.fmt ++ [strip m]) ∧
    strip (afterLast '\t' l) = strip m := by
  intro l
  have hF : r.map io.fmt ≠ [] := by simpa using hr
  have hb : baseLine io o r = join '\t' (o :: r.map io.fmt) := (join_cons_ne_nil '\t' o _ hF).symm
  have hl : l = join '\t' ((o :: r.map io.fmt) ++ [m]) := by
    show baseLine io o r ++ '\t' :: m = _
    rw [join_append_singleton '\t' _ m (List.cons_ne_nil _ _), hb]
  have hne : baseLine io o r ≠ [] := by
    show o ++ _ ≠ []
    cases o with
    | nil => exact absurd rfl ho.1.ne
    | cons c t => exact List.cons_ne_nil _ _
  refine ⟨strip_ne_nil l ?_ ?_, ?_, ?_, ?_⟩
  · show baseLine io o r ++ _ ≠ []
    intro e; exact hne (List.append_eq_nil_iff.mp e).1
  · show NoLead ((o ++ _) ++ _)
    rw [List.append_assoc]
    exact noLead_append o _ ho.1.ne ho.1.noLead
  · show startsHash ((o ++ _) ++ _) = false
    rw [List.append_assoc, startsHash_append o _ ho.1.ne]; exact ho.2
  · rw [hl, split_join '\t' _ ?_ (by simp), List.cons_append, stripLast_cons o _ (by simp),
      stripLast_append_singleton]
    intro f hf
    rcases List.mem_append.mp hf with hf | hf
    · rcases List.mem_cons.mp hf with e | hf
      · exact e ▸ ho.1.noTab
      · obtain ⟨v, hvm, rfl⟩ := List.mem_map.mp hf
        exact (hv v hvm).noTab
    · have : f = m := by simpa using hf
      exact this ▸ hm
  · show strip (afterLast '\t' (baseLine io o r ++ '\t' :: m)) = strip m
    rw [afterLast_append_cons '\t' _ m hm]

section loop
variable [Zero α] [DecidableEq α]

theorem dataLoop_step (io : NumIO α) (b : Bool) (l : Text) (ls : List Text) (i : Nat)
    (h1 : strip l ≠ []) (h2 : startsHash l = false) :
    dataLoop io b (l :: ls) i =
      (let fields := stripLast (split '\t' l)
       let valFields := if b then fields.drop 1 else (fields.drop 1).dropLast
       match parseAll io valFields with
       | none => .error .type
       | some vals =>
         match dataLoop io b ls (i + 1) with
         | .error e => .error e
         | .ok (os, ts, ms) =>
           .ok (fields.headD [] :: os, rowTriples i 0 vals ++ ts,
                if b then ms else (fields.getLast?.getD []) :: ms)) := by
  simp only [dataLoop, h1, if_false, h2, Bool.false_eq_true]
  rfl

theorem dataLoop_plain (io : NumIO α) (obs : List Text) (rows : List (List α)) (i : Nat)
    (hlen : rows.length = obs.length) (hobs : ∀ o ∈ obs, IdOk o)
    (hrow : ∀ r ∈ rows, r ≠ [] ∧ ∀ v ∈ r, NumOk io v) :
    dataLoop io true (List.zipWith (baseLine io) obs rows) i = .ok (obs, allTriples i rows, []) := by
  induction obs generalizing rows i with
  | nil =>
    cases rows with
    | nil => rfl
    | cons r rs => simp at hlen
  | cons o os ih =>
    cases rows with
    | nil => simp at hlen
    | cons r rs =>
      have hr := hrow r (List.mem_cons_self ..)
      obtain ⟨a, b, c, _⟩ := data_line_plain io o r (hobs o (List.mem_cons_self ..)) hr.1 hr.2
      rw [List.zipWith_cons_cons, dataLoop_step io true _ _ i a b]
      simp only [c, if_true, List.drop_one, List.tail_cons,
        parseAll_map_fmt io r (fun v hv => (hr.2 v hv).parse_fmt), List.headD_cons]
      rw [ih rs (i + 1) (by simpa using hlen) (fun x hx => hobs x (List.mem_cons_of_mem _ hx))
        (fun x hx => hrow x (List.mem_cons_of_mem _ hx))]
      rfl

theorem dataLoop_md (io : NumIO α) (obs : List Text) (rows : List (List α)) (ms : List Text) (i : Nat)
    (hlen : rows.length = obs.length) (hmlen : ms.length = obs.length) (hobs : ∀ o ∈ obs, IdOk o)
    (hrow : ∀ r ∈ rows, r ≠ [] ∧ ∀ v ∈ r, NumOk io v) (hms : ∀ m ∈ ms, '\t' ∉ m) :
    dataLoop io false
      (List.zipWith (fun (or : Text × List α) m => baseLine io or.1 or.2 ++ '\t' :: m) (obs.zip rows) ms) i
      = .ok (obs, allTriples i rows, ms.map strip) := by
  induction obs generalizing rows ms i with
  | nil =>
    cases rows with
    | nil => cases ms with
      | nil => rfl
      | cons m ms => simp at hmlen
    | cons r rs => simp at hlen
  | cons o os ih =>
    cases rows with
    | nil => simp at hlen
    | cons r rs =>
      cases ms with
      | nil => simp at hmlen
      | cons m ms =>
        have hr := hrow r (List.mem_cons_self ..)
        obtain ⟨a, b, c, _⟩ := data_line_md io o m r (hobs o (List.mem_cons_self ..)) hr.1 hr.2
          (hms m (List.mem_cons_self ..))
        rw [List.zip_cons_cons, List.zipWith_cons_cons, dataLoop_step io false _ _ i a b]
        simp only [c, Bool.false_eq_true, if_false, List.drop_one, List.tail_cons, List.dropLast_concat,
          parseAll_map_fmt io r (fun v hv => (hr.2 v hv).parse_fmt), List.headD_cons]
        rw [ih rs ms (i + 1) (by simpa using hlen) (by simpa using hmlen)
          (fun x hx => hobs x (List.mem_cons_of_mem _ hx))
          (fun x hx => hrow x (List.mem_cons_of_mem _ hx)) (fun x hx => hms x (List.mem_cons_of_mem _ hx))]
        have hlast : (o :: (List.map io.fmt r ++ [strip m])).getLast? = some (strip m) := by
          rw [← List.cons_append, List.getLast?_append]; simp
        simp [allTriples, hlast]

end loop

/-! ### the last-column heuristic on exported texts -/

theorem numeric_plain (io : NumIO α) (obs : List Text) (rows : List (List α))
    (hobs : ∀ o ∈ obs, IdOk o) (hrow : ∀ r ∈ rows, r ≠ [] ∧ ∀ v ∈ r, NumOk io v) :
    (List.zipWith (baseLine io) obs rows).all (fun l => (io.parse (strip (afterLast '\t' l))).isSome) = true := by
  induction obs generalizing rows with
  | nil => simp
  | cons o os ih =>
    cases rows with
    | nil => simp
    | cons r rs =>
      have hr := hrow r (List.mem_cons_self ..)
      obtain ⟨_, _, _, d⟩ := data_line_plain io o r (hobs o (List.mem_cons_self ..)) hr.1 hr.2
      rw [List.zipWith_cons_cons, List.all_cons, d,
        ih rs (fun x hx => hobs x (List.mem_cons_of_mem _ hx)) (fun x hx => hrow x (List.mem_cons_of_mem _ hx))]
      rfl

/-- one metadata text that is not a number is enough for the column to be recognised -/
theorem numeric_md (io : NumIO α) (obs : List Text) (rows : List (List α)) (ms : List Text)
    (hlen : rows.length = obs.length) (hmlen : ms.length = obs.length)
    (hobs : ∀ o ∈ obs, IdOk o) (hrow : ∀ r ∈ rows, r ≠ [] ∧ ∀ v ∈ r, NumOk io v) (hms : ∀ m ∈ ms, '\t' ∉ m)
    (hex : ∃ m ∈ ms, io.parse (strip m) = none) :
    (List.zipWith (fun (or : Text × List α) m => baseLine io or.1 or.2 ++ '\t' :: m) (obs.zip rows) ms).all
      (fun l => (io.parse (strip (afterLast '\t' l))).isSome) = false := by
  induction obs generalizing rows ms with
  | nil =>
    obtain ⟨m, hm, _⟩ := hex
    cases ms with
    | nil => cases hm
    | cons _ _ => simp at hmlen
  | cons o os ih =>
    cases rows with
    | nil => simp at hlen
    | cons r rs =>
      cases ms with
      | nil => simp at hmlen
      | cons m ms =>
        have hr := hrow r (List.mem_cons_self ..)
        obtain ⟨_, _, _, d⟩ := data_line_md io o m r (hobs o (List.mem_cons_self ..)) hr.1 hr.2
          (hms m (List.mem_cons_self ..))
        rw [List.zip_cons_cons, List.zipWith_cons_cons, List.all_cons, d]
        obtain ⟨x, hx, hxn⟩ := hex
        rcases List.mem_cons.mp hx with e | hx
        · subst e; simp [hxn]
        · rw [ih rs ms (by simpa using hlen) (by simpa using hmlen)
            (fun y hy => hobs y (List.mem_cons_of_mem _ hy)) (fun y hy => hrow y (List.mem_cons_of_mem _ hy))
            (fun y hy => hms y (List.mem_cons_of_mem _ hy)) ⟨x, hx, hxn⟩]
          simp

theorem rows_ok (io : NumIO α) (e : Export α μ) (h : TableOk io e) :
    ∀ r ∈ e.rows, r ≠ [] ∧ ∀ v ∈ r, NumOk io v := by
  intro r hr
  refine ⟨?_, h.num_ok r hr⟩
  intro e0
  have := h.row_len r hr
  rw [e0] at this
  exact h.samp_ne (List.length_eq_zero_iff.mp this.symm)

section main
variable [Zero α] [DecidableEq α]

/-- what the extractor finds in an exported text without a metadata column -/
theorem extract_plain (io : NumIO α) (e : Export α μ) (h : TableOk io e)
    (hhv : truthy e.headerValue = false) :
    extractData io (line0 :: headerLine e :: dataLines io e.obs e.rows none) =
      .ok { samp := e.samp, obs := e.obs, triples := allTriples 0 e.rows, md := none, mdName := none } := by
  have hl1 : headerLine e = e.colName ++ '\t' :: join '\t' e.samp := by simp [headerLine, hhv]
  obtain ⟨a, b, c, d⟩ := header_fields e.colName e.samp h.samp_ne h.samp_ok h.col_ne h.col_noTab h.col_noLead
  have hro := rows_ok io e h
  have hnum := numeric_plain io e.obs e.rows h.obs_ok hro
  have hloop := dataLoop_plain io e.obs e.rows 0 h.rows_len h.obs_ok hro
  rw [hl1]
  cases ho : e.obs with
  | nil => exact absurd ho h.obs_ne
  | cons o os =>
    cases hr : e.rows with
    | nil => have := h.rows_len; rw [ho, hr] at this; simp at this
    | cons r rs =>
      rw [ho, hr] at hnum hloop
      obtain ⟨p, q, _, _⟩ := data_line_plain io o r (h.obs_ok o (by rw [ho]; exact List.mem_cons_self ..))
        (hro r (by rw [hr]; exact List.mem_cons_self ..)).1 (hro r (by rw [hr]; exact List.mem_cons_self ..)).2
      have hf := findHeader_classic (e.colName ++ '\t' :: join '\t' e.samp) (baseLine io o r)
        (List.zipWith (baseLine io) os rs) e.samp h.samp_ne a b c d p q
      simp only [dataLines, List.zipWith_cons_cons] at hnum hloop ⊢
      simp only [extractData, hf, List.drop_succ_cons, List.drop_zero, hnum, Bool.true_or, if_true, hloop]

/-- what the extractor finds in an exported text with a metadata column -/
theorem extract_md (io : NumIO α) (e : Export α μ) (h : TableOk io e) (hv : Text) (ms : List Text)
    (hhv : e.headerValue = some hv) (hvok : FieldOk hv) (hml : ms.length = e.obs.length)
    (hmt : ∀ m ∈ ms, '\t' ∉ m) (hex : ∃ m ∈ ms, io.parse (strip m) = none) :
    extractData io (line0 :: headerLine e :: dataLines io e.obs e.rows (some ms)) =
      .ok { samp := e.samp, obs := e.obs, triples := allTriples 0 e.rows, md := some (ms.map strip),
            mdName := some hv } := by
  have htr : truthy e.headerValue = true := by
    rw [hhv]; cases hv with
    | nil => exact absurd rfl hvok.ne
    | cons c t => rfl
  rw [hhv] at htr
  have hl1 : headerLine e = e.colName ++ '\t' :: join '\t' (e.samp ++ [hv]) := by
    simp only [headerLine, htr, if_true, hhv, Option.getD_some, join_append_singleton '\t' e.samp hv h.samp_ne]
    simp
  have hH : ∀ f ∈ e.samp ++ [hv], FieldOk f := by
    intro f hf
    rcases List.mem_append.mp hf with hf | hf
    · exact h.samp_ok f hf
    · have : f = hv := by simpa using hf
      exact this ▸ hvok
  obtain ⟨a, b, c, d⟩ := header_fields e.colName (e.samp ++ [hv]) (by simp) hH h.col_ne h.col_noTab h.col_noLead
  have hro := rows_ok io e h
  have hnum := numeric_md io e.obs e.rows ms h.rows_len hml h.obs_ok hro hmt hex
  have hloop := dataLoop_md io e.obs e.rows ms 0 h.rows_len hml h.obs_ok hro hmt
  rw [hl1]
  cases ho : e.obs with
  | nil => exact absurd ho h.obs_ne
  | cons o os =>
    cases hr : e.rows with
    | nil => have := h.rows_len; rw [ho, hr] at this; simp at this
    | cons r rs =>
      cases hm : ms with
      | nil => rw [ho, hm] at hml; simp at hml
      | cons m ms' =>
        rw [ho, hr, hm] at hnum hloop
        have hmm : '\t' ∉ m := hmt m (by rw [hm]; exact List.mem_cons_self ..)
        obtain ⟨p, q, _, _⟩ := data_line_md io o m r (h.obs_ok o (by rw [ho]; exact List.mem_cons_self ..))
          (hro r (by rw [hr]; exact List.mem_cons_self ..)).1 (hro r (by rw [hr]; exact List.mem_cons_self ..)).2 hmm
        have hf := findHeader_classic (e.colName ++ '\t' :: join '\t' (e.samp ++ [hv]))
          (baseLine io o r ++ '\t' :: m)
          (List.zipWith (fun (or : Text × List α) m => baseLine io or.1 or.2 ++ '\t' :: m) (os.zip rs) ms')
          (e.samp ++ [hv]) (by simp) a b c d p q
        simp only [dataLines, List.zip_cons_cons, List.zipWith_cons_cons] at hnum hloop ⊢
        simp only [extractData, hf, List.drop_succ_cons, List.drop_zero, hnum, Bool.false_or, hloop]
        simp

/-- the table with the IDs and grid of `e` and the given metadata -/
def reimported (e : Export α μ) (omd : Option (List (Text × ν))) : Imported α ν :=
  { obs := e.obs, samp := e.samp, rows := e.rows, omd := omd }

def attachMd (proc : Text → ν) : Option (List Text) → Option Text → Option (List (Text × ν))
  | some ms, some nm => some (ms.map (fun s => (nm, proc s)))
  | _, _ => none

/-- from the extracted pieces to the table: entries inside the announced shape, IDs distinct, and
the matrix built from the entries is the grid -/
theorem fromTsv_of_extract (io : NumIO α) (proc : Text → ν) (lines : List Text) (e : Export α μ)
    (h : TableOk io e) (md : Option (List Text)) (mdName : Option Text)
    (hx : extractData io lines =
      .ok { samp := e.samp, obs := e.obs, triples := allTriples 0 e.rows, md := md, mdName := mdName }) :
    fromTsv io proc lines = .ok (reimported e (attachMd proc md mdName)) := by
  have hany : (allTriples 0 e.rows).any
      (fun t => decide (e.obs.length ≤ t.1) || decide (e.samp.length ≤ t.2.1)) = false := by
    rw [List.any_eq_false]
    intro t ht
    have := allTriples_mem 0 e.samp.length e.rows h.row_len t ht
    have hl := h.rows_len
    simp only [Bool.or_eq_true, decide_eq_true_eq, not_or, Nat.not_le]
    omega
  simp only [fromTsv, hx, hany, Bool.false_eq_true, if_false, h.obs_nodup, h.samp_nodup, decide_true,
    Bool.and_self, Bool.not_true, Bool.and_false,
    gridOf_allTriples e.obs.length e.samp.length e.rows h.rows_len h.row_len, reimported]
  cases md <;> cases mdName <;> rfl

end main

/-! ### from the decidable guard to the hypotheses -/

theorem noLead_of_B (s : Text) (h : noLeadB s = true) : NoLead s := by
  intro c t e
  subst e
  simpa [noLeadB] using h

theorem noTrail_of_B (s : Text) (h : noTrailB s = true) : NoTrail s := by
  intro c hc
  simpa [noTrailB, hc] using h

theorem fieldOk_of_B (s : Text) (h : fieldOkB s = true) : FieldOk s := by
  simp only [fieldOkB, Bool.and_eq_true, Bool.not_eq_true', List.isEmpty_eq_false_iff,
    List.contains_eq_mem, decide_eq_false_iff_not] at h
  exact ⟨h.1.1.1, h.1.1.2, noLead_of_B s h.1.2, noTrail_of_B s h.2⟩

theorem idOk_of_B (s : Text) (h : idOkB s = true) : IdOk s := by
  simp only [idOkB, Bool.and_eq_true, Bool.not_eq_true'] at h
  exact ⟨fieldOk_of_B s h.1, h.2⟩

theorem numOk_of_B [DecidableEq α] (io : NumIO α) (v : α) (h : numOkB io v = true) : NumOk io v := by
  simp only [numOkB, Bool.and_eq_true, decide_eq_true_eq, Bool.not_eq_true', List.contains_eq_mem,
    decide_eq_false_iff_not] at h
  exact ⟨h.1.1.1, h.1.1.2, noLead_of_B _ h.1.2, noTrail_of_B _ h.2⟩

theorem tableOk_of_B [DecidableEq α] (io : NumIO α) (e : Export α μ) (h : tableOkB io e = true) :
    TableOk io e := by
  simp only [tableOkB, Bool.and_eq_true, Bool.not_eq_true', List.isEmpty_eq_false_iff, List.all_eq_true,
    decide_eq_true_eq, beq_iff_eq, List.contains_eq_mem, decide_eq_false_iff_not] at h
  obtain ⟨⟨⟨⟨⟨⟨⟨⟨⟨⟨⟨h1, h2⟩, h3⟩, h4⟩, h5⟩, h6⟩, h7⟩, h8⟩, h9⟩, h10⟩, h11⟩, h12⟩ := h
  exact { obs_ne := h1, samp_ne := h2, obs_ok := fun o ho => idOk_of_B o (h3 o ho),
          samp_ok := fun s hs => fieldOk_of_B s (h4 s hs), obs_nodup := h5, samp_nodup := h6,
          rows_len := h7, row_len := h8, num_ok := fun r hr v hv => numOk_of_B io v (h9 r hr v hv),
          col_ne := h10, col_noTab := h11, col_noLead := noLead_of_B _ h12 }

/-! ### the round trip -/

section roundtrip
variable [Zero α] [DecidableEq α] [DecidableEq μ]

/-- what re-importing must give: IDs and grid of `e`, and the exported category under the header value -/
def expected (e : Export α μ) : Imported α μ :=
  reimported e (if exported e then e.md.map (·.map (fun x => (e.headerValue.getD [], x))) else none)

/-- Core statement: under the guard, the importer applied to the exported lines — each possibly
followed by its own blank line end — returns the IDs of both axes in order, the grid, and the category. -/
theorem import_export (io : NumIO α) (fmtMd : μ → Text) (proc : Text → μ) (e : Export α μ)
    (hg : guardB io fmtMd proc e = true) :
    ∃ lines, toTsv io fmtMd e = .ok lines ∧
      ∀ lines', EolRel lines lines' → fromTsv io proc lines' = .ok (expected e) := by
  simp only [guardB, Bool.and_eq_true] at hg
  have h := tableOk_of_B io e hg.1
  have hmd := hg.2
  have hoe : e.obs.isEmpty = false := by simpa using h.obs_ne
  have hse : e.samp.isEmpty = false := by simpa using h.samp_ne
  unfold mdOkB at hmd
  split at hmd
  · -- no category requested
    next hk hv =>
    refine ⟨line0 :: headerLine e :: dataLines io e.obs e.rows none, ?_, ?_⟩
    · simp [toTsv, hoe, hse, hk, hv, mdTexts, truthy]
    · intro lines' hr
      rw [fromTsv_eol io proc hr]
      have hx := extract_plain io e h (by rw [hv]; rfl)
      rw [fromTsv_of_extract io proc _ e h none none hx]
      simp [expected, exported, hk, truthy, attachMd]
  · -- a category is exported
    next hk hv hke hve =>
    simp only [Bool.and_eq_true, Bool.not_eq_true', List.isEmpty_eq_false_iff] at hmd
    obtain ⟨⟨hkne, hvok⟩, hrest⟩ := hmd
    have hvok := fieldOk_of_B hv hvok
    cases hm : e.md with
    | none => rw [hm] at hrest; exact absurd hrest (by simp)
    | some ms =>
      rw [hm] at hrest
      simp only [Bool.and_eq_true, beq_iff_eq, List.all_eq_true, Bool.not_eq_true', List.contains_eq_mem,
        decide_eq_false_iff_not, List.any_eq_true, Option.isNone_iff_eq_none, decide_eq_true_eq] at hrest
      obtain ⟨⟨⟨hml, hmt⟩, hex⟩, hinv⟩ := hrest
      have htk : truthy e.headerKey = true := by
        rw [hke]; cases hk with
        | nil => exact absurd rfl hkne
        | cons c t => rfl
      have htv : truthy e.headerValue = true := by
        rw [hve]; cases hv with
        | nil => exact absurd rfl hvok.ne
        | cons c t => rfl
      have htk' := htk
      have htv' := htv
      rw [hke] at htk'
      rw [hve] at htv'
      refine ⟨line0 :: headerLine e :: dataLines io e.obs e.rows (some (ms.map fmtMd)), ?_, ?_⟩
      · simp [toTsv, hoe, hse, hke, hve, mdTexts, htk', hm]
      · intro lines' hr
        rw [fromTsv_eol io proc hr]
        have hx := extract_md io e h hv (ms.map fmtMd) hve hvok (by simpa using hml)
          (by intro m hm'; obtain ⟨x, hx, rfl⟩ := List.mem_map.mp hm'; exact hmt x hx)
          (by obtain ⟨x, hx, hxn⟩ := hex; exact ⟨fmtMd x, List.mem_map_of_mem hx, hxn⟩)
        rw [fromTsv_of_extract io proc _ e h _ _ hx]
        simp only [expected, exported, htk', htv', hm, attachMd, hve, hke, Bool.and_self, Option.isSome_some,
          if_true, Option.map_some, Option.getD_some, List.map_map]
        congr 2
        apply congrArg some
        apply List.map_congr_left
        intro x hx
        simp [hinv x hx]
  · exact absurd hmd (by simp)

/-- the same for the model's own composition with one line end for every line -/
theorem roundTrip_eq (io : NumIO α) (fmtMd : μ → Text) (proc : Text → μ) (eol : Text) (e : Export α μ)
    (hg : guardB io fmtMd proc e = true) (he : eolOkB eol = true) :
    roundTrip io fmtMd proc eol e = .ok (expected e) := by
  obtain ⟨lines, h1, h2⟩ := import_export io fmtMd proc e hg
  have heol : EolOk eol := by
    simp only [eolOkB, Bool.and_eq_true, List.all_eq_true, Bool.not_eq_true', List.contains_eq_mem,
      decide_eq_false_iff_not] at he
    exact ⟨he.1, he.2⟩
  simp only [roundTrip, h1]
  exact h2 _ (EolRel.map_append eol heol lines)

omit [Zero α] in
theorem holds_expected (e : Export α μ) (hr : e.rows.length = e.obs.length)
    (hc : ∀ r ∈ e.rows, r.length = e.samp.length) : holds e (.ok (expected e)) = true := by
  have h1 : (e.rows.length == e.obs.length) = true := by simpa using hr
  have h2 : e.rows.all (fun r => r.length == e.samp.length) = true := by
    simpa [List.all_eq_true] using hc
  by_cases hx : exported e = true <;>
    simp [holds, holdsV, expected, reimported, Codec.allV, Codec.chk, Codec.Verdict.and, h1, h2, hx]

/-- **model_holds**: for every table, formatter, processing function, number printer/parser and
line end that meet the guard, the declarative predicate is true of what the model re-imports. -/
theorem model_holds (io : NumIO α) (fmtMd : μ → Text) (proc : Text → μ) (eol : Text) (e : Export α μ)
    (hg : guardB io fmtMd proc e = true) (he : eolOkB eol = true) :
    holds e (roundTrip io fmtMd proc eol e) = true := by
  rw [roundTrip_eq io fmtMd proc eol e hg he]
  have h := tableOk_of_B io e (by simp only [guardB, Bool.and_eq_true] at hg; exact hg.1)
  exact holds_expected e h.rows_len h.row_len

/-- "yields the same observation and sample IDs in order and exactly the same matrix values" —
every shape with at least one observation and one sample, hence also a single sample or a single
observation; no category requested, or any category meeting the guard. -/
theorem tsv_roundtrip (io : NumIO α) (fmtMd : μ → Text) (proc : Text → μ) (eol : Text) (e : Export α μ)
    (hg : guardB io fmtMd proc e = true) (he : eolOkB eol = true) :
    ∃ t, roundTrip io fmtMd proc eol e = .ok t ∧ t.obs = e.obs ∧ t.samp = e.samp ∧ t.rows = e.rows :=
  ⟨expected e, roundTrip_eq io fmtMd proc eol e hg he, rfl, rfl, rfl⟩

/-- "that category is preserved as well": the re-imported table carries, for every observation in
order, the header value as category name and the original value. -/
theorem tsv_md_roundtrip (io : NumIO α) (fmtMd : μ → Text) (proc : Text → μ) (eol : Text) (e : Export α μ)
    (hg : guardB io fmtMd proc e = true) (he : eolOkB eol = true)
    (hk hv : Text) (ms : List μ) (h1 : e.headerKey = some hk) (h2 : e.headerValue = some hv)
    (h3 : e.md = some ms) :
    ∃ t, roundTrip io fmtMd proc eol e = .ok t ∧ t.omd = some (ms.map (fun x => (hv, x))) := by
  refine ⟨expected e, roundTrip_eq io fmtMd proc eol e hg he, ?_⟩
  have hg' := hg
  simp only [guardB, Bool.and_eq_true, mdOkB, h1, h2, h3, Bool.not_eq_true', List.isEmpty_eq_false_iff] at hg'
  have hkne : hk ≠ [] := hg'.2.1.1
  have hvne : hv ≠ [] := (fieldOk_of_B hv hg'.2.1.2).ne
  have htk : truthy (some hk) = true := by
    cases hk with
    | nil => exact absurd rfl hkne
    | cons c t => rfl
  have htv : truthy (some hv) = true := by
    cases hv with
    | nil => exact absurd rfl hvne
    | cons c t => rfl
  simp [expected, reimported, exported, h1, h2, h3, htk, htv]

/-- text supplied as a file handle: every line but possibly the last ends with "\n" (or any other
blank line end); the result is the same as for the list of lines. -/
theorem tsv_roundtrip_any_line_ends (io : NumIO α) (fmtMd : μ → Text) (proc : Text → μ) (e : Export α μ)
    (hg : guardB io fmtMd proc e = true) :
    ∃ lines, toTsv io fmtMd e = .ok lines ∧
      ∀ lines', EolRel lines lines' → holds e (fromTsv io proc lines') = true := by
  obtain ⟨lines, h1, h2⟩ := import_export io fmtMd proc e hg
  refine ⟨lines, h1, fun lines' hr => ?_⟩
  rw [h2 lines' hr]
  have h := tableOk_of_B io e (by simp only [guardB, Bool.and_eq_true] at hg; exact hg.1)
  exact holds_expected e h.rows_len h.row_len

end roundtrip

/-! ### `biom convert`: load without a processing function, process afterwards -/

section cli
variable [Zero α] [DecidableEq α]

/-- applying the processing function while importing = importing raw and processing afterwards -/
theorem fromTsv_proc (io : NumIO α) (proc : Text → ν) (lines : List Text) :
    fromTsv io proc lines =
      match fromTsv io (fun s => s) lines with
      | .error e => .error e
      | .ok t => .ok { obs := t.obs, samp := t.samp, rows := t.rows,
                       omd := t.omd.map (·.map (fun p => (p.1, proc p.2))) } := by
  simp only [fromTsv]
  cases extractData io lines with
  | error e => rfl
  | ok x =>
    simp only
    split
    · rfl
    · split
      · rfl
      · cases x.md <;> cases x.mdName <;> simp [List.map_map, Function.comp_def]

/-- `biom convert` of the exported text (plain or gzip, any blank line ends) with
`--process-obs-metadata` given exactly when a category was exported: same IDs, grid and category. -/
theorem cli_roundtrip [DecidableEq μ] (io : NumIO α) (fmtMd : μ → Text) (ident proc : Text → μ)
    (e : Export α μ) (hg : guardB io fmtMd proc e = true) :
    ∃ lines, toTsv io fmtMd e = .ok lines ∧
      ∀ lines', EolRel lines lines' → cliImport io ident proc (exported e) lines' = .ok (expected e) := by
  obtain ⟨lines, h1, h2⟩ := import_export io fmtMd proc e hg
  refine ⟨lines, h1, fun lines' hr => ?_⟩
  have h3 := h2 lines' hr
  rw [fromTsv_proc] at h3
  simp only [cliImport]
  cases hf : fromTsv io (fun s => s) lines' with
  | error err => rw [hf] at h3; cases h3
  | ok t =>
    rw [hf] at h3
    simp only [Except.ok.injEq] at h3
    by_cases hx : exported e = true
    · have homd : t.omd.isNone = false := by
        have := congrArg Imported.omd h3
        simp only [expected, reimported, hx, if_true] at this
        cases ht : t.omd with
        | none =>
          rw [ht] at this
          simp only [exported, Bool.and_eq_true] at hx
          cases hm : e.md with
          | none => rw [hm] at hx; simp at hx
          | some ms => rw [hm] at this; simp at this
        | some l => rfl
      simp only [hx, if_true, homd, Bool.false_eq_true, if_false]
      exact congrArg _ h3
    · have hx' : exported e = false := by simpa using hx
      have homd : t.omd = none := by
        have := congrArg Imported.omd h3
        simp only [expected, reimported, hx', Bool.false_eq_true, if_false] at this
        cases ht : t.omd with
        | none => rfl
        | some l => rw [ht] at this; simp at this
      simp only [hx', Bool.false_eq_true, if_false]
      rw [← h3, homd]
      rfl

end cli

/-- the text returned by `to_tsv` is the lines joined with '\n'; splitting it at '\n' gives the lines back -/
theorem lines_of_text (lines : List Text) (h : ∀ l ∈ lines, '\n' ∉ l) (hne : lines ≠ []) :
    split '\n' (toText lines) = lines := split_join '\n' lines h hne

/-! ### the formatter / processing pairs of `biom convert` are inverse on the guarded values -/

/-- an element of a hierarchical list: non-empty, no ';', no blank at either end -/
structure ElemOk (x : Text) : Prop where
  ne : x ≠ []
  noSemi : ';' ∉ x
  noLead : NoLead x
  noTrail : NoTrail x

theorem joinS_as_join (pre g : Text) (fs : List Text) :
    pre ++ joinS "; ".toList (g :: fs) = join ';' ((pre ++ g) :: fs.map (' ' :: ·)) := by
  induction fs generalizing pre g with
  | nil => simp [joinS, join]
  | cons f fs ih =>
    have this' : ' ' :: joinS "; ".toList (f :: fs) = join ';' ((' ' :: f) :: fs.map (' ' :: ·)) := by
      simpa using ih [' '] f
    have hs : "; ".toList = [';', ' '] := by decide
    simp only [joinS, List.map_cons, join]
    rw [← this', hs]
    simp

theorem strip_space_cons (x : Text) (h : ElemOk x) : strip (' ' :: x) = x := by
  have h1 : rstrip (' ' :: x) = ' ' :: x := rstrip_of_noTrail _ (noTrail_cons ' ' x h.ne h.noTrail)
  have h2 : ws ' ' = true := by decide
  simp only [strip, h1, lstrip, List.dropWhile, h2]
  exact lstrip_of_noLead x h.noLead

/-- `[e.strip() for e in ('; '.join(xs)).strip().split(';')] = xs` -/
theorem sc_separated_inverse (xs : List Text) (hne : xs ≠ []) (h : ∀ x ∈ xs, ElemOk x) :
    procSc (strip (fmtSc (.list xs))) = .list xs := by
  cases xs with
  | nil => exact absurd rfl hne
  | cons g fs =>
    have hg := h g (List.mem_cons_self ..)
    have hj := joinS_as_join [] g fs
    simp only [List.nil_append] at hj
    -- the joined text has no blank at either end
    have hlead : NoLead (joinS "; ".toList (g :: fs)) := by
      rw [hj]
      cases fs with
      | nil => simpa [join] using hg.noLead
      | cons f fs' =>
        rw [List.map_cons, join_cons_ne_nil ';' g _ (List.cons_ne_nil _ _)]
        exact noLead_append g _ hg.ne hg.noLead
    have htrail : NoTrail (joinS "; ".toList (g :: fs)) := by
      rw [hj]
      cases fs with
      | nil => simpa [join] using hg.noTrail
      | cons f fs' =>
        have hne2 : (f :: fs').map (' ' :: ·) ≠ [] := by simp
        rw [join_cons_ne_nil ';' g _ hne2]
        obtain ⟨p, hp⟩ := join_ends ';' g _ hne2
        rw [hp]
        have hl := List.getLast_mem hne2
        obtain ⟨x, hx, hxe⟩ := List.mem_map.mp hl
        rw [← hxe]
        have hxo := h x (List.mem_cons_of_mem _ hx)
        exact noTrail_append p _ (List.cons_ne_nil _ _)
          (noTrail_cons _ _ (List.cons_ne_nil _ _) (noTrail_cons _ _ hxo.ne hxo.noTrail))
    simp only [procSc, fmtSc, strip_of_clean _ hlead htrail]
    rw [hj, split_join ';' _ ?_ (List.cons_ne_nil _ _)]
    · simp only [List.map_cons, strip_of_clean g hg.noLead hg.noTrail, List.map_map]
      congr 2
      have : ∀ l : List Text, (∀ x ∈ l, ElemOk x) → l.map (strip ∘ (fun x => ' ' :: x)) = l := by
        intro l hl
        induction l with
        | nil => rfl
        | cons a l ih =>
          simp only [List.map_cons, Function.comp_apply, strip_space_cons a (hl a (List.mem_cons_self ..)),
            ih (fun x hx => hl x (List.mem_cons_of_mem _ hx))]
      exact this fs (fun x hx => h x (List.mem_cons_of_mem _ hx))
    · intro f hf
      rcases List.mem_cons.mp hf with e | hf
      · exact e ▸ hg.noSemi
      · obtain ⟨x, hx, rfl⟩ := List.mem_map.mp hf
        have hxo := h x (List.mem_cons_of_mem _ hx)
        intro hm
        rcases List.mem_cons.mp hm with e | hm
        · exact absurd e (by decide)
        · exact hxo.noSemi hm

theorem naive_inverse (s : Text) (h1 : NoLead s) (h2 : NoTrail s) :
    procNaive (strip (fmtNaive (.text s))) = .text s := by
  simp [procNaive, fmtNaive, strip_of_clean s h1 h2]

/-! ### closed instances: the guard is necessary, and it is satisfiable -/

/-- a three-value instance of the external number functions, for closed examples -/
def toyIO : NumIO Nat where
  fmt v := if v = 0 then "0.0".toList else if v = 1 then "1.0".toList else "2.5e-07".toList
  parse s := if s = "0.0".toList then some 0 else if s = "1.0".toList then some 1
             else if s = "2.5e-07".toList then some 2 else none

def witnessTable : Export Nat Text :=
  { obs := ["O1".toList], samp := ["S1".toList], rows := [[2]], md := some ["1.0".toList],
    headerKey := some "taxonomy".toList, headerValue := some "taxonomy".toList }

/-- A metadata column whose every text parses as a number IS misread: the table meets every other
hypothesis (IDs, shape, float text, tab-free metadata, inverse processing function), yet the
re-imported table has a second sample called "taxonomy" holding the metadata as a value and no
metadata — so the guard "the formatted text is not parseable as a number" cannot be dropped. -/
theorem numeric_md_witness :
    tableOkB toyIO witnessTable = true ∧
    mdOkB toyIO id id witnessTable = false ∧
    (roundTrip toyIO id id [] witnessTable).toOption =
      some { obs := ["O1".toList], samp := ["S1".toList, "taxonomy".toList], rows := [[2, 1]], omd := none } ∧
    holds witnessTable (roundTrip toyIO id id [] witnessTable) = false := by
  decide

/-- the same table with one text that is not a number comes back intact -/
example :
    let e : Export Nat Text := { witnessTable with md := some ["k__A; p__b".toList] }
    guardB toyIO id id e = true ∧
    (roundTrip toyIO id id ['\n'] e).toOption =
      some { obs := ["O1".toList], samp := ["S1".toList], rows := [[2]],
             omd := some [("taxonomy".toList, "k__A; p__b".toList)] } := by
  decide

/-- non-vacuity: a 2 x 3 table with inner blanks, a '#' inside an ID and numeric-looking IDs meets the guard -/
example :
    guardB toyIO (fun (x : Text) => x) (fun s => s)
      { obs := ["O 1".toList, "10".toList], samp := ["a#b".toList, "2.5".toList, "é".toList],
        rows := [[0, 1, 2], [2, 0, 0]] } = true := by
  decide

/-- non-vacuity: a single observation, a single sample, an all-zero grid -/
example :
    guardB toyIO (fun (x : Text) => x) (fun s => s)
      { obs := ["O1".toList], samp := ["S1".toList], rows := [[0]] } = true ∧
    guardB toyIO (fun (x : Text) => x) (fun s => s)
      { obs := ["O1".toList, "O2".toList, "O3".toList], samp := ["S1".toList], rows := [[0], [1], [0]] } = true ∧
    guardB toyIO (fun (x : Text) => x) (fun s => s)
      { obs := ["O1".toList], samp := ["S1".toList, "S2".toList], rows := [[0, 0]] } = true := by
  decide

/-- non-vacuity of the hierarchical pair: a two-level lineage through `sc_separated` and back -/
example :
    guardB toyIO fmtSc procSc
      { obs := ["O1".toList, "O2".toList], samp := ["S1".toList], rows := [[1], [2]],
        md := some [.list ["k__A".toList, "p__b c".toList], .list ["12".toList]],
        headerKey := some "taxonomy".toList, headerValue := some "Consensus Lineage".toList } = true := by
  decide

end Biom.C03
