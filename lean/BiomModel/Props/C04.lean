/-
  C04 — property theorems.  For EVERY table (any numbers of observations and samples incl. 0 x M and
  N x 0, any grid, any IDs, metadata of the per-category-homogeneous domain), every header, every
  utf-8 codec satisfying the round-trip contract, and EVERY pair of matrix layouts satisfying the
  scipy contract `Views` (any index order inside a vector): the tree `to_hdf5` writes satisfies
  `C04.holds`, i.e. has the structure biom-2.1.rst requires, and the spec-only reader recovers the
  table's IDs and grid from both views.
-/
import BiomModel.Lemmas.C04

namespace Biom.C04
open Biom Biom.Hdf5

set_option linter.unusedSectionVars false

variable {α δ : Type} [Zero α] [DecidableEq α]

/-- `to_hdf5` succeeds on the domain and writes exactly the tree `written`. -/
theorem toH5_written (c : Utf8) (dc : DateC δ) (t : Src α) (genBy : String) (date : Option δ) (now : δ)
    (csr csc : CS α) (hw : SrcWF t) (hv : Views t csr csc) (hmo : mdDomain t.omd = true)
    (hms : mdDomain t.smd = true) :
    toH5 c dc t genBy date now csr csc = .ok (written c dc t genBy date now csr csc) := by
  have hsc := views_sameCount t csr csc hw hv
  unfold toH5
  simp only [axGrp_ok c t.obs t.omd t.ogmd t.ogmdBare _ csr hmo rfl hv.csrWF.sameLen,
    axGrp_ok c t.samp t.smd t.sgmd t.sgmdBare _ csc hms hsc (hv.cscWF.sameLen.trans hsc),
    bind, Except.bind, pure, Except.pure]
  rfl

/-- `nnz` attribute = stored entries of the row view = number of non-zero cells of the table -/
theorem nnz_true (t : Src α) (csr csc : CS α) (hv : Views t csr csc) :
    csr.data.length = nnzGrid t.rows := by
  rw [stored_eq_nnz hv.csrWF hv.csrNZ, hv.csrDense]

/-- required attributes with their kinds; `shape` = true dimensions, `nnz` = true non-zero count -/
theorem written_attrs (c : Utf8) (dc : DateC δ) (t : Src α) (genBy : String) (date : Option δ) (now : δ)
    (csr csc : CS α) (hv : Views t csr csc) :
    attrsOK t (written c dc t genBy date now csr csc) = true := by
  simp [attrsOK, isStrAttr, written, attrTree, List.lookup, hv.csrMajor, hv.csrMinor, nnz_true t csr csc hv]

/-- header values: generated-by = the argument, creation-date = the supplied date, id / type with
their placeholders -/
theorem written_headerOK (c : Utf8) (dc : DateC δ) (t : Src α) (genBy : String) (date : Option δ) (now : δ)
    (csr csc : CS α) :
    headerOK t genBy (date.map dc.iso) (written c dc t genBy date now csr csc) = true := by
  cases date <;> simp [headerOK, written, attrTree, List.lookup]

theorem written_groups (c : Utf8) (dc : DateC δ) (t : Src α) (genBy : String) (date : Option δ) (now : δ)
    (csr csc : CS α) :
    (axGroupsOK (written c dc t genBy date now csr csc).obs &&
     axGroupsOK (written c dc t genBy date now csr csc).samp) = true := by
  simp [axGroupsOK, written, axTree]

/-- `ids`: a variable-length string dataset (also for an empty axis), one entry per ID, axis order -/
theorem written_ids (c : Utf8) (hc : c.RT) (ids : List Id) (md : Option (List (MdE α)))
    (gmd : List (String × String × String)) (cs : CS α) :
    idsOK c ids (some (axTree c ids md gmd cs)) = true := by
  simp only [idsOK, axTree, specIds_strDs c hc ids]
  exact okEq_ok ids

theorem readView_own (cs : CS α) (major minor : Nat) (hM : cs.nMajor = major) (hm : cs.nMinor = minor) :
    readView major minor (some (matTree cs)) = .ok cs := by
  subst hM hm
  exact readView_matTree cs.nMajor cs.nMinor cs

/-- one well-formed matrix group: offsets of length major+1 starting at 0, monotone, ending at
`nnz = |data| = |indices|`, indices in range, no duplicate index in a vector, no stored zero -/
theorem written_view (c : Utf8) (ids : List Id) (md : Option (List (MdE α)))
    (gmd : List (String × String × String)) (cs : CS α) (major minor z : Nat)
    (hwf : cs.WF) (hnz : cs.NoStoredZeros) (hM : cs.nMajor = major) (hm : cs.nMinor = minor)
    (hz : cs.data.length = z) :
    viewOK major minor z (some (axTree c ids md gmd cs)) = true := by
  unfold viewOK
  simp only [axTree, readView_own cs major minor hM hm]
  simp only [wfb_of_WF hwf, hz, hwf.sameLen, beq_self_eq_true, Bool.and_self, Bool.true_and, List.all_eq_true,
    decide_eq_true_eq]
  exact hnz

/-- The spec-only reader recovers IDs and grid, from the row view and from the column view. -/
theorem specDecode_written (c : Utf8) (hc : c.RT) (dc : DateC δ) (t : Src α) (genBy : String)
    (date : Option δ) (now : δ) (csr csc : CS α) (hw : SrcWF t) (hv : Views t csr csc) :
    specDecode c (written c dc t genBy date now csr csc) =
      .ok { obs := t.obs, samp := t.samp, byObs := t.rows, bySamp := t.rows } := by
  have hshape : attrShape (written c dc t genBy date now csr csc) = .ok (t.obs.length, t.samp.length) := by
    simp [attrShape, written, attrTree, List.lookup, hv.csrMajor, hv.csrMinor]
  have hnnz : attrNat (written c dc t genBy date now csr csc) "nnz" = .ok csr.data.length := by
    simp [attrNat, written, attrTree, List.lookup]
  have hvo : specView t.obs.length t.samp.length csr.data.length (some (matTree csr)) = .ok t.rows := by
    unfold specView
    rw [readView_own csr _ _ hv.csrMajor hv.csrMinor]
    simp only [bind, Except.bind, wfb_of_WF hv.csrWF, beq_self_eq_true, Bool.and_self, if_true, hv.csrDense]
  have hvs : specView t.samp.length t.obs.length csr.data.length (some (matTree csc)) =
      .ok (transposeGrid t.samp.length t.rows) := by
    unfold specView
    rw [readView_own csc _ _ hv.cscMajor hv.cscMinor]
    simp only [bind, Except.bind, wfb_of_WF hv.cscWF, views_sameCount t csr csc hw hv, beq_self_eq_true, Bool.and_self,
      if_true, hv.cscDense]
  unfold specDecode
  simp only [hshape, hnnz, bind, Except.bind]
  simp only [written, reqE, axTree, specIds_strDs c hc, and_self, if_true, hvo, hvs,
    pure, Except.pure, transpose_transpose t.rows _ _ hw.rowsLen hw.rowLen]

theorem written_decode (c : Utf8) (hc : c.RT) (dc : DateC δ) (t : Src α) (genBy : String)
    (date : Option δ) (now : δ) (csr csc : CS α) (hw : SrcWF t) (hv : Views t csr csc) :
    decodeOK c t (written c dc t genBy date now csr csc) = true := by
  simp [decodeOK, specDecode_written c hc dc t genBy date now csr csc hw hv]

/-- The property on the model: everything `C04.holds` demands is true of the written tree. -/
theorem toH5_specWF (c : Utf8) (hc : c.RT) (dc : DateC δ) (t : Src α) (genBy : String) (date : Option δ)
    (now : δ) (csr csc : CS α) (hw : SrcWF t) (hv : Views t csr csc)
    (hmo : mdDomain t.omd = true) (hms : mdDomain t.smd = true) :
    ∃ h, toH5 c dc t genBy date now csr csc = .ok h ∧ holds c t genBy (date.map dc.iso) h = true := by
  refine ⟨_, toH5_written c dc t genBy date now csr csc hw hv hmo hms, ?_⟩
  have hz := nnz_true t csr csc hv
  simp only [holds, clauses, List.all_cons, List.all_nil, Bool.and_true, Bool.and_eq_true]
  refine ⟨written_attrs c dc t genBy date now csr csc hv, written_headerOK c dc t genBy date now csr csc,
    by simpa using written_groups c dc t genBy date now csr csc,
    written_ids c hc _ _ _ _, written_ids c hc _ _ _ _,
    mdOK_mdTree c hc t.obs t.omd hw.omdLen hmo _ rfl, mdOK_mdTree c hc t.samp t.smd hw.smdLen hms _ rfl,
    gmdOK_axTree c hc _ _ _ _ hw.ogmdKeys, gmdOK_axTree c hc _ _ _ _ hw.sgmdKeys,
    written_view c _ _ _ csr _ _ _ hv.csrWF hv.csrNZ hv.csrMajor hv.csrMinor hz,
    written_view c _ _ _ csc _ _ _ hv.cscWF hv.cscNZ hv.cscMajor hv.cscMinor ((views_sameCount t csr csc hw hv).trans hz),
    written_decode c hc dc t genBy date now csr csc hw hv⟩

/-- `specDecodeObs = specDecodeSamp = D`, as a statement about `to_hdf5` itself -/
theorem specDecode_toH5 (c : Utf8) (hc : c.RT) (dc : DateC δ) (t : Src α) (genBy : String) (date : Option δ)
    (now : δ) (csr csc : CS α) (hw : SrcWF t) (hv : Views t csr csc)
    (hmo : mdDomain t.omd = true) (hms : mdDomain t.smd = true) :
    (toH5 c dc t genBy date now csr csc).bind (specDecode c) =
      .ok { obs := t.obs, samp := t.samp, byObs := t.rows, bySamp := t.rows } := by
  rw [toH5_written c dc t genBy date now csr csc hw hv hmo hms]
  exact specDecode_written c hc dc t genBy date now csr csc hw hv

/-- `compress` is not an input of the logical tree: whatever its value, the tree is `toH5 …`.
(Stated as: the model function has no such parameter; two calls that differ only in `compress`
are the same call.)  The clock matters only when no date is supplied. -/
theorem toH5_date_supplied (c : Utf8) (dc : DateC δ) (t : Src α) (genBy : String) (d now now' : δ)
    (csr csc : CS α) :
    toH5 c dc t genBy (some d) now csr csc = toH5 c dc t genBy (some d) now' csr csc := rfl

/-- Header fields: `generated-by` and `creation-date` come from the ARGUMENTS of `to_hdf5`; whatever
`generated_by` / `create_date` the table object itself carries does not reach the file. -/
theorem toH5_ignores_own_header (c : Utf8) (dc : DateC δ) (t : Src α) (g d : Option String) (genBy : String)
    (date : Option δ) (now : δ) (csr csc : CS α) :
    toH5 c dc { t with ownGeneratedBy := g, ownCreateDate := d } genBy date now csr csc =
      toH5 c dc t genBy date now csr csc := rfl

theorem written_header (c : Utf8) (dc : DateC δ) (t : Src α) (genBy : String) (date : Option δ) (now : δ)
    (csr csc : CS α) :
    attrStr (written c dc t genBy date now csr csc) "generated-by" = .ok genBy ∧
    attrStr (written c dc t genBy date now csr csc) "creation-date" = .ok (dc.iso (date.getD now)) ∧
    attrStr (written c dc t genBy date now csr csc) "id" = .ok (idAttr t.tableId) ∧
    attrStr (written c dc t genBy date now csr csc) "type" = .ok (typeAttr t.ttype) := by
  simp [attrStr, written, attrTree, List.lookup]

/-! Non-vacuity: a concrete 2 x 3 table with text, numeric and hierarchical metadata, a category
name with '/', unsorted indices in the row view — the hypotheses hold and so does the property. -/

def demoSrc : Src Int :=
  { obs := ["o1", "o 2"], samp := ["s1", "s/2", "s3"], rows := [[1, 0, 2], [0, 0, -4]],
    omd := some [[("taxonomy", .list ["k__A", "p__x"]), ("na/me", .text "é")],
                 [("na/me", .text "v"), ("taxonomy", .list ["k__B"])]],
    smd := some [[("depth", .int 3)], [("depth", .int (-1))], [("depth", .int 0)]],
    ttype := some "OTU table", ogmd := [("tree", "newick", "(a,b);")], sgmdBare := [("rel", "ab")] }
def demoCsr : CS Int := { nMajor := 2, nMinor := 3, indptr := [0, 2, 3], indices := [2, 0, 2], data := [2, 1, -4] }
def demoCsc : CS Int := { nMajor := 3, nMinor := 2, indptr := [0, 1, 1, 3], indices := [0, 0, 1], data := [1, 2, -4] }

example : SrcWF demoSrc := ⟨by decide, by decide, by decide, by decide, by decide, by decide⟩
example : mdDomain demoSrc.omd = true := by decide
example : mdDomain demoSrc.smd = true := by decide
example : demoCsr.wfb = true ∧ demoCsc.wfb = true := by decide
example : demoCsr.toDense = demoSrc.rows ∧ demoCsc.toDense = transposeGrid 3 demoSrc.rows := by decide
example : holds Utf8.ident demoSrc "g" (some "2020-01-02T03:04:05")
    (written Utf8.ident DateC.ident demoSrc "g" (some "2020-01-02T03:04:05") "" demoCsr demoCsc) = true := by
  decide
/-- and the predicate is not trivially true: the row view's indices in the sample group are refused -/
example : holds Utf8.ident demoSrc "g" none
    { written Utf8.ident DateC.ident demoSrc "g" (some "d") "" demoCsr demoCsc with
      samp := some (axTree Utf8.ident demoSrc.samp demoSrc.smd [] { demoCsc with indices := [2, 0, 2] }) } = false := by
  decide

/-- and a file that keeps the table's own generated-by instead of the argument is refused -/
example : holds Utf8.ident demoSrc "argument" none
    (written Utf8.ident DateC.ident demoSrc "what the table carried" (some "d") "" demoCsr demoCsc) = false := by
  decide

end Biom.C04
