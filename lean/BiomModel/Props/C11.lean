/-
  C11 — property theorems.  Everything is for EVERY table with distinct IDs (any size, any values,
  any metadata), EVERY labelling (the labeller's results per ID are universally quantified), both
  axes, every flag combination — no bound anywhere.
-/
import BiomModel.Lemmas.C11

namespace Biom.C11

/-- C11's domain (the C01 domain): at least one observation and one sample.  The model is tied to
the code only there: for a table whose OTHER axis is empty the real one-to-one collapse returns a
0 x 0 matrix next to the collapsed IDs (observed on `Table(zeros((3,0)), ['x','y','z'], [])`), which
the model does not exhibit; such tables are outside the property's quantifier. -/
def Domain (t : Table Rat) : Prop := t.obs ≠ [] ∧ t.samp ≠ []

/-- what the property's quantifier demands of an operation's arguments -/
def OpOk (t : Table Rat) (ax : Axis) : Op → Prop
  | .partition _ _ _ => True
  | .collapse f _ _ _ =>
    Domain t ∧ ∀ ls, f.labels (t.ids ax) = .ok ls → InjLabels ls ∧ (t.ids ax).length ≤ ls.length
  | .otm evss _ _ _ _ => evss.length = (t.ids ax).length

theorem partitionO_wf (t : Table Rat) (ht : TableOk t) (ls : List Label) (re ign : Bool)
    (p : Label × Table Rat) (hp : p ∈ partitionO t ls re ign) : p.2.WF := by
  rw [mem_partitionO t ls re ign p hp]
  cases re
  · exact castMd_wf _ (sel_wf t ht.wf _)
  · exact castMd_wf _ (removeEmpty_wf _ (sel_wf t ht.wf _))

theorem partition_model_holds (t : Table Rat) (ax : Axis) (ht : TableOk t) (f : Labeler) (re ign : Bool) :
    holds t ax (.partition f re ign) (model t ax (.partition f re ign)) = true := by
  unfold holds model partition
  cases hl : f.labels (t.ids ax) with
  | error e => simp [clauses, hl, Clauses.ok, bind, Except.bind]
  | ok ls =>
    simp only [bind, Except.bind, pure, Except.pure, clauses, hl]
    have hto := orient_ok ax t ht
    rw [Clauses.ok_append, Bool.and_eq_true]
    constructor
    · simp only [Clauses.ok, List.all_cons, List.all_nil, Bool.and_true, List.all_map, List.all_eq_true]
      intro p hp
      exact (wfb_iff _).mpr (orient_wf ax _ (partitionO_wf _ hto ls re ign p hp))
    · have hback : ((partitionO (orient ax t) ls re ign).map (fun p => (p.1, orient ax p.2))).map
          (fun p => (p.1, orient ax p.2)) = partitionO (orient ax t) ls re ign := by
        rw [List.map_map]
        conv => rhs; rw [← List.map_id (partitionO (orient ax t) ls re ign)]
        apply List.map_congr_left
        intro p hp
        simp only [Function.comp, id]
        rw [orient_orient ax p.2 (partitionO_wf _ hto ls re ign p hp)]
      rw [hback]
      exact holdsPartitionO_model (orient ax t) hto ls re ign

theorem collapse_model_holds (t : Table Rat) (ax : Axis) (ht : TableOk t) (f : Labeler) (norm : Bool)
    (ms : Nat) (icm : Bool) (hop : OpOk t ax (.collapse f norm ms icm)) :
    holds t ax (.collapse f norm ms icm) (model t ax (.collapse f norm ms icm)) = true := by
  unfold holds model collapse
  cases hl : f.labels (t.ids ax) with
  | error e => simp [clauses, hl, Clauses.ok, bind, Except.bind]
  | ok ls =>
    simp only [bind, Except.bind, pure, Except.pure, clauses, hl]
    have hto := orient_ok ax t ht
    obtain ⟨hinj, hlen⟩ := hop.2 ls hl
    have hwf := collapseO_wf (orient ax t) hto ls norm ms icm
    rw [Clauses.ok_append, Bool.and_eq_true]
    constructor
    · simp only [Clauses.ok, List.all_cons, List.all_nil, Bool.and_true, shapeOk, Bool.and_eq_true,
        decide_eq_true_eq]
      exact ⟨(wfb_iff _).mpr (orient_wf ax _ hwf), trivial⟩
    · rw [orient_orient ax _ hwf]
      exact holdsCollapseO_model (orient ax t) hto ls hinj (by rw [orient_obs]; exact hlen) norm ms icm

theorem otmO_wf (t : Table Rat) (ht : TableOk t) (evss : List Events) (hl : evss.length = t.obs.length)
    (divide strict icm : Bool) (key : String) (r : Table Rat)
    (h : otmO t evss divide strict icm key = .ok r) : r.WF := by
  cases hmd : t.omd.isNone with
  | true => simp [otmO, hmd] at h
  | false =>
    cases hst : (strict && evss.any (fun evs => evs.any Option.isNone)) with
    | true => simp [otmO, hmd, hst] at h
    | false =>
      rw [otmO_eq t ht.obsNodup evss hl divide strict icm key hmd hst] at h
      cases h
      exact otmTable_wf t ht evss divide icm key

theorem otm_model_holds (t : Table Rat) (ax : Axis) (ht : TableOk t) (evss : List Events)
    (divide strict icm : Bool) (key : String) (hop : OpOk t ax (.otm evss divide strict icm key)) :
    holds t ax (.otm evss divide strict icm key) (model t ax (.otm evss divide strict icm key)) = true := by
  have hto := orient_ok ax t ht
  have hl : evss.length = (orient ax t).obs.length := by rw [orient_obs]; exact hop
  have hmain := holdsOtmO_model (orient ax t) hto evss hl divide strict icm key
  unfold holds model otm
  cases hr : otmO (orient ax t) evss divide strict icm key with
  | error e =>
    simp only [hr, bind, Except.bind, clauses]
    rw [hr] at hmain
    exact hmain
  | ok r =>
    have hwf := otmO_wf (orient ax t) hto evss hl divide strict icm key r hr
    simp only [hr, bind, Except.bind, pure, Except.pure, clauses]
    rw [Clauses.ok_append, Bool.and_eq_true]
    constructor
    · simp only [Clauses.ok, List.all_cons, List.all_nil, Bool.and_true, shapeOk, Bool.and_eq_true,
        decide_eq_true_eq]
      exact ⟨(wfb_iff _).mpr (orient_wf ax _ hwf), trivial⟩
    · rw [orient_orient ax _ hwf, ← hr]
      exact hmain

/-- The whole property: the declarative predicate is true of what the model computes, for every
table with distinct IDs, either axis, every operation and every labelling. -/
theorem model_holds (t : Table Rat) (ax : Axis) (op : Op) (ht : TableOk t) (hop : OpOk t ax op) :
    holds t ax op (model t ax op) = true := by
  cases op with
  | partition f re ign => exact partition_model_holds t ax ht f re ign
  | collapse f norm ms icm => exact collapse_model_holds t ax ht f norm ms icm hop
  | otm evss divide strict icm key => exact otm_model_holds t ax ht evss divide strict icm key hop

/-! ## The property in its own words

`ks` below is the list of effective labels, one per ID of the axis: `none` for an ID skipped by
`ignore_none`, `some k` otherwise (lists already tupled).  `members ids ks k` = the IDs whose label
is `k`, in the table's order, each looked up by ID. -/

section Partition
variable (t : Table Rat) (ax : Axis) (f : Labeler) (ign : Bool) (ls : List Label)

theorem partition_eq (re : Bool) (hl : f.labels (t.ids ax) = .ok ls) :
    partition t ax f re ign =
      .ok ((partitionO (orient ax t) ls re ign).map (fun p => (p.1, orient ax p.2))) := by
  unfold partition
  rw [hl]
  rfl

theorem mem_partition (re : Bool) (hl : f.labels (t.ids ax) = .ok ls) {ps : List (Label × Table Rat)}
    (h : partition t ax f re ign = .ok ps) {k : Label} {p : Table Rat} (hp : (k, p) ∈ ps) :
    k ∈ firsts ((ls.map (eff ign)).filterMap id) ∧
      p = orient ax (if re then castMd (removeEmpty (sel (orient ax t) (maskOf (ls.map (eff ign)) k)))
                     else castMd (sel (orient ax t) (maskOf (ls.map (eff ign)) k))) := by
  rw [partition_eq t ax f ign ls re hl] at h
  cases h
  obtain ⟨q, hq, he⟩ := List.mem_map.mp hp
  cases he
  have hk : q.1 ∈ (partitionO (orient ax t) ls re ign).map (·.1) := List.mem_map_of_mem hq
  rw [partitionO_labels] at hk
  exact ⟨hk, by rw [mem_partitionO _ ls re ign q hq]⟩

/-- the parts carry distinct labels -/
theorem partition_labels_distinct (re : Bool) (hl : f.labels (t.ids ax) = .ok ls)
    {ps : List (Label × Table Rat)} (h : partition t ax f re ign = .ok ps) : (ps.map (·.1)).Nodup := by
  rw [partition_eq t ax f ign ls re hl] at h
  cases h
  rw [List.map_map]
  have : ((fun p : Label × Table Rat => p.1) ∘ fun p : Label × Table Rat => (p.1, orient ax p.2)) =
      (fun p : Label × Table Rat => p.1) := rfl
  rw [this, partitionO_labels]
  exact nodup_firsts _

/-- `partition_part_ids`: a part's IDs on the axis are exactly the IDs given that label, in the
original order -/
theorem partition_part_ids (ht : TableOk t) (hl : f.labels (t.ids ax) = .ok ls)
    {ps : List (Label × Table Rat)} (h : partition t ax f false ign = .ok ps) {k : Label} {p : Table Rat}
    (hp : (k, p) ∈ ps) : p.ids ax = members (t.ids ax) (ls.map (eff ign)) k := by
  obtain ⟨_, rfl⟩ := mem_partition t ax f ign ls false hl h hp
  simp only [Bool.false_eq_true, if_false]
  rw [orient_ids, castMd_obs, sel_obs_eq_members _ (orient_ok ax t ht).obsNodup, orient_obs]

/-- with `remove_empty` the all-zero vectors of the group are dropped, nothing else -/
theorem partition_part_ids_remove_empty (ht : TableOk t) (hl : f.labels (t.ids ax) = .ok ls)
    {ps : List (Label × Table Rat)} (h : partition t ax f true ign = .ok ps) {k : Label} {p : Table Rat}
    (hp : (k, p) ∈ ps) :
    p.ids ax = (members (t.ids ax) (ls.map (eff ign)) k).filter (rowNZ (orient ax t)) := by
  obtain ⟨_, rfl⟩ := mem_partition t ax f ign ls true hl h hp
  have hto := orient_ok ax t ht
  simp only [if_true]
  rw [orient_ids, castMd_obs, removeEmpty_obs _ (sel_ok _ hto _).obsNodup, sel_obs_eq_members _ hto.obsNodup,
    orient_obs]
  apply List.filter_congr
  intro id hid
  unfold rowNZ
  rw [sel_row _ hto.obsNodup _ (by rw [sel_obs_eq_members _ hto.obsNodup, orient_obs]; exact hid)]

/-- `partition_cover`: every ID whose label is kept lies in the part of that label -/
theorem partition_cover (ht : TableOk t) (hl : f.labels (t.ids ax) = .ok ls)
    {ps : List (Label × Table Rat)} (h : partition t ax f false ign = .ok ps) {x : Id} (hid : x ∈ t.ids ax)
    {k : Label} (hk : lookupBy (t.ids ax) (ls.map (eff ign)) x = some (some k)) :
    ∃ p, (k, p) ∈ ps ∧ x ∈ p.ids ax := by
  have hkey : k ∈ firsts ((ls.map (eff ign)).filterMap id) := by
    rw [mem_firsts, List.mem_filterMap]
    exact ⟨some k, (lookupBy_mem hk).2, rfl⟩
  have hps := partition_eq t ax f ign ls false hl
  rw [h] at hps
  cases hps
  let q : Label × Table Rat := (k, castMd (sel (orient ax t) (maskOf (ls.map (eff ign)) k)))
  have hq : q ∈ partitionO (orient ax t) ls false ign := by
    unfold partitionO partO
    simp only [Bool.false_eq_true, if_false, List.map_map]
    exact List.mem_map_of_mem
      (f := (fun p : Label × Table Rat => (p.1, castMd p.2)) ∘
        fun k => (k, sel (orient ax t) (maskOf (ls.map (eff ign)) k))) hkey
  refine ⟨orient ax q.2, List.mem_map_of_mem (f := fun p : Label × Table Rat => (p.1, orient ax p.2)) hq, ?_⟩
  rw [orient_ids, castMd_obs, sel_obs_eq_members _ (orient_ok ax t ht).obsNodup, orient_obs, members,
    List.mem_filter]
  exact ⟨hid, by simpa using hk⟩

/-- `partition_disjoint`: an ID lies in at most one part (with or without `remove_empty`) -/
theorem partition_disjoint (ht : TableOk t) (re : Bool) (hl : f.labels (t.ids ax) = .ok ls)
    {ps : List (Label × Table Rat)} (h : partition t ax f re ign = .ok ps) {k₁ k₂ : Label} {p₁ p₂ : Table Rat}
    (h₁ : (k₁, p₁) ∈ ps) (h₂ : (k₂, p₂) ∈ ps) {id : Id} (hi₁ : id ∈ p₁.ids ax) (hi₂ : id ∈ p₂.ids ax) :
    k₁ = k₂ ∧ p₁ = p₂ := by
  have hto := orient_ok ax t ht
  have key : ∀ {k : Label} {p : Table Rat}, (k, p) ∈ ps → id ∈ p.ids ax →
      lookupBy (t.ids ax) (ls.map (eff ign)) id = some (some k) := by
    intro k p hp hi
    obtain ⟨_, rfl⟩ := mem_partition t ax f ign ls re hl h hp
    rw [orient_ids] at hi
    have hm : id ∈ members (t.ids ax) (ls.map (eff ign)) k := by
      cases re with
      | false =>
        simp only [Bool.false_eq_true, if_false, castMd_obs] at hi
        rwa [sel_obs_eq_members _ hto.obsNodup, orient_obs] at hi
      | true =>
        simp only [if_true, castMd_obs] at hi
        have := removeEmpty_obs_sub _ hi
        rwa [sel_obs_eq_members _ hto.obsNodup, orient_obs] at this
    simpa [members] using (List.mem_filter.mp hm).2
  have e₁ := key h₁ hi₁
  have e₂ := key h₂ hi₂
  have hk : k₁ = k₂ := by rw [e₁] at e₂; simpa using e₂
  refine ⟨hk, ?_⟩
  obtain ⟨_, r₁⟩ := mem_partition t ax f ign ls re hl h h₁
  obtain ⟨_, r₂⟩ := mem_partition t ax f ign ls re hl h h₂
  rw [r₁, r₂, hk]

/-- `partition_cells_md`: without `remove_empty` a part keeps the complete other axis with its
metadata (all-empty metadata counting as none), and every ID of the part keeps its metadata entry
and every cell of its vector -/
theorem partition_cells_md (ht : TableOk t) (hl : f.labels (t.ids ax) = .ok ls)
    {ps : List (Label × Table Rat)} (h : partition t ax f false ign = .ok ps) {k : Label} {p : Table Rat}
    (hp : (k, p) ∈ ps) :
    p.ids ax.other = t.ids ax.other ∧ p.md ax.other = normMd (t.md ax.other) ∧ p.ttype = t.ttype ∧
      ∀ id ∈ p.ids ax, mdD p ax id = mdD t ax id ∧ ∀ oid, cellAx ax p id oid = cellAx ax t id oid := by
  have hto := orient_ok ax t ht
  obtain ⟨_, rfl⟩ := mem_partition t ax f ign ls false hl h hp
  simp only [Bool.false_eq_true, if_false]
  refine ⟨?_, ?_, ?_, ?_⟩
  · rw [orient_ids_other]; exact orient_samp ax t
  · rw [orient_md_other]; show normMd (orient ax t).smd = _; rw [orient_smd]
  · cases ax <;> rfl
  · intro id hid
    rw [orient_ids, castMd_obs] at hid
    constructor
    · unfold mdD
      rw [orient_mdOf]
      show mdD (castMd _) .obs id = _
      rw [mdD_castMd]
      unfold mdD
      rw [sel_mdOf_obs _ hto.obsNodup _ hid, mdOf_orient]
    · intro oid
      have hidt : id ∈ t.ids ax := by
        rw [← orient_obs]; exact mem_of_mem_filterMask hid
      rw [cellAx_orient ax _ (castMd_wf _ (sel_wf _ hto.wf _)) hid]
      show (sel _ _).cell? id oid = _
      rw [sel_cell _ hto.obsNodup _ hid, cellAx_of_orient ax t ht.wf hidt]

end Partition

theorem sumOver_congr {l : List Id} {g h : Id → Rat} (e : ∀ id ∈ l, g id = h id) : sumOver l g = sumOver l h := by
  unfold sumOver
  rw [List.map_congr_left e]

/-- the value of a cell, 0 where the pair is absent -/
def cellAxD (ax : Axis) (t : Table Rat) (id oid : Id) : Rat := (cellAx ax t id oid).getD 0

theorem cellD_orient (ax : Axis) (t : Table Rat) (ht : t.WF) {id : Id} (hid : id ∈ t.ids ax) (oid : Id) :
    cellD (orient ax t) id oid = cellAxD ax t id oid := by
  unfold cellD cellAxD
  rw [cellAx_of_orient ax t ht hid]

theorem cellD_of_orient (ax : Axis) (q : Table Rat) (hq : q.WF) {id : Id} (hid : id ∈ q.obs) (oid : Id) :
    cellAxD ax (orient ax q) id oid = cellD q id oid := by
  unfold cellD cellAxD
  rw [cellAx_orient ax q hq hid]

section Collapse
variable (t : Table Rat) (ax : Axis) (f : Labeler) (ls : List Label)

/-- the labels whose group reaches `min_group_size`, in first-occurrence order -/
def keptLabels (ms : Nat) : List Label :=
  (firsts (ls.map Label.key)).filter (fun k => decide (ms ≤ (members (t.ids ax) (ksOf ls) k).length))

theorem keptLabels_eq (ms : Nat) : keptLabels t ax ls ms = keptKeys (orient ax t) ls ms := by
  unfold keptLabels keptKeys
  rw [orient_obs]

theorem collapse_eq (norm : Bool) (ms : Nat) (icm : Bool) (hl : f.labels (t.ids ax) = .ok ls) :
    collapse t ax f norm ms icm = .ok (orient ax (collapseO (orient ax t) ls norm ms icm)) := by
  unfold collapse
  rw [hl]
  rfl

/-- result IDs on the collapsed axis = the labels with at least `min_group_size` members;
the other axis, its metadata and the type are unchanged and the result is shape-coherent — also
when NO group reaches the threshold (then the axis is empty and the other axis is still complete) -/
theorem collapse_ids_and_other_axis (ht : TableOk t) (_hdom : Domain t) (norm : Bool) (ms : Nat) (icm : Bool)
    (hl : f.labels (t.ids ax) = .ok ls) {r : Table Rat} (h : collapse t ax f norm ms icm = .ok r) :
    r.ids ax = (keptLabels t ax ls ms).map Label.toId ∧ r.ids ax.other = t.ids ax.other ∧
      r.md ax.other = normMd (t.md ax.other) ∧ r.ttype = t.ttype ∧ r.WF := by
  rw [collapse_eq t ax f ls norm ms icm hl] at h
  cases h
  have hto := orient_ok ax t ht
  have hwf := collapseO_wf (orient ax t) hto ls norm ms icm
  refine ⟨?_, ?_, ?_, ?_, orient_wf ax _ hwf⟩
  · rw [orient_ids, collapseO_obs _ hto.obsNodup, keptLabels_eq]
  · rw [orient_ids_other, collapseO_eq _ hto.obsNodup]; exact orient_samp ax t
  · rw [orient_md_other, collapseO_eq _ hto.obsNodup]; show normMd (orient ax t).smd = _; rw [orient_smd]
  · rw [collapseO_eq _ hto.obsNodup]; cases ax <;> rfl

/-- `collapse_vector`: the vector of a kept label is the element-wise sum of its members, divided
by their number when normalising (over the rationals) -/
theorem collapse_vector (ht : TableOk t) (norm : Bool) (ms : Nat) (icm : Bool)
    (hl : f.labels (t.ids ax) = .ok ls) (hinj : InjLabels ls) {r : Table Rat}
    (h : collapse t ax f norm ms icm = .ok r) {k : Label} (hk : k ∈ keptLabels t ax ls ms) {oid : Id}
    (ho : oid ∈ t.ids ax.other) :
    cellAx ax r k.toId oid =
      some (if norm then sumOver (members (t.ids ax) (ksOf ls) k) (fun id => cellAxD ax t id oid) /
                ((members (t.ids ax) (ksOf ls) k).length : Rat)
            else sumOver (members (t.ids ax) (ksOf ls) k) (fun id => cellAxD ax t id oid)) := by
  rw [collapse_eq t ax f ls norm ms icm hl] at h
  cases h
  have hto := orient_ok ax t ht
  rw [keptLabels_eq] at hk
  have hidr : k.toId ∈ (collapseO (orient ax t) ls norm ms icm).obs := by
    rw [collapseO_obs _ hto.obsNodup]; exact List.mem_map_of_mem hk
  rw [cellAx_orient ax _ (collapseO_wf _ hto ls norm ms icm) hidr,
    collapseO_cell _ hto ls hinj norm ms icm hk (by rw [orient_samp]; exact ho), orient_obs]
  have hs : sumOver (members (t.ids ax) (ksOf ls) k) (fun id => cellD (orient ax t) id oid) =
      sumOver (members (t.ids ax) (ksOf ls) k) (fun id => cellAxD ax t id oid) :=
    sumOver_congr (fun id hid => cellD_orient ax t ht.wf (List.mem_filter.mp hid).1 oid)
  rw [hs]

/-- `collapse_ids_md`: the `collapsed_ids` of a kept label are exactly its members, in order -/
theorem collapse_ids_md (ht : TableOk t) (norm : Bool) (ms : Nat) (hl : f.labels (t.ids ax) = .ok ls)
    (hinj : InjLabels ls) {r : Table Rat} (h : collapse t ax f norm ms true = .ok r) {k : Label}
    (hk : k ∈ keptLabels t ax ls ms) :
    r.mdOf? ax k.toId = some (cidsMd (members (t.ids ax) (ksOf ls) k)) := by
  rw [collapse_eq t ax f ls norm ms true hl] at h
  cases h
  have hto := orient_ok ax t ht
  rw [keptLabels_eq] at hk
  rw [orient_mdOf, collapseO_mdOf _ hto ls hinj norm ms hk, orient_obs]

/-- `collapse_conserves`: without normalisation and with threshold ≤ 1 every other-axis total is
unchanged -/
theorem collapse_conserves (ht : TableOk t) (ms : Nat) (hms : ms ≤ 1) (icm : Bool)
    (hl : f.labels (t.ids ax) = .ok ls) (hinj : InjLabels ls) (hlen : (t.ids ax).length ≤ ls.length)
    {r : Table Rat} (h : collapse t ax f false ms icm = .ok r) {oid : Id} (ho : oid ∈ t.ids ax.other) :
    sumOver (r.ids ax) (fun id => cellAxD ax r id oid) = sumOver (t.ids ax) (fun id => cellAxD ax t id oid) := by
  rw [collapse_eq t ax f ls false ms icm hl] at h
  cases h
  have hto := orient_ok ax t ht
  have hwf := collapseO_wf (orient ax t) hto ls false ms icm
  have hmain := collapseO_conserve (orient ax t) hto ls hinj (by rw [orient_obs]; exact hlen) ms hms icm
    (s := oid) (by rw [orient_samp]; exact ho)
  rw [orient_ids,
    sumOver_congr (fun id hid => cellD_of_orient ax _ hwf hid oid),
    hmain, orient_obs]
  exact sumOver_congr (fun id hid => cellD_orient ax t ht.wf hid oid)

end Collapse

section OneToMany
variable (t : Table Rat) (ax : Axis) (evss : List Events)

/-- the (pathway, bin) pairs an ID's iterator delivered, looked up by ID -/
def itemsById (id : Id) : List (String × String) := items ((lookupBy (t.ids ax) evss id).getD [])

theorem itemsById_eq (id : Id) : itemsById t ax evss id = itemsOf (orient ax t) evss id := by
  unfold itemsById itemsOf
  rw [orient_obs]

theorem orient_omd (t : Table Rat) (ax : Axis) : (orient ax t).omd = t.md ax := by
  cases ax <;> rfl

theorem omd_isNone_false (t : Table Rat) (ax : Axis) (hmd : (t.md ax).isSome = true) :
    (orient ax t).omd.isNone = false := by
  rw [orient_omd]
  cases h : t.md ax with
  | none => rw [h] at hmd; cases hmd
  | some m => rfl

theorem otm_eq {divide strict icm : Bool} {key : String} (ht : TableOk t) (hl : evss.length = (t.ids ax).length)
    (hmd : (t.md ax).isSome = true) (hst : (strict && evss.any (fun evs => evs.any Option.isNone)) = false) :
    otm t ax evss divide strict icm key = .ok (orient ax (otmTable (orient ax t) evss divide icm key)) := by
  have hto := orient_ok ax t ht
  unfold otm
  rw [otmO_eq (orient ax t) hto.obsNodup evss (by rw [orient_obs]; exact hl) divide strict icm key
    (omd_isNone_false t ax hmd) hst]
  rfl

/-- `strict`: one incomplete pathway anywhere refuses the whole collapse -/
theorem otm_strict_refuses {divide icm : Bool} {key : String} (hmd : (t.md ax).isSome = true)
    (hbad : evss.any (fun evs => evs.any Option.isNone) = true) :
    otm t ax evss divide true icm key = .error .index := by
  unfold otm otmO
  have : (orient ax t).omd.isNone = false := omd_isNone_false t ax hmd
  rw [this, hbad]
  rfl

/-- the bins of the result are exactly the bins some vector lists -/
theorem otm_bins {divide strict icm : Bool} {key : String} (ht : TableOk t)
    (hl : evss.length = (t.ids ax).length) (hmd : (t.md ax).isSome = true)
    (hst : (strict && evss.any (fun evs => evs.any Option.isNone)) = false) {r : Table Rat}
    (h : otm t ax evss divide strict icm key = .ok r) (b : String) :
    b ∈ r.ids ax ↔ ∃ id ∈ t.ids ax, ∃ p ∈ itemsById t ax evss id, p.2 = b := by
  rw [otm_eq t ax evss ht hl hmd hst] at h
  cases h
  rw [orient_ids]
  show b ∈ otmBins (orient ax t) evss ↔ _
  rw [mem_otmBins, List.mem_map]
  unfold allItems
  constructor
  · rintro ⟨p, hp, rfl⟩
    obtain ⟨l, hl', hpl⟩ := List.mem_flatten.mp hp
    obtain ⟨id, hid, rfl⟩ := List.mem_map.mp hl'
    exact ⟨id, by rw [← orient_obs]; exact hid, p, by rw [itemsById_eq]; exact hpl, rfl⟩
  · rintro ⟨id, hid, p, hp, rfl⟩
    refine ⟨p, List.mem_flatten.mpr ⟨_, List.mem_map_of_mem (by rw [orient_obs]; exact hid), ?_⟩, rfl⟩
    rw [← itemsById_eq]; exact hp

/-- `otm_add_cell` (and the `divide` cell): every vector contributes its count once per listing of
the bin — duplicates counted — (divided by its number of groups in `divide` mode) -/
theorem otm_cell {divide strict icm : Bool} {key : String} (ht : TableOk t)
    (hl : evss.length = (t.ids ax).length) (hmd : (t.md ax).isSome = true)
    (hst : (strict && evss.any (fun evs => evs.any Option.isNone)) = false) {r : Table Rat}
    (h : otm t ax evss divide strict icm key = .ok r) {b : String} (hb : b ∈ r.ids ax) {oid : Id}
    (ho : oid ∈ t.ids ax.other) :
    cellAx ax r b oid =
      some (sumOver (t.ids ax) (fun id => weight divide b (itemsById t ax evss id) * cellAxD ax t id oid)) := by
  rw [otm_eq t ax evss ht hl hmd hst] at h
  cases h
  have hto := orient_ok ax t ht
  have hl' : evss.length = (orient ax t).obs.length := by rw [orient_obs]; exact hl
  rw [orient_ids] at hb
  rw [cellAx_orient ax _ (otmTable_wf _ hto evss divide icm key) hb,
    otmTable_cell _ hto evss hl' divide icm key hb (by rw [orient_samp]; exact ho), orient_obs]
  congr 1
  apply sumOver_congr
  intro id hid
  rw [itemsById_eq, cellD_orient ax t ht.wf hid]

theorem otm_add_cell {strict icm : Bool} {key : String} (ht : TableOk t)
    (hl : evss.length = (t.ids ax).length) (hmd : (t.md ax).isSome = true)
    (hst : (strict && evss.any (fun evs => evs.any Option.isNone)) = false) {r : Table Rat}
    (h : otm t ax evss false strict icm key = .ok r) {b : String} (hb : b ∈ r.ids ax) {oid : Id}
    (ho : oid ∈ t.ids ax.other) :
    cellAx ax r b oid =
      some (sumOver (t.ids ax) (fun id => (mult b (itemsById t ax evss id) : Rat) * cellAxD ax t id oid)) :=
  otm_cell t ax evss ht hl hmd hst h hb ho

/-- `otm_divide_conserves`: in `divide` mode the vectors that map to at least one group keep their
totals (over the rationals) -/
theorem otm_divide_conserves {strict icm : Bool} {key : String} (ht : TableOk t)
    (hl : evss.length = (t.ids ax).length) (hmd : (t.md ax).isSome = true)
    (hst : (strict && evss.any (fun evs => evs.any Option.isNone)) = false) {r : Table Rat}
    (h : otm t ax evss true strict icm key = .ok r) {oid : Id} (ho : oid ∈ t.ids ax.other) :
    sumOver (r.ids ax) (fun b => cellAxD ax r b oid) =
      sumOver ((t.ids ax).filter (fun id => !(itemsById t ax evss id).isEmpty)) (fun id => cellAxD ax t id oid) := by
  rw [otm_eq t ax evss ht hl hmd hst] at h
  cases h
  have hto := orient_ok ax t ht
  have hl' : evss.length = (orient ax t).obs.length := by rw [orient_obs]; exact hl
  have hwf := otmTable_wf (orient ax t) hto evss true icm key
  have hmain := otmTable_divide_conserve (orient ax t) hto evss hl' icm key (s := oid)
    (by rw [orient_samp]; exact ho)
  rw [orient_ids, sumOver_congr (fun b hb => cellD_of_orient ax _ hwf hb oid), hmain, orient_obs]
  have hfil : (t.ids ax).filter (fun id => !(itemsOf (orient ax t) evss id).isEmpty) =
      (t.ids ax).filter (fun id => !(itemsById t ax evss id).isEmpty) := by
    apply List.filter_congr
    intro id _
    rw [itemsById_eq]
  rw [hfil]
  exact sumOver_congr (fun id hid => cellD_orient ax t ht.wf (List.mem_filter.mp hid).1 oid)

end OneToMany

/-! ## Non-vacuity: the hypotheses are met by concrete, non-trivial inputs -/

/-- string labels (the documented use of `collapse`) become distinct IDs -/
theorem injLabels_of_str (ls : List Label) (h : ∀ l ∈ ls, ∃ s, l = .str s) : InjLabels ls := by
  intro a ha b hb he
  obtain ⟨sa, rfl⟩ := h a ha
  obtain ⟨sb, rfl⟩ := h b hb
  simp only [Label.key, Label.toId] at he ⊢
  rw [he]

def demo : Table Rat :=
  { obs := ["o1", "o2", "o3"], samp := ["s1", "s2", "s3"],
    rows := [[1, 2, 0], [3, 4, 5], [0, 0, 0]],
    omd := some [[("g", "x")], [("g", "y")], [("g", "x")]],
    smd := some [[("t", "a")], [("t", "a")], [("t", "b")]], ttype := some "OTU table" }

def demoF : Labeler := .results [.str "a", .str "a", .str "b"]
def demoId : Labeler := .results [.str "s1", .str "s2", .str "s3"]
def demoEvents : List Events :=
  [[some ("P1", "K1"), some ("P2", "K2"), some ("P1", "K1")], [], [some ("P3", "K2"), none]]

theorem demo_ok : TableOk demo := ⟨(wfb_iff _).mp (by decide), by decide, by decide⟩

example : OpOk demo .samp (.collapse demoF false 1 true) := by
  refine ⟨⟨by decide, by decide⟩, ?_⟩
  intro ls hls
  cases hls
  refine ⟨injLabels_of_str _ ?_, by decide⟩
  intro l hl
  simp only [List.mem_cons, List.mem_nil_iff, or_false] at hl
  rcases hl with rfl | rfl | rfl <;> exact ⟨_, rfl⟩

example : OpOk demo .samp (.otm demoEvents true false true "Path") := by
  show demoEvents.length = (demo.ids .samp).length
  decide

/-- two parts, the IDs split as labelled -/
example : (match partition demo .samp demoF false false with
    | .ok ps => ps.map (fun p => (p.1, p.2.samp, p.2.obs))
    | .error _ => []) =
    [(.str "a", ["s1", "s2"], ["o1", "o2", "o3"]), (.str "b", ["s3"], ["o1", "o2", "o3"])] := by decide +kernel

/-- `remove_empty` drops the all-zero observation o3 (and from part b also o1) -/
example : (match partition demo .samp demoF true false with
    | .ok ps => ps.map (fun p => (p.1, p.2.samp, p.2.obs))
    | .error _ => []) =
    [(.str "a", ["s1", "s2"], ["o1", "o2"]), (.str "b", ["s3"], ["o2"])] := by decide +kernel

def demoSparse : Table Rat := { demo with smd := some [[("t", "a")], [], []] }

/-- `_cast_metadata`: the part made only of samples without any metadata entry has NO sample
metadata, the other part keeps its entries -/
example : (match partition demoSparse .samp (.results [.str "x", .str "y", .str "y"]) false false with
    | .ok ps => ps.map (fun p => (p.2.samp, p.2.smd.isSome))
    | .error _ => []) = [(["s1"], true), (["s2", "s3"], false)] := by decide +kernel

/-- one-to-one collapse without normalisation: sums, and the totals 3, 12, 0 of o1, o2, o3 conserved -/
example : (match collapse demo .samp demoF false 1 true with
    | .ok r => (r.samp, r.rows, r.smd)
    | .error _ => ([], [], none)) =
    (["a", "b"], [[3, 0], [7, 5], [0, 0]],
      some [[("collapsed_ids", "s1\u001fs2")], [("collapsed_ids", "s3")]]) := by decide +kernel

/-- the repaired defect: every group smaller than `min_group_size` — no sample left, all three
observations kept, rows of length 0: shape (3, 0) -/
example : (match collapse demo .samp demoId false 2 true with
    | .ok r => (r.obs, r.samp, r.rows, r.wfb)
    | .error _ => ([], [], [], false)) =
    (["o1", "o2", "o3"], [], [[], [], []], true) := by decide +kernel

/-- one-to-many, `divide`: s1 lists K1 twice and K2 once (thirds), s2 lists nothing (dropped),
s3 lists K2 once before its iterator raised IndexError; totals of s1 and s3 are conserved -/
example : (match otm demo .samp demoEvents true false true "Path" with
    | .ok r => (r.samp, r.rows, r.smd)
    | .error _ => ([], [], none)) =
    (["K1", "K2"], [[2/3, 1/3], [2, 6], [0, 0]], some [[("Path", "P1")], [("Path", "P3")]]) := by decide +kernel

example : (match otm demo .samp demoEvents false true true "Path" with
    | .ok _ => none
    | .error e => some e) = some Err.index := by decide +kernel

end Biom.C11
