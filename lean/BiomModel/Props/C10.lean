/-
  C10 — property theorems.  Everything is for EVERY number of operands (`self` plus any list of
  others, so k ≥ 1), BOTH axes, every table size, every ID list, every value type that has a zero
  (sums: every commutative additive monoid) — no bound anywhere.
  Hypothesis `OpsWF`: every operand is a table (consistent shape, distinct IDs on both axes), which
  the constructor of the real class guarantees.
-/
import BiomModel.Lemmas.C10

namespace Biom.C10
variable {α : Type}

/-- the operands' ID lists on the concatenation axis -/
def axisIdLists (ax : Axis) (ts : List (Table α)) : List (List Id) := ts.map (·.ids ax)

theorem views_aids (ax : Axis) (ts : List (Table α)) :
    (ts.map (viewOf ax)).map (·.aids) = axisIdLists ax ts := by
  unfold axisIdLists
  rw [List.map_map]
  apply List.map_congr_left
  intro t _
  exact viewOf_aids ax t

/-- **Refusal.** `DisjointIDError` is raised exactly when two DIFFERENT operands share an ID of the
concatenation axis (an ID repeated inside one operand is not what the scan looks at). No
well-formedness is needed for this direction-free statement. -/
theorem concat_refuses_iff [Zero α] (ax : Axis) (self : Table α) (others : List (Table α)) :
    concatAll ax self others = .error .disjointId ↔
      ¬ (axisIdLists ax (self :: others)).Pairwise Disj := by
  unfold concatAll
  rw [← views_aids, ← concatViews_refuses_iff]
  cases h : concatViews ((self :: others).map (viewOf ax)) with
  | error e => simp
  | ok v => simp

/-- the same, spelled out with operand positions -/
theorem concat_refuses_iff_shared [Zero α] (ax : Axis) (self : Table α) (others : List (Table α)) :
    concatAll ax self others = .error .disjointId ↔
      ∃ i j : Nat, i < j ∧ ∃ (ti tj : Table α) (a : Id), (self :: others)[i]? = some ti ∧ (self :: others)[j]? = some tj ∧
        a ∈ ti.ids ax ∧ a ∈ tj.ids ax := by
  rw [concat_refuses_iff, List.pairwise_iff_getElem]
  unfold axisIdLists
  constructor
  · intro h
    apply Classical.byContradiction
    intro hne
    apply h
    intro i j hi hj hij a ha hb
    simp only [List.length_map] at hi hj
    simp only [List.getElem_map] at ha hb
    exact hne ⟨i, j, hij, _, _, a, List.getElem?_eq_getElem hi, List.getElem?_eq_getElem hj, ha, hb⟩
  · rintro ⟨i, j, hij, ti, tj, a, hi, hj, hai, haj⟩ h
    obtain ⟨hi', rfl⟩ := List.getElem?_eq_some_iff.mp hi
    obtain ⟨hj', rfl⟩ := List.getElem?_eq_some_iff.mp hj
    have := h i j (by simpa using hi') (by simpa using hj') hij
    simp only [List.getElem_map] at this
    exact this a hai haj

/-- With table operands nothing else can go wrong: no `UnknownID`, no index error. -/
theorem concat_ok [Zero α] (ax : Axis) (self : Table α) (others : List (Table α))
    (hwf : OpsWF (self :: others)) (hdis : (axisIdLists ax (self :: others)).Pairwise Disj) :
    ∃ r, concatAll ax self others = .ok r := by
  obtain ⟨R, hR, _⟩ := concatViews_spec _ (viewsWF_of_ops ax _ hwf) (by rw [views_aids]; exact hdis)
  exact ⟨_, by unfold concatAll; rw [hR]⟩

theorem concat_error_only_disjoint [Zero α] (ax : Axis) (self : Table α) (others : List (Table α))
    (hwf : OpsWF (self :: others)) (e : Err) (h : concatAll ax self others = .error e) :
    e = .disjointId := by
  by_cases hdis : (axisIdLists ax (self :: others)).Pairwise Disj
  · obtain ⟨r, hr⟩ := concat_ok ax self others hwf hdis
    rw [hr] at h; cases h
  · have := (concat_refuses_iff ax self others).mpr hdis
    rw [this] at h
    injection h with h
    exact h.symm

/-- everything known about a successful result, in one place (the named corollaries follow) -/
theorem concat_spec [Zero α] (ax : Axis) (self : Table α) (others : List (Table α))
    (hwf : OpsWF (self :: others)) (r : Table α) (h : concatAll ax self others = .ok r) :
    ∃ R : View α, r = tableOf ax self.ttype R ∧
      concatViews ((self :: others).map (viewOf ax)) = .ok R ∧
      (axisIdLists ax (self :: others)).Pairwise Disj ∧
      R.oids.Nodup ∧ R.oids.Pairwise (· ≤ ·) ∧
      (∀ b, b ∈ R.oids ↔ ∃ v ∈ (self :: others).map (viewOf ax), b ∈ v.oids) ∧
      R.aids = ((self :: others).map (viewOf ax)).flatMap (·.aids) ∧
      R.vecs = ((self :: others).map (viewOf ax)).flatMap (fun v => v.vecs.map (ovec R.oids v)) ∧
      R.amd = normMd (some (((self :: others).map (viewOf ax)).flatMap amdEntries)) ∧ R.WF := by
  have hdis : (axisIdLists ax (self :: others)).Pairwise Disj := by
    apply Classical.byContradiction
    intro hn
    rw [(concat_refuses_iff ax self others).mpr hn] at h
    cases h
  obtain ⟨R, hR, h1, h2, h3, h4, h5, h6, h7⟩ :=
    concatViews_spec _ (viewsWF_of_ops ax _ hwf) (by rw [views_aids]; exact hdis)
  refine ⟨R, ?_, hR, hdis, h1, h2, h3, h4, h5, h6, h7⟩
  unfold concatAll at h
  rw [hR] at h
  injection h with h
  exact h.symm

/-- **Axis IDs.** The result carries all operands' IDs of the axis, in operand order. -/
theorem concat_axis_ids [Zero α] (ax : Axis) (self : Table α) (others : List (Table α))
    (hwf : OpsWF (self :: others)) (r : Table α) (h : concatAll ax self others = .ok r) :
    r.ids ax = (self :: others).flatMap (·.ids ax) := by
  obtain ⟨R, rfl, _, _, _, _, _, hA, _⟩ := concat_spec ax self others hwf r h
  rw [tableOf_aids, hA]
  exact flatMap_map_congr _ _ _ _ (fun t _ => viewOf_aids ax t)

/-- **Other-axis IDs.** They are the union of the operands' other-axis IDs, each once, sorted. -/
theorem concat_other_ids [Zero α] (ax : Axis) (self : Table α) (others : List (Table α))
    (hwf : OpsWF (self :: others)) (r : Table α) (h : concatAll ax self others = .ok r) :
    (r.ids ax.other).Nodup ∧ (r.ids ax.other).Pairwise (· ≤ ·) ∧
    ∀ b, b ∈ r.ids ax.other ↔ ∃ t ∈ self :: others, b ∈ t.ids ax.other := by
  obtain ⟨R, rfl, _, _, hn, hs, hm, _⟩ := concat_spec ax self others hwf r h
  rw [tableOf_oids]
  refine ⟨hn, hs, fun b => ?_⟩
  rw [hm b]
  constructor
  · rintro ⟨v, hv, hb⟩
    obtain ⟨t, ht, rfl⟩ := List.mem_map.mp hv
    exact ⟨t, ht, by rw [← viewOf_oids]; exact hb⟩
  · rintro ⟨t, ht, hb⟩
    exact ⟨viewOf ax t, List.mem_map_of_mem ht, by rw [viewOf_oids]; exact hb⟩

/-- **Cells.** For an ID `a` of the axis owned by operand `t` and any ID `b` of the result's other
axis: the value is `t`'s value at `(a, b)` if `t` has `b`, and zero otherwise. -/
theorem concat_cell [Zero α] (ax : Axis) (self : Table α) (others : List (Table α))
    (hwf : OpsWF (self :: others)) (r : Table α) (h : concatAll ax self others = .ok r)
    (t : Table α) (ht : t ∈ self :: others) (a : Id) (ha : a ∈ t.ids ax)
    (b : Id) (hb : b ∈ r.ids ax.other) :
    cellAx? r ax a b = some (if b ∈ t.ids ax.other then (cellAx? t ax a b).getD 0 else 0) ∧
    (b ∈ t.ids ax.other → ∃ x, cellAx? t ax a b = some x) := by
  obtain ⟨R, rfl, _, hdis, _, _, _, hA, hV, _, hW⟩ := concat_spec ax self others hwf r h
  rw [tableOf_oids] at hb
  have := view_cell _ (viewsWF_of_ops ax _ hwf) (by rw [views_aids]; exact hdis) R hA hV
    (viewOf ax t) (List.mem_map_of_mem ht) a (by rw [viewOf_aids]; exact ha) b hb
  rw [cellAx_tableOf ax _ R hW.lens, ← cellAx_viewOf ax t (hwf t ht).1, ← viewOf_oids]
  exact this

/-- the block of an operand is unchanged -/
theorem concat_cell_block [Zero α] (ax : Axis) (self : Table α) (others : List (Table α))
    (hwf : OpsWF (self :: others)) (r : Table α) (h : concatAll ax self others = .ok r)
    (t : Table α) (ht : t ∈ self :: others) (a : Id) (ha : a ∈ t.ids ax)
    (b : Id) (hb : b ∈ t.ids ax.other) : cellAx? r ax a b = cellAx? t ax a b := by
  have hbr : b ∈ r.ids ax.other := ((concat_other_ids ax self others hwf r h).2.2 b).mpr ⟨t, ht, hb⟩
  obtain ⟨h1, h2⟩ := concat_cell ax self others hwf r h t ht a ha b hbr
  obtain ⟨x, hx⟩ := h2 hb
  rw [h1, hx]
  simp [hb]

/-- everything outside the blocks is zero -/
theorem concat_cell_pad [Zero α] (ax : Axis) (self : Table α) (others : List (Table α))
    (hwf : OpsWF (self :: others)) (r : Table α) (h : concatAll ax self others = .ok r)
    (t : Table α) (ht : t ∈ self :: others) (a : Id) (ha : a ∈ t.ids ax)
    (b : Id) (hbr : b ∈ r.ids ax.other) (hb : b ∉ t.ids ax.other) : cellAx? r ax a b = some 0 := by
  rw [(concat_cell ax self others hwf r h t ht a ha b hbr).1]
  simp [hb]

/-- **Metadata.** The metadata entry of an axis ID in the result is its entry in the owning operand
(an operand without metadata on the axis contributes empty entries). -/
theorem concat_md_travels [Zero α] (ax : Axis) (self : Table α) (others : List (Table α))
    (hwf : OpsWF (self :: others)) (r : Table α) (h : concatAll ax self others = .ok r)
    (t : Table α) (ht : t ∈ self :: others) (a : Id) (ha : a ∈ t.ids ax) :
    mdEntry r ax a = mdEntry t ax a := by
  obtain ⟨R, rfl, _, hdis, _, _, _, hA, _, hM, _⟩ := concat_spec ax self others hwf r h
  rw [mdEntry_tableOf, ← mdEntry_viewOf]
  exact view_md _ (viewsWF_of_ops ax _ hwf) (by rw [views_aids]; exact hdis) R hA hM
    (viewOf ax t) (List.mem_map_of_mem ht) a (by rw [viewOf_aids]; exact ha)

/-- **Totals.** The grand total of the result is the sum of the operands' totals. -/
theorem concat_total {M : Type} [AddCommMonoid M] (ax : Axis) (self : Table M) (others : List (Table M))
    (hwf : OpsWF (self :: others)) (r : Table M) (h : concatAll ax self others = .ok r) :
    total r = sumL ((self :: others).map total) := by
  obtain ⟨R, rfl, _, _, hn, _, hm, _, hV, _, hW⟩ := concat_spec ax self others hwf r h
  rw [total_tableOf ax _ R hW.lens, view_total _ (viewsWF_of_ops ax _ hwf) R hn hm hV, List.map_map]
  congr 1
  apply List.map_congr_left
  intro t ht
  exact total_viewOf ax t (hwf t ht).1

/-- the result is again a table -/
theorem concat_wf [Zero α] (ax : Axis) (self : Table α) (others : List (Table α))
    (hwf : OpsWF (self :: others)) (r : Table α) (h : concatAll ax self others = .ok r) : r.WF := by
  obtain ⟨R, rfl, _, _, _, _, _, _, _, _, hW⟩ := concat_spec ax self others hwf r h
  exact tableOf_WF ax _ R hW


theorem nodupB_iff (l : List Id) : nodupB l = true ↔ l.Nodup := by
  induction l with
  | nil => simp [nodupB]
  | cons x xs ih => simp [nodupB, ih]

/-- **model_holds.** For every axis, every receiver and every list of further operands that are
tables, the declarative predicate `holds` is true of what the model returns — refusal or result. -/
theorem model_holds {M : Type} [AddCommMonoid M] [DecidableEq M] (ax : Axis) (self : Table M)
    (others : List (Table M)) (hwf : OpsWF (self :: others)) :
    holds ax (self :: others) (concatAll ax self others) = true := by
  cases h : concatAll ax self others with
  | error e =>
    have he := concat_error_only_disjoint ax self others hwf e h
    subst he
    have hnp := (concat_refuses_iff ax self others).mp h
    have : pairwiseDisjoint ((self :: others).map (·.ids ax)) = false := by
      cases hp : pairwiseDisjoint ((self :: others).map (·.ids ax)) with
      | false => rfl
      | true => exact absurd ((pairwiseDisjoint_iff _).mp hp) hnp
    unfold holds clauses Clauses.all
    simp only [this, Bool.not_false, decide_true, Bool.and_self]
  | ok r =>
    obtain ⟨R, _, _, hdis, _⟩ := concat_spec ax self others hwf r h
    have h1 : pairwiseDisjoint ((self :: others).map (·.ids ax)) = true := (pairwiseDisjoint_iff _).mpr hdis
    have h2 : r.wfb = true := wfb_of_WF r (concat_wf ax self others hwf r h)
    have h3 := concat_axis_ids ax self others hwf r h
    obtain ⟨h4n, _, h4m⟩ := concat_other_ids ax self others hwf r h
    have h5 := concat_cell ax self others hwf r h
    have h6 := concat_md_travels ax self others hwf r h
    have h7 := concat_total ax self others hwf r h
    have c4 : (nodupB (r.ids ax.other) &&
        (r.ids ax.other).all (fun b => (self :: others).any (fun t => (t.ids ax.other).contains b)) &&
        (self :: others).all (fun t => (t.ids ax.other).all (fun b => (r.ids ax.other).contains b))) = true := by
      rw [Bool.and_eq_true, Bool.and_eq_true, nodupB_iff]
      refine ⟨⟨h4n, ?_⟩, ?_⟩
      · rw [List.all_eq_true]
        intro b hb
        obtain ⟨t, ht, hbt⟩ := (h4m b).mp hb
        rw [List.any_eq_true]
        exact ⟨t, ht, by simpa using hbt⟩
      · rw [List.all_eq_true]
        intro t ht
        rw [List.all_eq_true]
        intro b hb
        have := (h4m b).mpr ⟨t, ht, hb⟩
        simpa using this
    have c5 : ((self :: others).all (fun t => (t.ids ax).all (fun a => (r.ids ax.other).all (fun b =>
        decide (cellAx? r ax a b =
          some (if (t.ids ax.other).contains b then (cellAx? t ax a b).getD 0 else 0)) &&
        (!(t.ids ax.other).contains b || (cellAx? t ax a b).isSome))))) = true := by
      rw [List.all_eq_true]; intro t ht
      rw [List.all_eq_true]; intro a ha
      rw [List.all_eq_true]; intro b hb
      obtain ⟨e1, e2⟩ := h5 t ht a ha b hb
      rw [Bool.and_eq_true]
      constructor
      · rw [decide_eq_true_eq, e1]
        by_cases hbt : b ∈ t.ids ax.other
        · simp [hbt]
        · simp [hbt]
      · by_cases hbt : b ∈ t.ids ax.other
        · obtain ⟨x, hx⟩ := e2 hbt
          simp [hx]
        · have : (t.ids ax.other).contains b = false := by simpa using hbt
          rw [this]; rfl
    have c6 : ((self :: others).all (fun t => (t.ids ax).all (fun a =>
        decide (mdEntry r ax a = mdEntry t ax a)))) = true := by
      rw [List.all_eq_true]; intro t ht
      rw [List.all_eq_true]; intro a ha
      exact decide_eq_true (h6 t ht a ha)
    unfold holds clauses Clauses.all
    simp only [h1, h2, c4, c5, c6, decide_eq_true h3, decide_eq_true h7, Bool.and_self]

/-- the instance the driver evaluates -/
theorem model_holds_rat (ax : Axis) (self : Table Rat) (others : List (Table Rat))
    (hwf : OpsWF (self :: others)) : holds ax (self :: others) (concatAll ax self others) = true :=
  model_holds ax self others hwf


/-- **Other-axis metadata.** An other-axis ID that the receiver has keeps the receiver's entry
(empty if the receiver has no metadata there, whatever later operands carry); an ID it lacks gets
the entry of the first later operand that has it. -/
theorem concat_other_md [Zero α] (ax : Axis) (self : Table α) (others : List (Table α))
    (hwf : OpsWF (self :: others)) (r : Table α) (h : concatAll ax self others = .ok r)
    (b : Id) (hb : b ∈ r.ids ax.other) :
    mdEntry r ax.other b =
      if b ∈ self.ids ax.other then mdEntry self ax.other b
      else match others.find? (fun t => (t.ids ax.other).contains b) with
        | some t => mdEntry t ax.other b
        | none => [] := by
  obtain ⟨R, rfl, hR, _, _, _, _, _, _, _, _⟩ := concat_spec ax self others hwf r h
  rw [tableOf_oids] at hb
  obtain ⟨first, hs, ho⟩ := concatViews_omd (viewOf ax self) (others.map (viewOf ax))
    (by simpa using viewsWF_of_ops ax _ hwf) R (by simpa using hR)
  have hbridge : mdEntry (tableOf ax self.ttype R) ax.other b =
      (R.omd.bind (fun m => lookupBy R.oids m b)).getD [] := by cases ax <;> rfl
  rw [hbridge, ho, normMd_lookup, lookupBy_map _ _ _ hb]
  simp only [Option.getD_some]
  rw [← viewOf_oids]
  by_cases hbs : b ∈ (viewOf ax self).oids
  · simp only [hbs, if_true]
    rw [padEntry_self first _ b hbs, entryOf_viewOf]
  · simp only [hbs, if_false]
    unfold padEntry
    simp only [hbs, if_false]
    rw [scan_lookup _ [] [] first hs b]
    have hc : (viewOf ax self).oids.contains b = false := by simpa using hbs
    simp only [List.map_nil, List.not_mem_nil, if_false, List.find?_cons, hc, List.find?_map]
    cases hf : others.find? ((fun v => v.oids.contains b) ∘ viewOf ax) with
    | none =>
      have : others.find? (fun t => (t.ids ax.other).contains b) = none := by
        rw [← hf]; congr 1; funext t; simp [viewOf_oids]
      rw [this]; rfl
    | some t =>
      have : others.find? (fun t => (t.ids ax.other).contains b) = some t := by
        rw [← hf]; congr 1; funext t; simp [viewOf_oids]
      rw [this]
      simp [entryOf_viewOf]


/-! ### decidable form of the hypotheses -/

theorem WF_of_wfb [DecidableEq α] (t : Table α) (h : t.wfb = true) : t.WF := by
  unfold Table.wfb at h
  simp only [Bool.and_eq_true, beq_iff_eq, List.all_eq_true] at h
  obtain ⟨⟨⟨h1, h2⟩, h3⟩, h4⟩ := h
  refine ⟨h1, h2, ?_, ?_⟩
  · intro m hm; rw [hm] at h3; simpa using h3
  · intro m hm; rw [hm] at h4; simpa using h4

/-- Boolean form of `OpsWF` (what a harness or `decide` can evaluate) -/
def opsWFb [DecidableEq α] (ts : List (Table α)) : Bool :=
  ts.all (fun t => t.wfb && nodupB t.obs && nodupB t.samp)

theorem opsWF_of_b [DecidableEq α] (ts : List (Table α)) (h : opsWFb ts = true) : OpsWF ts := by
  intro t ht
  have := List.all_eq_true.mp h t ht
  simp only [Bool.and_eq_true, nodupB_iff] at this
  exact ⟨WF_of_wfb t this.1.1, this.1.2, this.2⟩

theorem model_holds_b {M : Type} [AddCommMonoid M] [DecidableEq M] (ax : Axis) (self : Table M)
    (others : List (Table M)) (hwf : opsWFb (self :: others) = true) :
    holds ax (self :: others) (concatAll ax self others) = true :=
  model_holds ax self others (opsWF_of_b _ hwf)

/-! ### the two entry points -/

theorem concat_single_eq_list [Zero α] (self t : Table α) (axis : String) :
    concat self (.single t) axis = concat self (.list [t]) axis := rfl

theorem concat_sample [Zero α] (self : Table α) (others : Others α) :
    concat self others "sample" = concatAll .samp self others.toList := by
  simp [concat, axisOf?]

theorem concat_observation [Zero α] (self : Table α) (others : Others α) :
    concat self others "observation" = concatAll .obs self others.toList := by
  simp [concat, axisOf?]

theorem concat_unknown_axis [Zero α] (self : Table α) (others : Others α) (axis : String)
    (h1 : axis ≠ "sample") (h2 : axis ≠ "observation") :
    concat self others axis = .error .unknownAxis := by
  simp [concat, axisOf?, h1, h2]

/-- `biom.concat(tables)` is `Table.concat` of the first table with the rest -/
theorem biomConcat_eq [Zero α] (t : Table α) (rest : List (Table α)) (axis : String) :
    biomConcat (t :: rest) axis = concat t (.list rest) axis := rfl

/-- the property holds through either entry point, for a single table or a list -/
theorem api_holds {M : Type} [AddCommMonoid M] [DecidableEq M] (self : Table M) (others : Others M)
    (hwf : OpsWF (self :: others.toList)) :
    holds .samp (self :: others.toList) (concat self others "sample") = true ∧
    holds .obs (self :: others.toList) (concat self others "observation") = true ∧
    holds .samp (self :: others.toList) (biomConcat (self :: others.toList) "sample") = true ∧
    holds .obs (self :: others.toList) (biomConcat (self :: others.toList) "observation") = true := by
  refine ⟨?_, ?_, ?_, ?_⟩
  · rw [concat_sample]; exact model_holds _ _ _ hwf
  · rw [concat_observation]; exact model_holds _ _ _ hwf
  · rw [biomConcat_eq, concat_sample]; exact model_holds _ _ _ hwf
  · rw [biomConcat_eq, concat_observation]; exact model_holds _ _ _ hwf

/-! ### non-vacuity: the hypotheses are met by concrete, non-trivial operand sets -/

/-- other axis permuted and partially missing, metadata on some operands only -/
def exA : Table Int :=
  { obs := ["o2", "o1", "o3"], samp := ["s1", "s2"], rows := [[1, 2], [3, 4], [5, 6]],
    omd := some [[("k", "p2")], [("k", "p1")], []], smd := none, ttype := some "OTU table" }
def exB : Table Int :=
  { obs := ["o3", "o9"], samp := ["s3"], rows := [[7], [8]], omd := none,
    smd := some [[("d", "3")]], ttype := none }
def exC : Table Int :=
  { obs := ["o1", "o2", "o3"], samp := ["s4", "s5"], rows := [[0, 9], [10, 0], [11, 12]] }

example : opsWFb [exA, exB, exC] = true := by decide
example : (axisIdLists .samp [exA, exB, exC]).Pairwise Disj :=
  (pairwiseDisjoint_iff _).mp (by decide)
/-- the model's result on them (evaluated by the kernel): blocks in place, zeros elsewhere -/
example : concatAll .samp exA [exB, exC] = .ok
    { obs := ["o1", "o2", "o3", "o9"], samp := ["s1", "s2", "s3", "s4", "s5"],
      rows := [[3, 4, 0, 0, 9], [1, 2, 0, 10, 0], [5, 6, 7, 11, 12], [0, 0, 8, 0, 0]],
      omd := some [[("k", "p1")], [("k", "p2")], [], []],
      smd := some [[], [], [("d", "3")], [], []], ttype := some "OTU table" } := by decide +kernel
/-- along the observation axis the same operands share `o3` (and more): refused -/
example : ¬ (axisIdLists .obs [exA, exB, exC]).Pairwise Disj :=
  fun h => absurd ((pairwiseDisjoint_iff _).mpr h) (by decide)
example : concatAll .obs exA [exB, exC] = .error .disjointId := by decide +kernel
example : holds .samp [exA, exB, exC] (concatAll .samp exA [exB, exC]) = true :=
  model_holds_b .samp exA [exB, exC] (by decide)
/-- `holds` is not vacuous: a result whose re-sort was skipped (rows of `exC` left in its own order)
is rejected -/
example : holds .samp [exA, exB, exC] (.ok
    { obs := ["o1", "o2", "o3", "o9"], samp := ["s1", "s2", "s3", "s4", "s5"],
      rows := [[3, 4, 0, 0, 9], [1, 2, 0, 10, 0], [5, 6, 7, 11, 12], [0, 0, 8, 0, 0]].map id,
      omd := some [[("k", "p1")], [("k", "p2")], [], []],
      smd := some [[], [], [("d", "3")], [], []], ttype := some "OTU table" }) = true := by decide +kernel
example : holds .samp [exA, exB, exC] (.ok
    { obs := ["o1", "o2", "o3", "o9"], samp := ["s1", "s2", "s3", "s4", "s5"],
      rows := [[1, 2, 0, 0, 9], [3, 4, 0, 10, 0], [5, 6, 7, 11, 12], [0, 0, 8, 0, 0]],
      omd := some [[("k", "p1")], [("k", "p2")], [], []],
      smd := some [[], [], [("d", "3")], [], []], ttype := some "OTU table" }) = false := by decide +kernel
/-- a single operand (k = 1), observation axis -/
example : concatAll .obs exB [] = .ok { exB with omd := none } := by decide +kernel

end Biom.C10
