/-
  C17 — property theorems.  Every quantifier is unbounded: all grid shapes n, m ≥ 1, all values, all
  ID lists, all encodings of a grid in every accepted form (any number of repeated coordinates and
  explicit zeros, any order), all metadata arguments, all adjacency / uc documents.
-/
import BiomModel.Lemmas.C17

namespace Biom.C17
open Codec

/-- the table the constructor is to produce from an input describing the grid `D` -/
def built (inp : Input) (D : Grid) : Table Rat :=
  { obs := inp.obs, samp := inp.samp, rows := D, omd := mdOut inp.omd, smd := mdOut inp.smd }

/-! ### accepted forms agree -/

/-- **forms_agree.** For every grid `D` (any shape n, m ≥ 1), every value that describes `D` in one
of the accepted forms — whatever the form, however often a coordinate is repeated (the values add
up), wherever zeros are named explicitly — is built into the table with exactly the given IDs, the
grid `D`, and the given (well-formed) metadata. -/
theorem forms_agree (inp : Input) (D : Grid) (n m : Nat)
    (henc : encodes inp.data inp.inputIsDense D n m = true)
    (hlo : inp.obs.length = n) (hls : inp.samp.length = m)
    (hno : inp.obs.Nodup) (hns : inp.samp.Nodup)
    (hmo : mdBad inp.omd inp.obs = false) (hms : mdBad inp.smd inp.samp = false) :
    construct inp = .ok (built inp D) := by
  obtain ⟨_, hn, hm⟩ := encodes_dims _ _ _ _ _ henc
  have hts := toSparse_of_encodes inp.data inp.inputIsDense D n m (inp.obs.length, inp.samp.length) henc
    (Or.inr (by rw [hlo, hls]))
  have ho : inp.obs ≠ [] := by intro e; rw [e] at hlo; simp at hlo; omega
  have hs : inp.samp ≠ [] := by intro e; rw [e] at hls; simp at hls; omega
  simp only [construct, constructWith, hts, bind, Except.bind]
  exact finish_accept ⟨n, m, D⟩ inp.obs inp.samp inp.omd inp.smd ho hs hno hns hlo hls hmo hms

/-- two values describing the same grid, given the same IDs and metadata, give the same table -/
theorem forms_agree_pair (a b : Input) (D : Grid) (n m : Nat)
    (ha : encodes a.data a.inputIsDense D n m = true) (hb : encodes b.data b.inputIsDense D n m = true)
    (hobs : b.obs = a.obs) (hsamp : b.samp = a.samp) (homd : b.omd = a.omd) (hsmd : b.smd = a.smd)
    (hlo : a.obs.length = n) (hls : a.samp.length = m) (hno : a.obs.Nodup) (hns : a.samp.Nodup)
    (hmo : mdBad a.omd a.obs = false) (hms : mdBad a.smd a.samp = false) :
    construct a = construct b := by
  rw [forms_agree a D n m ha hlo hls hno hns hmo hms,
    forms_agree b D n m hb (by rw [hobs, hlo]) (by rw [hsamp, hls]) (by rw [hobs]; exact hno)
      (by rw [hsamp]; exact hns) (by rw [hobs, homd]; exact hmo) (by rw [hsamp, hsmd]; exact hms),
    built, built, hobs, hsamp, homd, hsmd]

/-- an explicitly named zero does not change any cell of a coordinate form -/
theorem explicit_zero_irrelevant (ts : List Triple) (r c i j : Nat) :
    cellSum (ts ++ [(r, c, 0)]) i j = cellSum ts i j := by
  rw [cellSum_append, cellSum_cons, cellSum_nil]
  split <;> simp [Rat.add_zero]

/-- a repeated coordinate adds to its cell and to no other -/
theorem duplicates_summed (ts : List Triple) (r c : Nat) (v : Rat) (i j : Nat) :
    cellSum (ts ++ [(r, c, v)]) i j = if r = i ∧ c = j then cellSum ts i j + v else cellSum ts i j := by
  rw [cellSum_append, cellSum_cons, cellSum_nil]
  split <;> simp [Rat.add_zero]

/-! ### malformed input is rejected -/

/-- either `_to_sparse` hands the described grid on, or (dense nested lists whose shape is not the
announced one) it has already raised the table error -/
theorem construct_cases (inp : Input) (D : Grid) (n m : Nat)
    (henc : encodes inp.data inp.inputIsDense D n m = true)
    (hsh : carriesShape inp.data inp.inputIsDense = true ∨ (inp.obs.length = n ∧ inp.samp.length = m)) :
    construct inp = finish defaultProfile ⟨n, m, D⟩ inp.obs inp.samp inp.omd inp.smd ∨
    (construct inp = .error .tableException ∧ (inp.obs.length ≠ n ∨ inp.samp.length ≠ m)) := by
  by_cases hmatch : (inp.obs.length, inp.samp.length) = (n, m)
  · left
    have hts := toSparse_of_encodes inp.data inp.inputIsDense D n m _ henc (Or.inr hmatch)
    simp only [construct, constructWith, hts, bind, Except.bind]
  · have hcs : carriesShape inp.data inp.inputIsDense = true := by
      rcases hsh with h | h
      · exact h
      · exact absurd (by rw [h.1, h.2]) hmatch
    by_cases hown : ownShape inp.data = true
    · left
      have hts := toSparse_of_encodes inp.data inp.inputIsDense D n m
        (inp.obs.length, inp.samp.length) henc (Or.inl hown)
      simp only [construct, constructWith, hts, bind, Except.bind]
    · right
      have hsz : inp.obs.length ≠ n ∨ inp.samp.length ≠ m := by
        by_cases h1 : inp.obs.length = n
        · right; intro h2; exact hmatch (by rw [h1, h2])
        · left; exact h1
      refine ⟨?_, hsz⟩
      cases hd : inp.data with
      | listList ls =>
        rw [hd] at hcs henc
        have hdense : inp.inputIsDense = true := by simpa [carriesShape] using hcs
        rw [hdense] at henc
        have := toSparse_dense_mismatch ls D n m (inp.obs.length, inp.samp.length) henc hmatch
        simp only [construct, constructWith, hd, hdense, this, bind, Except.bind]
      | dict _ => rw [hd] at hcs; simp [carriesShape] at hcs
      | emptyList => rw [hd] at hcs; simp [carriesShape] at hcs
      | unknown => rw [hd] at henc; simp [encodes] at henc
      | vec _ => rw [hd] at hown; simp [ownShape] at hown
      | arr _ _ _ => rw [hd] at hown; simp [ownShape] at hown
      | listArr _ => rw [hd] at hown; simp [ownShape] at hown
      | listDict _ => rw [hd] at hown; simp [ownShape] at hown
      | listSparse _ => rw [hd] at hown; simp [ownShape] at hown
      | sparse _ => rw [hd] at hown; simp [ownShape] at hown

/-- **reject_dup.** A non-empty table whose observation or sample IDs repeat an ID — anywhere on the
axis — is refused with the table error, for every form of the data. -/
theorem reject_dup (inp : Input) (D : Grid) (n m : Nat)
    (henc : encodes inp.data inp.inputIsDense D n m = true)
    (hsh : carriesShape inp.data inp.inputIsDense = true ∨ (inp.obs.length = n ∧ inp.samp.length = m))
    (ho : inp.obs ≠ []) (hs : inp.samp ≠ []) (hdup : ¬ inp.obs.Nodup ∨ ¬ inp.samp.Nodup) :
    construct inp = .error .tableException := by
  rcases construct_cases inp D n m henc hsh with h | h
  · rw [h]
    apply finish_reject_ids _ _ _ _ _ ho hs
    rcases hdup with h | h
    · exact Or.inl h
    · exact Or.inr (Or.inl h)
  · exact h.1

/-- **reject_size.** A non-empty table whose ID counts disagree with the shape of the matrix (too few
or too many IDs on either axis) is refused with the table error. -/
theorem reject_size (inp : Input) (D : Grid) (n m : Nat)
    (henc : encodes inp.data inp.inputIsDense D n m = true)
    (hcs : carriesShape inp.data inp.inputIsDense = true)
    (ho : inp.obs ≠ []) (hs : inp.samp ≠ []) (hsz : inp.obs.length ≠ n ∨ inp.samp.length ≠ m) :
    construct inp = .error .tableException := by
  rcases construct_cases inp D n m henc (Or.inl hcs) with h | h
  · rw [h]
    apply finish_reject_ids _ _ _ _ _ ho hs
    rcases hsz with h | h
    · exact Or.inr (Or.inr (Or.inl h))
    · exact Or.inr (Or.inr (Or.inr h))
  · exact h.1

/-- **reject_md.** A non-empty table with metadata that is not one mapping-or-null per ID (too short,
too long, or containing an entry that is neither a mapping nor null) is refused with the table
error. -/
theorem reject_md (inp : Input) (D : Grid) (n m : Nat)
    (henc : encodes inp.data inp.inputIsDense D n m = true)
    (hsh : carriesShape inp.data inp.inputIsDense = true ∨ (inp.obs.length = n ∧ inp.samp.length = m))
    (ho : inp.obs ≠ []) (hs : inp.samp ≠ [])
    (hmd : mdBad inp.omd inp.obs = true ∨ mdBad inp.smd inp.samp = true) :
    construct inp = .error .tableException := by
  rcases construct_cases inp D n m henc hsh with h | h
  · rw [h]; exact finish_reject_md _ _ _ _ _ ho hs hmd
  · exact h.1

/-! ### the predicate holds of the model -/

/-- the table `built` shows, through its IDs, exactly the grid and IDs it was given -/
theorem tableIs_built (inp : Input) (D : Grid) (n m : Nat) (hD : gridIs D n m = true)
    (hlo : inp.obs.length = n) (hls : inp.samp.length = m) (hno : inp.obs.Nodup) (hns : inp.samp.Nodup)
    (hmo : mdBad inp.omd inp.obs = false) (hms : mdBad inp.smd inp.samp = false) :
    tableIs (built inp D) inp.obs inp.samp D = true := by
  have hl := (gridIs_iff D n m).mp hD
  simp only [tableIs, built, Bool.and_eq_true, beq_iff_eq, true_and]
  refine ⟨?_, ?_⟩
  · simp only [Table.wfb, Bool.and_eq_true, beq_iff_eq, List.all_eq_true]
    refine ⟨⟨⟨by rw [hl.1, hlo], fun r hr => by rw [hl.2 r hr, hls]⟩, ?_⟩, ?_⟩
    · cases h : mdOut inp.omd with
      | none => rfl
      | some l => simp [mdOut_length _ _ hmo l h]
    · cases h : mdOut inp.smd with
      | none => rfl
      | some l => simp [mdOut_length _ _ hms l h]
  · rw [allCells_iff]
    intro i j hi hj
    rw [beq_iff_eq]
    exact cell_of_grid _ D n m hD rfl hno hns hlo hls i j (by omega) (by omega)

/-- … and the metadata it was given -/
theorem mdIs_built (inp : Input) (D : Grid) (hno : inp.obs.Nodup) (hns : inp.samp.Nodup) :
    mdIs (built inp D) inp = true := by
  simp only [mdIs, built, Bool.and_eq_true, List.all_eq_true, List.mem_range, beq_iff_eq]
  exact ⟨fun i hi => mdOf_spec inp.obs inp.omd hno i hi, fun j hj => mdOf_spec inp.samp inp.smd hns j hj⟩

/-- **independent_model.** What the constructor returns is a value of its own: whatever happens later
(to the object it was built from, to the ID and metadata arguments, to other tables built from the
same object), every later look at it shows the described grid and IDs, by position and by ID. -/
theorem independent_model (inp : Input) (D : Grid) (n m : Nat)
    (henc : encodes inp.data inp.inputIsDense D n m = true)
    (hlo : inp.obs.length = n) (hls : inp.samp.length = m) (hno : inp.obs.Nodup) (hns : inp.samp.Nodup)
    (hmo : mdBad inp.omd inp.obs = false) (hms : mdBad inp.smd inp.samp = false)
    (whats : List String) (kept : List Bool) (hk : kept.all id = true) :
    construct inp = .ok (built inp D) ∧
    holdsIndependent inp D (whats.map (fun w => ⟨w, built inp D, some D⟩)) kept = none := by
  refine ⟨forms_agree inp D n m henc hlo hls hno hns hmo hms, ?_⟩
  obtain ⟨hD, _, _⟩ := encodes_dims _ _ _ _ _ henc
  have hok : ∀ w, stageOk inp D ⟨w, built inp D, some D⟩ = true := by
    intro w
    simp only [stageOk, tableIs_built inp D n m hD hlo hls hno hns hmo hms, mdIs_built inp D hno hns,
      Bool.true_and, hlo, hls, hD]
    rw [allCells_iff]; intro i j _ _; simp
  have hfind : (whats.map (fun w => (⟨w, built inp D, some D⟩ : Stage))).find?
      (fun st => !stageOk inp D st) = none := by
    rw [List.find?_eq_none]
    intro st hst
    rw [List.mem_map] at hst
    obtain ⟨w, _, rfl⟩ := hst
    simp [hok w]
  simp only [holdsIndependent, hfind, hk, chk, if_true]

/-- **profile_empty_irrelevant.** For a non-empty table, a profile that differs from the default one
only in the reaction to `empty` (errstate(empty='raise'/'warn'/'print'/'call')) changes nothing. -/
theorem profile_empty_irrelevant (prof : String → String) (inp : Input)
    (hp : ∀ k, k ≠ "empty" → prof k = defaultProfile k) (ho : inp.obs ≠ []) (hs : inp.samp ≠ []) :
    constructWith prof inp = construct inp := by
  have herr : ∀ (M : Mat) (omd smd : Option (List MdEntry)),
      errcheck prof M inp.obs inp.samp omd smd = errcheck defaultProfile M inp.obs inp.samp omd smd := by
    intro M omd smd
    simp only [errcheck]
    cases hf : kindsSorted.find? (fires M inp.obs inp.samp omd smd) with
    | none => rfl
    | some k =>
      have hfire : fires M inp.obs inp.samp omd smd k = true := List.find?_some hf
      have hne : k ≠ "empty" := by
        intro e
        rw [e] at hfire
        cases hobs : inp.obs with
        | nil => exact ho hobs
        | cons _ _ => cases hsamp : inp.samp with
          | nil => exact hs hsamp
          | cons _ _ => simp [fires, hobs, hsamp] at hfire
      simp only [hp k hne]
  simp only [construct, constructWith]
  cases toSparse inp.data inp.inputIsDense (inp.obs.length, inp.samp.length) with
  | error e => rfl
  | ok M => simp only [bind, Except.bind, finish, herr]

/-- **model_holds.** The constructor part of the property is true of the model on every input whose
data is an accepted encoding of a grid: rejection with the table error in each malformed case,
the grid, IDs and metadata looked up through the IDs otherwise. -/
theorem model_holds (c : Case)
    (henc : encodes c.inp.data c.inp.inputIsDense c.grid c.n c.m = true)
    (hsh : carriesShape c.inp.data c.inp.inputIsDense = true ∨
      (c.inp.obs.length = c.n ∧ c.inp.samp.length = c.m)) :
    holdsConstruct c (construct c.inp) = none := by
  have hpre : (encodes c.inp.data c.inp.inputIsDense c.grid c.n c.m &&
      (carriesShape c.inp.data c.inp.inputIsDense ||
        (c.n == c.inp.obs.length && c.m == c.inp.samp.length))) = true := by
    rw [henc, Bool.true_and]
    rcases hsh with h | h
    · rw [h]; rfl
    · simp [h.1, h.2]
  simp only [holdsConstruct, hpre, Bool.not_true, Bool.false_eq_true, if_false]
  by_cases hempty : (c.inp.obs.isEmpty || c.inp.samp.isEmpty) = true
  · simp [hempty]
  rw [if_neg hempty]
  have ho : c.inp.obs ≠ [] := by intro e; simp [e] at hempty
  have hs : c.inp.samp ≠ [] := by intro e; simp [e] at hempty
  by_cases hd' : ¬ ((distinct c.inp.obs && distinct c.inp.samp) = true)
  · have hd := hd'
    have hdup : ¬ c.inp.obs.Nodup ∨ ¬ c.inp.samp.Nodup := by
      simp only [distinct, Bool.and_eq_true, decide_eq_true_eq] at hd
      by_cases h1 : c.inp.obs.Nodup
      · right; exact fun h2 => hd ⟨h1, h2⟩
      · left; exact h1
    simp [hd, reject_dup c.inp c.grid c.n c.m henc hsh ho hs hdup, isErr_tableException, chk_true]
  have hd := Decidable.not_not.mp hd'
  simp only [hd, Bool.not_true, Bool.false_eq_true, if_false]
  simp only [distinct, Bool.and_eq_true, decide_eq_true_eq] at hd
  by_cases hsz : (c.inp.obs.length != c.n || c.inp.samp.length != c.m) = true
  · have hsz' : c.inp.obs.length ≠ c.n ∨ c.inp.samp.length ≠ c.m := by simpa using hsz
    have hcs : carriesShape c.inp.data c.inp.inputIsDense = true := by
      rcases hsh with h | h
      · exact h
      · rcases hsz' with h' | h'
        · exact absurd h.1 h'
        · exact absurd h.2 h'
    simp [hsz, reject_size c.inp c.grid c.n c.m henc hcs ho hs hsz', isErr_tableException, chk_true]
  rw [if_neg hsz]
  have hlen : c.inp.obs.length = c.n ∧ c.inp.samp.length = c.m := by simpa using hsz
  by_cases hmd : (mdBad c.inp.omd c.inp.obs || mdBad c.inp.smd c.inp.samp) = true
  · have hmd' : mdBad c.inp.omd c.inp.obs = true ∨ mdBad c.inp.smd c.inp.samp = true := by simpa using hmd
    simp [hmd, reject_md c.inp c.grid c.n c.m henc hsh ho hs hmd', isErr_tableException, chk_true]
  rw [if_neg hmd]
  have hmd' : mdBad c.inp.omd c.inp.obs = false ∧ mdBad c.inp.smd c.inp.samp = false := by simpa using hmd
  obtain ⟨hD, _, _⟩ := encodes_dims _ _ _ _ _ henc
  rw [forms_agree c.inp c.grid c.n c.m henc hlen.1 hlen.2 hd.1 hd.2 hmd'.1 hmd'.2]
  have htab : tableIs (built c.inp c.grid) c.inp.obs c.inp.samp c.grid = true :=
    tableIs_built c.inp c.grid c.n c.m hD hlen.1 hlen.2 hd.1 hd.2 hmd'.1 hmd'.2
  have hmdis : mdIs (built c.inp c.grid) c.inp = true := mdIs_built c.inp c.grid hd.1 hd.2
  simp [htab, hmdis, allV, chk, Verdict.and]

/-! ### adjacency lists -/

/-- the grid of an adjacency document: one row per distinct observation, one column per distinct
sample (both in sorted order), each cell the stored values of its coordinates added up -/
def adjGrid (recs : List (String × String × Rat)) : Grid :=
  let oo := sortDedup (recs.map (·.1))
  let so := sortDedup (recs.map (·.2.1))
  tabulate oo.length so.length (cellSum (adjTriples oo so recs))

def adjTable (recs : List (String × String × Rat)) : Table Rat :=
  { obs := sortDedup (recs.map (·.1)), samp := sortDedup (recs.map (·.2.1)), rows := adjGrid recs }

/-- `from_adjacency` on a document with at least one record, all of them well-formed, produces the
table over the sorted ID sets -/
theorem adjacency_table (lines body : List AdjLine) (recs : List (String × String × Rat))
    (hb : adjBody lines = .ok body) (hr : body.mapM adjRecord = .ok recs) (hne : recs ≠ []) :
    fromAdjacency lines = .ok (adjTable recs) := by
  have hoo_mem : ∀ y, y ∈ sortDedup (recs.map (·.1)) ↔ y ∈ recs.map (·.1) := mem_sortDedup _
  have hso_mem : ∀ y, y ∈ sortDedup (recs.map (·.2.1)) ↔ y ∈ recs.map (·.2.1) := mem_sortDedup _
  have hoo_sorted := sortDedup_sorted (recs.map (·.1))
  have hso_sorted := sortDedup_sorted (recs.map (·.2.1))
  obtain ⟨r0, hr0⟩ : ∃ r, r ∈ recs := by
    cases recs with
    | nil => exact absurd rfl hne
    | cons r _ => exact ⟨r, List.mem_cons_self⟩
  have hoo_ne : sortDedup (recs.map (·.1)) ≠ [] := by
    intro e
    have : r0.1 ∈ sortDedup (recs.map (·.1)) := (hoo_mem _).mpr (List.mem_map_of_mem hr0)
    rw [e] at this; cases this
  have hso_ne : sortDedup (recs.map (·.2.1)) ≠ [] := by
    intro e
    have : r0.2.1 ∈ sortDedup (recs.map (·.2.1)) := (hso_mem _).mpr (List.mem_map_of_mem hr0)
    rw [e] at this; cases this
  have hrmem : ∀ r ∈ recs, r.1 ∈ sortDedup (recs.map (·.1)) ∧ r.2.1 ∈ sortDedup (recs.map (·.2.1)) :=
    fun r hr => ⟨(hoo_mem _).mpr (List.mem_map_of_mem hr), (hso_mem _).mpr (List.mem_map_of_mem hr)⟩
  -- the sparse matrix scipy infers from the largest indices
  have hts_ne : (adjTriples (sortDedup (recs.map (·.1))) (sortDedup (recs.map (·.2.1))) recs).isEmpty = false := by
    cases recs with
    | nil => exact absurd rfl hne
    | cons _ _ => simp [adjTriples]
  have hmaxR : maxL ((adjTriples (sortDedup (recs.map (·.1))) (sortDedup (recs.map (·.2.1))) recs).map (·.1)) + 1
      = (sortDedup (recs.map (·.1))).length := by
    have := maxL_idxOf (sortDedup (recs.map (·.1))) (recs.map (·.1)) hoo_sorted hoo_ne
      (fun x hx => (hoo_mem x).mpr hx) (fun y hy => (hoo_mem y).mp hy)
    simpa [adjTriples, List.map_map, Function.comp_def] using this
  have hmaxC : maxL ((adjTriples (sortDedup (recs.map (·.1))) (sortDedup (recs.map (·.2.1))) recs).map (·.2.1)) + 1
      = (sortDedup (recs.map (·.2.1))).length := by
    have := maxL_idxOf (sortDedup (recs.map (·.2.1))) (recs.map (·.2.1)) hso_sorted hso_ne
      (fun x hx => (hso_mem x).mpr hx) (fun y hy => (hso_mem y).mp hy)
    simpa [adjTriples, List.map_map, Function.comp_def] using this
  have hrange : inRange (sortDedup (recs.map (·.1))).length (sortDedup (recs.map (·.2.1))).length
      (adjTriples (sortDedup (recs.map (·.1))) (sortDedup (recs.map (·.2.1))) recs) = true := by
    rw [inRange_iff]
    intro t ht
    simp only [adjTriples, List.mem_map] at ht
    obtain ⟨r, hr, rfl⟩ := ht
    exact ⟨List.idxOf_lt_length_iff.mpr (hrmem r hr).1, List.idxOf_lt_length_iff.mpr (hrmem r hr).2⟩
  have hM : cooArraysToSparse (adjTriples (sortDedup (recs.map (·.1))) (sortDedup (recs.map (·.2.1))) recs) none
      = .ok ⟨(sortDedup (recs.map (·.1))).length, (sortDedup (recs.map (·.2.1))).length, adjGrid recs⟩ := by
    simp only [cooArraysToSparse, hts_ne, Bool.false_eq_true, if_false, hmaxR, hmaxC, cooDense, hrange, if_true, adjGrid]
  have hlen_o : 1 ≤ (sortDedup (recs.map (·.1))).length := by
    cases h : sortDedup (recs.map (·.1)) with
    | nil => exact absurd h hoo_ne
    | cons _ _ => simp
  have hlen_s : 1 ≤ (sortDedup (recs.map (·.2.1))).length := by
    cases h : sortDedup (recs.map (·.2.1)) with
    | nil => exact absurd h hso_ne
    | cons _ _ => simp
  have henc : encodes (.sparse ⟨(sortDedup (recs.map (·.1))).length, (sortDedup (recs.map (·.2.1))).length, adjGrid recs⟩)
      false (adjGrid recs) (sortDedup (recs.map (·.1))).length (sortDedup (recs.map (·.2.1))).length = true := by
    simp only [encodes, adjGrid, gridIs_tabulate, hlen_o, hlen_s, decide_true, beq_self_eq_true, Bool.and_self]
  have hcon := forms_agree
    { data := .sparse ⟨(sortDedup (recs.map (·.1))).length, (sortDedup (recs.map (·.2.1))).length, adjGrid recs⟩,
      obs := sortDedup (recs.map (·.1)), samp := sortDedup (recs.map (·.2.1)) }
    (adjGrid recs) _ _ henc rfl rfl (nodup_of_sorted _ hoo_sorted) (nodup_of_sorted _ hso_sorted) rfl rfl
  simp only [fromAdjacency, hb, hr, bind, Except.bind, hM, hcon]
  rfl

/-- **adjacency_cell.** In the table built from an adjacency list the observation and sample IDs
are the sorted sets of the names used, and the cell of (o, s) is the sum of the values of the
records naming that pair. -/
theorem adjacency_cell (recs : List (String × String × Rat)) (o s : String)
    (ho : o ∈ (adjTable recs).obs) (hs : s ∈ (adjTable recs).samp) :
    (adjTable recs).cell? o s = some (adjSum recs o s) := by
  have hoo_sorted := sortDedup_sorted (recs.map (·.1))
  have hso_sorted := sortDedup_sorted (recs.map (·.2.1))
  simp only [adjTable] at ho hs
  have hi := List.idxOf_lt_length_iff.mpr ho
  have hj := List.idxOf_lt_length_iff.mpr hs
  have hcell := cell_of_grid (adjTable recs) (adjGrid recs) _ _ (gridIs_tabulate _ _ _) rfl
    (nodup_of_sorted _ hoo_sorted) (nodup_of_sorted _ hso_sorted) rfl rfl _ _ hi hj
  simp only [adjTable] at hcell
  rw [getD_idxOf _ o ho, getD_idxOf _ s hs] at hcell
  simp only [adjTable]
  rw [hcell, adjGrid, cellD_tabulate _ _ _ _ _ hi hj]
  rw [cellSum_adjTriples]
  intro r hr
  exact ⟨(mem_sortDedup _ _).mpr (List.mem_map_of_mem hr), (mem_sortDedup _ _).mpr (List.mem_map_of_mem hr)⟩

/-- the ID lists of the adjacency table: strictly increasing, and exactly the names used -/
theorem adjacency_ids (recs : List (String × String × Rat)) :
    (adjTable recs).obs.Pairwise (· < ·) ∧ (adjTable recs).samp.Pairwise (· < ·) ∧
    (∀ o, o ∈ (adjTable recs).obs ↔ o ∈ recs.map (·.1)) ∧
    (∀ s, s ∈ (adjTable recs).samp ↔ s ∈ recs.map (·.2.1)) :=
  ⟨sortDedup_sorted _, sortDedup_sorted _, mem_sortDedup _, mem_sortDedup _⟩

/-! ### uc cluster files -/

/-- a coordinate dictionary with distinct in-range keys, with any distinct IDs (possibly none on an
axis): the constructor produces the table whose cells are the stored values -/
theorem construct_dict (d : Dict) (obs samp : List Id) (hno : obs.Nodup) (hns : samp.Nodup)
    (hk : (d.map (·.1)).Nodup) (hr : ∀ e ∈ d, e.1.1 < obs.length ∧ e.1.2 < samp.length) :
    construct { data := .dict d, obs := obs, samp := samp } =
      .ok { obs := obs, samp := samp,
            rows := tabulate obs.length samp.length (fun i j => (d.lookup (i, j)).getD 0) } := by
  have hrange : inRange obs.length samp.length (dictTriples d) = true := (inRange_dictTriples _ _ d).mpr hr
  have hgrid : tabulate obs.length samp.length (cellSum (dictTriples d)) =
      tabulate obs.length samp.length (fun i j => (d.lookup (i, j)).getD 0) := by
    apply tabulate_eq _ _ _ _ (gridIs_tabulate _ _ _)
    intro i j hi hj
    rw [cellD_tabulate _ _ _ _ _ hi hj, cellSum_dictTriples d hk]
  have hts : toSparse (.dict d) false (obs.length, samp.length) =
      .ok ⟨obs.length, samp.length, tabulate obs.length samp.length (fun i j => (d.lookup (i, j)).getD 0)⟩ := by
    simp only [toSparse, dictToSparse, cooArraysToSparse, cooDense, hrange, if_true, hgrid]
  simp only [construct, constructWith, hts, bind, Except.bind]
  by_cases hempty : obs = [] ∨ samp = []
  · exact finish_empty _ obs samp hempty
  · have ho : obs ≠ [] := fun e => hempty (Or.inl e)
    have hs : samp ≠ [] := fun e => hempty (Or.inr e)
    exact finish_accept _ obs samp none none ho hs hno hns rfl rfl rfl rfl

/-- the table `parse_uc` hands to the constructor -/
def ucTable (st : UcState) : Table Rat :=
  { obs := st.obsIds, samp := st.sampIds,
    rows := tabulate st.obsIds.length st.sampIds.length (fun i j => (st.data.lookup (i, j)).getD 0) }

/-- **uc_cell.** For every uc document whose H/S query labels all contain an underscore, `parse_uc`
produces a table whose observation IDs are the distinct seed labels, whose sample IDs are the
distinct texts before the last underscore of the H/S query labels, and whose cell (seed, sample)
is the number of H/S records of that seed and sample. -/
theorem uc_cell (lines : List (List String)) (recs : List UcRec)
    (hrec : ucRecords lines = .ok recs)
    (hq : ∀ r ∈ recs, isHS r = true → (sampleOf r.query).isSome = true) :
    ∃ t, parseUc lines = .ok t ∧ t.obs.Nodup ∧ t.samp.Nodup ∧
      (∀ o, o ∈ t.obs ↔ ∃ r ∈ recs, r.seed = o) ∧
      (∀ s, s ∈ t.samp ↔ ∃ r ∈ recs, isHS r = true ∧ sampleOf r.query = some s) ∧
      ∀ o ∈ t.obs, ∀ s ∈ t.samp, t.cell? o s = some ((ucCnt recs o s : Nat) : Rat) := by
  obtain ⟨st, hfold, inv⟩ := ucFold_inv recs {} [] ucInv_init hq
  simp only [List.nil_append] at inv
  have hcon := construct_dict st.data st.obsIds st.sampIds inv.nodupO inv.nodupS inv.keys inv.range
  refine ⟨ucTable st, ?_, inv.nodupO, inv.nodupS, inv.seeds, inv.samples, ?_⟩
  · simp only [parseUc, hrec, hfold, bind, Except.bind, hcon, ucTable]
  · intro o ho s hs
    have ho : o ∈ st.obsIds := ho
    have hs : s ∈ st.sampIds := hs
    have hi := List.idxOf_lt_length_iff.mpr ho
    have hj := List.idxOf_lt_length_iff.mpr hs
    have hcell := cell_of_grid (ucTable st)
      _ _ _ (gridIs_tabulate _ _ _) rfl inv.nodupO inv.nodupS rfl rfl _ _ hi hj
    simp only [ucTable] at hcell ⊢
    rw [getD_idxOf _ o ho, getD_idxOf _ s hs] at hcell
    rw [hcell, cellD_tabulate _ _ _ _ _ hi hj]
    exact congrArg some (inv.count o ho s hs)

/-- the sample of a query label `s_x` is `s`: everything before the LAST underscore -/
theorem sampleOf_spec (s x : String) (h : '_' ∉ x.toList) :
    sampleOf (String.ofList (s.toList ++ '_' :: x.toList)) = some s := by
  simp only [sampleOf, String.toList_ofList, beforeLast_spec s.toList x.toList h, Option.map_some,
    String.ofList_toList]

/-- a label without any underscore has no sample (the importer refuses the file) -/
theorem sampleOf_none (q : String) (h : '_' ∉ q.toList) : sampleOf q = none := by
  simp only [sampleOf, (beforeLast_none q.toList).mpr h, Option.map_none]

/-- `from-uc` with a fasta map: the table of `parse_uc` with every seed label replaced by the label
the map gives it (a later fasta line wins); cells, samples and order are untouched -/
theorem fromUc_renames (lines : List (List String)) (fasta : List String) (t t' : Table Rat)
    (ht : parseUc lines = .ok t) (ht' : fromUc lines (some fasta) = .ok t') :
    ∃ m, fastaMap fasta = .ok m ∧ t.obs.mapM (mapGet m) = some t'.obs ∧ t'.obs.Nodup ∧
      t'.samp = t.samp ∧ t'.rows = t.rows := by
  simp only [fromUc, ht, bind, Except.bind] at ht'
  cases hm : fastaMap fasta with
  | error e => simp [hm] at ht'
  | ok m =>
    simp only [hm, renameObs] at ht'
    refine ⟨m, rfl, ?_⟩
    cases hids : t.obs.mapM (mapGet m) with
    | none => simp [hids] at ht'
    | some ids =>
      simp only [hids] at ht'
      split at ht'
      · cases ht'
      · rename_i hd
        cases ht'
        refine ⟨rfl, ?_, rfl, rfl⟩
        simp only []
        by_cases hn : ids.Nodup
        · exact hn
        · have := dedup_length_lt ids hn
          exact absurd (by omega) hd

/-! ### the adjacency predicate holds of the model -/

theorem adjTable_wfb (recs : List (String × String × Rat)) : (adjTable recs).wfb = true := by
  simp only [Table.wfb, adjTable, adjGrid, tabulate_length, beq_self_eq_true, Bool.true_and, Bool.and_true]
  have := (gridIs_iff _ _ _).mp (gridIs_tabulate (sortDedup (recs.map (·.1))).length
    (sortDedup (recs.map (·.2.1))).length
    (cellSum (adjTriples (sortDedup (recs.map (·.1))) (sortDedup (recs.map (·.2.1))) recs)))
  simpa [List.all_eq_true] using this.2

theorem holdsAdj_accept (lines : List AdjLine) (recs : List (String × String × Rat))
    (hres : fromAdjacency lines = .ok (adjTable recs)) :
    (match fromAdjacency lines with
     | .error _ => some "adjacency_accept"
     | .ok t => allV [
        chk "adjacency_ids" (sortedB t.obs && sortedB t.samp && sameMembers t.obs (recs.map (·.1)) &&
          sameMembers t.samp (recs.map (·.2.1)) && t.wfb),
        chk "adjacency_cell" (t.obs.all fun o => t.samp.all fun s => t.cell? o s == some (adjSum recs o s))]) = none := by
  rw [hres]
  obtain ⟨h1, h2, h3, h4⟩ := adjacency_ids recs
  have hids : (sortedB (adjTable recs).obs && sortedB (adjTable recs).samp &&
      sameMembers (adjTable recs).obs (recs.map (·.1)) && sameMembers (adjTable recs).samp (recs.map (·.2.1)) &&
      (adjTable recs).wfb) = true := by
    rw [sortedB_of_pairwise _ h1, sortedB_of_pairwise _ h2, sameMembers_of_iff _ _ h3,
      sameMembers_of_iff _ _ h4, adjTable_wfb]; rfl
  have hcells : ((adjTable recs).obs.all fun o => (adjTable recs).samp.all fun s =>
      (adjTable recs).cell? o s == some (adjSum recs o s)) = true := by
    rw [List.all_eq_true]; intro o ho
    rw [List.all_eq_true]; intro s hs
    rw [adjacency_cell recs o s ho hs]; simp
  simp only [hids, hcells, allV, chk, Verdict.and, List.foldl, if_true]

theorem fromAdjacency_no_records (lines : List AdjLine) (h : adjBody lines = .ok []) :
    noTable (fromAdjacency lines) = true := by
  simp [fromAdjacency, h, bind, Except.bind, List.mapM_nil, pure, Except.pure, adjTriples, cooArraysToSparse, noTable]

theorem fromAdjacency_bad_record (lines body : List AdjLine) (h : adjBody lines = .ok body)
    (hv : body.all adjValid = false) : noTable (fromAdjacency lines) = true := by
  obtain ⟨e, he⟩ := mapM_adjRecord_err body hv
  simp [fromAdjacency, h, bind, Except.bind, he, noTable]

theorem fromAdjacency_good (lines body : List AdjLine) (h : adjBody lines = .ok body)
    (hne : body.isEmpty = false) (hv : body.all adjValid = true) :
    fromAdjacency lines = .ok (adjTable (body.map adjRecOf)) := by
  apply adjacency_table lines body _ h (mapM_adjRecord_ok body hv)
  intro e
  cases body with
  | nil => simp at hne
  | cons _ _ => simp at e

/-- **adj_model_holds.** The adjacency part of the property is true of the model on every document:
a document without records or with a malformed line gives no table; every other document gives
the table over the sorted ID sets whose cells are the sums of the records naming them. -/
theorem adj_model_holds (lines : List AdjLine) : holdsAdj lines (fromAdjacency lines) = none := by
  cases lines with
  | nil => simp [holdsAdj, fromAdjacency, adjBody, bind, Except.bind, noTable, chk]
  | cons l0 rest =>
    simp only [holdsAdj]
    by_cases hh : (l0.fields == adjHeader) = true
    · have hf : l0.fields = adjHeader := by simpa using hh
      have hbody : adjBody (l0 :: rest) = .ok rest := by
        simp [adjBody, hf, adjHeader]
      simp only [hh, if_true]
      by_cases hbad : (rest.isEmpty || !rest.all adjValid) = true
      · rw [if_pos hbad]
        simp only [Bool.or_eq_true, Bool.not_eq_true'] at hbad
        rcases hbad with he | hv
        · have : rest = [] := by simpa using he
          subst this
          rw [fromAdjacency_no_records _ hbody]; rfl
        · rw [fromAdjacency_bad_record _ rest hbody hv]; rfl
      · rw [if_neg hbad]
        simp only [Bool.or_eq_true, Bool.not_eq_true', not_or, Bool.not_eq_true, Bool.not_eq_false] at hbad
        exact holdsAdj_accept _ _ (fromAdjacency_good _ rest hbody hbad.1 hbad.2)
    · have hf : l0.fields ≠ adjHeader := by simpa using hh
      simp only [hh, Bool.false_eq_true, if_false]
      by_cases hbad : ((l0 :: rest).isEmpty || !(l0 :: rest).all adjValid) = true
      · rw [if_pos hbad]
        have hv : (l0 :: rest).all adjValid = false := by
          cases hx : (l0 :: rest).all adjValid with
          | false => rfl
          | true => rw [hx] at hbad; simp at hbad
        by_cases h3 : l0.fields.length = 3
        · cases hn : l0.num with
          | none => simp [fromAdjacency, adjBody, h3, hf, hn, bind, Except.bind, noTable, chk]
          | some v =>
            have hbody : adjBody (l0 :: rest) = .ok (l0 :: rest) := by simp [adjBody, h3, hf, hn]
            rw [fromAdjacency_bad_record _ _ hbody hv]; rfl
        · simp [fromAdjacency, adjBody, h3, bind, Except.bind, noTable, chk]
      · rw [if_neg hbad]
        have hv : (l0 :: rest).all adjValid = true := by
          cases hx : (l0 :: rest).all adjValid with
          | true => rfl
          | false => rw [hx] at hbad; simp at hbad
        have hv0 : adjValid l0 = true := by
          simp only [List.all_cons, Bool.and_eq_true] at hv; exact hv.1
        simp only [adjValid, Bool.and_eq_true, beq_iff_eq] at hv0
        have hbody : adjBody (l0 :: rest) = .ok (l0 :: rest) := by
          simp [adjBody, hv0.1, hf, hv0.2]
        exact holdsAdj_accept _ _ (fromAdjacency_good _ _ hbody rfl hv)

/-! ### the uc predicate holds of the model -/

theorem isSampleOf_iff (q s : String) : isSampleOf q s = true ↔ sampleOf q = some s := by
  constructor
  · intro h
    simp only [isSampleOf, Bool.and_eq_true] at h
    obtain ⟨hp, hd⟩ := h
    have hpre : s.toList <+: q.toList := List.isPrefixOf_iff_prefix.mp hp
    obtain ⟨t, ht⟩ := hpre
    rw [← ht, List.drop_left] at hd
    cases t with
    | nil => simp at hd
    | cons c rest =>
      by_cases hc : c = '_'
      · subst hc
        have hn : '_' ∉ rest := by simpa using hd
        simp only [sampleOf, ← ht, beforeLast_spec s.toList rest hn, Option.map_some, String.ofList_toList]
      · exfalso
        split at hd
        · rename_i heq
          exact hc (List.cons.inj heq).1
        · cases hd
  · intro h
    simp only [sampleOf, Option.map_eq_some_iff] at h
    obtain ⟨p, hp, hs⟩ := h
    obtain ⟨rest, hq, hn⟩ := beforeLast_some q.toList p hp
    have hsl : s.toList = p := by rw [← hs, String.toList_ofList]
    simp only [isSampleOf, hsl, hq, Bool.and_eq_true]
    refine ⟨List.isPrefixOf_iff_prefix.mpr (List.prefix_append _ _), ?_⟩
    rw [List.drop_left]
    simpa using hn

theorem ucCount_some (recs : List UcRec) (o s : String) :
    ucCount (fun x => some x) recs o s = ((ucCnt recs o s : Nat) : Rat) := by
  simp only [ucCount, ucCnt]
  congr 2
  apply List.filter_congr
  intro r _
  have e1 : (some r.seed == some o) = (r.seed == o) := by
    by_cases h : r.seed = o <;> simp [h]
  have e2 : isSampleOf r.query s = (sampleOf r.query == some s) := by
    cases hb : isSampleOf r.query s with
    | true => simp [(isSampleOf_iff _ _).mp hb]
    | false =>
      have : ¬ sampleOf r.query = some s := fun e => by rw [(isSampleOf_iff _ _).mpr e] at hb; cases hb
      simp [this]
  rw [e1, e2]

theorem ucTable_wfb (st : UcState) : (ucTable st).wfb = true := by
  simp only [Table.wfb, ucTable, tabulate_length, beq_self_eq_true, Bool.true_and, Bool.and_true]
  have := (gridIs_iff _ _ _).mp (gridIs_tabulate st.obsIds.length st.sampIds.length
    (fun i j => (st.data.lookup (i, j)).getD 0))
  simpa [List.all_eq_true] using this.2

theorem ucTable_cell (st : UcState) (recs : List UcRec) (inv : UcInv st recs) :
    ∀ o ∈ st.obsIds, ∀ s ∈ st.sampIds, (ucTable st).cell? o s = some ((ucCnt recs o s : Nat) : Rat) := by
  intro o ho s hs
  have hi := List.idxOf_lt_length_iff.mpr ho
  have hj := List.idxOf_lt_length_iff.mpr hs
  have hcell := cell_of_grid (ucTable st)
    _ _ _ (gridIs_tabulate _ _ _) rfl inv.nodupO inv.nodupS rfl rfl _ _ hi hj
  simp only [ucTable] at hcell ⊢
  rw [getD_idxOf _ o ho, getD_idxOf _ s hs] at hcell
  rw [hcell, cellD_tabulate _ _ _ _ _ hi hj]
  exact congrArg some (inv.count o ho s hs)

/-- the table after renaming the seeds through `g` -/
def renamed (st : UcState) (g : String → String) : Table Rat :=
  { ucTable st with obs := st.obsIds.map g }

/-- the checks of `holdsUc` on the renamed table, for any labelling that is injective on the seeds -/
theorem uc_checks (recs : List UcRec) (st : UcState) (inv : UcInv st recs)
    (hq : ∀ r ∈ recs, isHS r = true → (sampleOf r.query).isSome = true)
    (label : String → Option String) (g : String → String)
    (hlab : ∀ o ∈ st.obsIds, label o = some (g o))
    (hinj : ∀ a ∈ st.obsIds, ∀ b ∈ st.obsIds, g a = g b → a = b) :
    allV [
      chk "uc_ids" (distinct (renamed st g).obs && distinct (renamed st g).samp &&
        (renamed st g).obs.all (fun o => recs.any (fun r => label r.seed == some o)) &&
        recs.all (fun r => (renamed st g).obs.any (fun o => label r.seed == some o)) &&
        (recs.filter isHS).all (fun r => (renamed st g).samp.any (isSampleOf r.query)) &&
        (renamed st g).samp.all (fun s => (recs.filter isHS).any (fun r => isSampleOf r.query s)) &&
        (renamed st g).wfb),
      chk "uc_cell" ((renamed st g).obs.all fun o => (renamed st g).samp.all fun s =>
        (renamed st g).cell? o s == some (ucCount label recs o s))] = none := by
  have hseed : ∀ r ∈ recs, r.seed ∈ st.obsIds := fun r hr => (inv.seeds r.seed).mpr ⟨r, hr, rfl⟩
  have hids : (distinct (renamed st g).obs && distinct (renamed st g).samp &&
      (renamed st g).obs.all (fun o => recs.any (fun r => label r.seed == some o)) &&
      recs.all (fun r => (renamed st g).obs.any (fun o => label r.seed == some o)) &&
      (recs.filter isHS).all (fun r => (renamed st g).samp.any (isSampleOf r.query)) &&
      (renamed st g).samp.all (fun s => (recs.filter isHS).any (fun r => isSampleOf r.query s)) &&
      (renamed st g).wfb) = true := by
    simp only [Bool.and_eq_true]
    refine ⟨⟨⟨⟨⟨⟨?_, ?_⟩, ?_⟩, ?_⟩, ?_⟩, ?_⟩, ?_⟩
    · simp only [distinct, renamed]
      exact decide_eq_true (nodup_map_of_inj g _ inv.nodupO hinj)
    · simp only [distinct, renamed, ucTable]; exact decide_eq_true inv.nodupS
    · rw [List.all_eq_true]; intro o ho
      simp only [renamed, List.mem_map] at ho
      obtain ⟨o0, ho0, rfl⟩ := ho
      obtain ⟨r, hr, e⟩ := (inv.seeds o0).mp ho0
      rw [List.any_eq_true]
      exact ⟨r, hr, by rw [e, hlab o0 ho0]; simp⟩
    · rw [List.all_eq_true]; intro r hr
      rw [List.any_eq_true]
      refine ⟨g r.seed, ?_, by rw [hlab _ (hseed r hr)]; simp⟩
      simp only [renamed]; exact List.mem_map_of_mem (hseed r hr)
    · rw [List.all_eq_true]; intro r hr
      rw [List.mem_filter] at hr
      obtain ⟨s, hs⟩ := Option.isSome_iff_exists.mp (hq r hr.1 hr.2)
      rw [List.any_eq_true]
      exact ⟨s, (inv.samples s).mpr ⟨r, hr.1, hr.2, hs⟩, (isSampleOf_iff _ _).mpr hs⟩
    · rw [List.all_eq_true]; intro s hs
      obtain ⟨r, hr, hh, e⟩ := (inv.samples s).mp hs
      rw [List.any_eq_true]
      exact ⟨r, List.mem_filter.mpr ⟨hr, hh⟩, (isSampleOf_iff _ _).mpr e⟩
    · have := ucTable_wfb st
      simpa [Table.wfb, renamed, ucTable] using this
  have hcell : ((renamed st g).obs.all fun o => (renamed st g).samp.all fun s =>
      (renamed st g).cell? o s == some (ucCount label recs o s)) = true := by
    rw [List.all_eq_true]; intro o ho
    rw [List.all_eq_true]; intro s hs
    simp only [renamed, List.mem_map] at ho
    obtain ⟨o0, ho0, rfl⟩ := ho
    have hs' : s ∈ st.sampIds := hs
    have h1 : (renamed st g).cell? (g o0) s = (ucTable st).cell? o0 s := by
      simp only [Table.cell?, Table.row?, renamed, ucTable]
      rw [lookupBy_map_inj g st.obsIds _ o0 hinj ho0]
    have h2 : ucCount label recs (g o0) s = ((ucCnt recs o0 s : Nat) : Rat) := by
      simp only [ucCount, ucCnt]
      congr 2
      apply List.filter_congr
      intro r hr
      have e1 : (label r.seed == some (g o0)) = (r.seed == o0) := by
        rw [hlab _ (hseed r hr)]
        by_cases h : r.seed = o0
        · simp [h]
        · have : ¬ g r.seed = g o0 := fun e => h (hinj _ (hseed r hr) _ ho0 e)
          rw [show (some (g r.seed) == some (g o0)) = (g r.seed == g o0) by simp,
            beq_eq_false_iff_ne.mpr this, beq_eq_false_iff_ne.mpr h]
      have e2 : isSampleOf r.query s = (sampleOf r.query == some s) := by
        cases hb : isSampleOf r.query s with
        | true => simp [(isSampleOf_iff _ _).mp hb]
        | false =>
          have : ¬ sampleOf r.query = some s := fun e => by rw [(isSampleOf_iff _ _).mpr e] at hb; cases hb
          simp [this]
      rw [e1, e2]
    rw [h1, h2, ucTable_cell st recs inv o0 ho0 s hs']; simp
  simp only [hids, hcell, allV, chk, Verdict.and, List.foldl, if_true]

theorem renamed_id (st : UcState) : renamed st (fun x => x) = ucTable st := by
  simp [renamed, ucTable]

theorem renameObs_ok (st : UcState) (m : List (String × String))
    (hall : ∀ o ∈ st.obsIds, (mapGet m o).isSome = true)
    (hnd : (st.obsIds.map (fun o => (mapGet m o).getD "")).Nodup) :
    renameObs (ucTable st) m = .ok (renamed st (fun o => (mapGet m o).getD "")) := by
  have hmap : (ucTable st).obs.mapM (mapGet m) = some (st.obsIds.map (fun o => (mapGet m o).getD "")) :=
    mapM_option_some (mapGet m) st.obsIds hall
  simp only [renameObs, hmap, dedup_of_nodup _ hnd, ne_eq, not_true_eq_false, if_false, renamed]

theorem renameObs_err (st : UcState) (m : List (String × String))
    (h : (∃ o ∈ st.obsIds, mapGet m o = none) ∨
         ¬ (st.obsIds.map (fun o => (mapGet m o).getD "")).Nodup) :
    ∃ e, renameObs (ucTable st) m = .error e := by
  simp only [renameObs]
  by_cases hall : ∀ o ∈ st.obsIds, (mapGet m o).isSome = true
  · have hmap : (ucTable st).obs.mapM (mapGet m) = some (st.obsIds.map (fun o => (mapGet m o).getD "")) :=
      mapM_option_some (mapGet m) st.obsIds hall
    have hnd : ¬ (st.obsIds.map (fun o => (mapGet m o).getD "")).Nodup := by
      rcases h with ⟨o, ho, hn⟩ | h
      · have := hall o ho; rw [hn] at this; cases this
      · exact h
    have := dedup_length_lt _ hnd
    simp only [hmap]
    rw [if_pos (by omega)]
    exact ⟨_, rfl⟩
  · have : ∃ o ∈ st.obsIds, mapGet m o = none := by
      apply Classical.byContradiction
      intro hc
      apply hall
      intro o ho
      cases hx : mapGet m o with
      | some _ => rfl
      | none => exact absurd ⟨o, ho, hx⟩ hc
    have hmap : (ucTable st).obs.mapM (mapGet m) = none := mapM_option_none (mapGet m) st.obsIds this
    simp only [hmap]
    exact ⟨_, rfl⟩

/-- **uc_model_holds.** The uc part of the property is true of the model on every document and every
fasta file (or none): a malformed H/S/L line, an H/S query label without underscore, a malformed
fasta header, a seed without a label or two seeds with the same label give no table; otherwise the
table has one row per distinct seed (under its label), one column per distinct sample, and the
numbers of H/S records as cells. -/
theorem uc_model_holds (lines : List (List String)) (fasta : Option (List String)) :
    holdsUc lines fasta (fromUc lines fasta) = none := by
  simp only [holdsUc]
  cases hrec : ucRecords lines with
  | error e =>
    have : fromUc lines fasta = .error e := by simp [fromUc, parseUc, hrec, bind, Except.bind]
    simp [this, noTable, chk]
  | ok recs =>
    simp only []
    by_cases hbad : (recs.any (fun r => isHS r && !r.query.toList.contains '_')) = true
    · rw [if_pos hbad]
      rw [List.any_eq_true] at hbad
      obtain ⟨r, hr, hc⟩ := hbad
      simp only [Bool.and_eq_true, Bool.not_eq_true', List.contains_eq_mem, decide_eq_false_iff_not] at hc
      have hnone : sampleOf r.query = none := sampleOf_none r.query hc.2
      obtain ⟨e, he⟩ := ucFold_err recs {} ⟨r, hr, hc.1, hnone⟩
      have : fromUc lines fasta = .error e := by simp [fromUc, parseUc, hrec, bind, Except.bind, he]
      simp [this, noTable, chk]
    · rw [if_neg hbad]
      have hq : ∀ r ∈ recs, isHS r = true → (sampleOf r.query).isSome = true := by
        intro r hr hh
        rw [sampleOf_isSome_iff]
        by_cases hm : '_' ∈ r.query.toList
        · exact hm
        · exfalso; apply hbad
          rw [List.any_eq_true]
          exact ⟨r, hr, by simp [hh, hm]⟩
      obtain ⟨st, hfold, inv⟩ := ucFold_inv recs {} [] ucInv_init hq
      simp only [List.nil_append] at inv
      have hcon := construct_dict st.data st.obsIds st.sampIds inv.nodupO inv.nodupS inv.keys inv.range
      have hres : parseUc lines = .ok (ucTable st) := by
        simp only [parseUc, hrec, hfold, bind, Except.bind, hcon, ucTable]
      have hseed : ∀ r ∈ recs, r.seed ∈ st.obsIds := fun r hr => (inv.seeds r.seed).mpr ⟨r, hr, rfl⟩
      cases fasta with
      | none =>
        have hfrom : fromUc lines none = .ok (ucTable st) := by simp [fromUc, hres, bind, Except.bind, pure, Except.pure]
        simp only [Option.map_none, labelsOk_some, Bool.not_true, Bool.false_eq_true, if_false, hfrom]
        have := uc_checks recs st inv hq (fun x => some x) (fun x => x) (fun _ _ => rfl) (fun _ _ _ _ e => e)
        rw [renamed_id] at this
        exact this
      | some fl =>
        simp only [Option.map_some]
        cases hm : fastaMap fl with
        | error e =>
          have : fromUc lines (some fl) = .error e := by simp [fromUc, hres, hm, bind, Except.bind]
          simp [this, noTable, chk]
        | ok m =>
          have hfrom : fromUc lines (some fl) = renameObs (ucTable st) m := by
            simp [fromUc, hres, hm, bind, Except.bind]
          simp only [hfrom]
          by_cases hok : labelsOk (mapGet m) recs = true
          · simp only [hok, Bool.not_true, Bool.false_eq_true, if_false]
            simp only [labelsOk, Bool.and_eq_true, List.all_eq_true, Bool.or_eq_true, bne_iff_ne, ne_eq,
              beq_iff_eq] at hok
            have hall : ∀ o ∈ st.obsIds, (mapGet m o).isSome = true := by
              intro o ho
              obtain ⟨r, hr, e⟩ := (inv.seeds o).mp ho
              rw [← e]; exact hok.1 r hr
            have hlab : ∀ o ∈ st.obsIds, mapGet m o = some ((mapGet m o).getD "") := by
              intro o ho
              obtain ⟨y, hy⟩ := Option.isSome_iff_exists.mp (hall o ho)
              simp [hy]
            have hinj : ∀ a ∈ st.obsIds, ∀ b ∈ st.obsIds,
                (mapGet m a).getD "" = (mapGet m b).getD "" → a = b := by
              intro a ha b hb e
              obtain ⟨r1, hr1, e1⟩ := (inv.seeds a).mp ha
              obtain ⟨r2, hr2, e2⟩ := (inv.seeds b).mp hb
              rcases hok.2 r1 hr1 r2 hr2 with h | h
              · exfalso; apply h
                rw [e1, e2, hlab a ha, hlab b hb, e]
              · rw [← e1, ← e2]; exact h
            rw [renameObs_ok st m hall (nodup_map_of_inj _ _ inv.nodupO hinj)]
            exact uc_checks recs st inv hq (mapGet m) _ hlab hinj
          · have hok' : labelsOk (mapGet m) recs = false := by
              cases hx : labelsOk (mapGet m) recs with
              | false => rfl
              | true => exact absurd hx hok
            simp only [hok', Bool.not_false, if_true]
            have herr : ∃ e, renameObs (ucTable st) m = .error e := by
              apply renameObs_err
              by_cases hall : ∀ o ∈ st.obsIds, (mapGet m o).isSome = true
              · right
                intro hnd
                have hinj := inj_of_nodup_map _ _ hnd
                have : labelsOk (mapGet m) recs = true := by
                  simp only [labelsOk, Bool.and_eq_true, List.all_eq_true, Bool.or_eq_true, bne_iff_ne,
                    ne_eq, beq_iff_eq]
                  refine ⟨fun r hr => hall _ (hseed r hr), ?_⟩
                  intro r1 hr1 r2 hr2
                  by_cases hl : mapGet m r1.seed = mapGet m r2.seed
                  · right
                    exact hinj _ (hseed r1 hr1) _ (hseed r2 hr2) (by simp only [hl])
                  · left; exact hl
                rw [this] at hok'; cases hok'
              · left
                apply Classical.byContradiction
                intro hc
                apply hall
                intro o ho
                cases hx : mapGet m o with
                | some _ => rfl
                | none => exact absurd ⟨o, ho, hx⟩ hc
            obtain ⟨e, he⟩ := herr
            simp [he, noTable, chk]

/-! ### non-vacuity: concrete inputs meet the hypotheses, and the conclusions are not trivial -/

def demoGrid : Grid := [[1, 0, 2], [0, 3, 0]]
/-- triples with a repeated coordinate (1 + 2 = 3 at (1,1)) and an explicit zero, in no order -/
def demoTriples : Data := .listList [[0, 0, 1], [1, 1, 1], [0, 2, 2], [1, 1, 2], [0, 1, 0]]
def demoDict : Data := .dict [((0, 0), 1), ((0, 2), 2), ((1, 1), 3), ((1, 0), 0)]
def demoRowDicts : Data := .listDict [[((0, 0), 1), ((0, 2), 2)], [((0, 1), 3)]]
def demoColDicts : Data := .listDict [[((0, 0), 1)], [((1, 0), 3)], [((0, 0), 2)]]
def demoSparseRows : Data := .listSparse [⟨1, 3, [[1, 0, 2]]⟩, ⟨1, 3, [[0, 3, 0]]⟩]
def demoInput (d : Data) (dense : Bool := false) : Input :=
  { data := d, obs := ["O1", "O2"], samp := ["S1", "S2", "S3"],
    omd := some [.map [("k", "1")], .null], inputIsDense := dense }

example : encodes demoTriples false demoGrid 2 3 = true := by decide +kernel
example : encodes demoDict false demoGrid 2 3 = true := by decide +kernel
example : encodes demoRowDicts false demoGrid 2 3 = true := by decide +kernel
example : encodes demoColDicts false demoGrid 2 3 = true := by decide +kernel
example : encodes demoSparseRows false demoGrid 2 3 = true := by decide +kernel
example : encodes (.listList demoGrid) true demoGrid 2 3 = true := by decide +kernel
example : encodes (.arr 2 3 demoGrid) false demoGrid 2 3 = true := by decide +kernel
example : mdBad (demoInput demoDict).omd (demoInput demoDict).obs = false := by decide
/-- the produced table really carries the grid and the metadata -/
example : sameResult (construct (demoInput demoTriples)) (.ok (built (demoInput demoTriples) demoGrid)) = true := by
  decide +kernel
example : (built (demoInput demoTriples) demoGrid).cell? "O2" "S2" = some 3 := by decide +kernel
example : (built (demoInput demoTriples) demoGrid).mdOf? .obs "O1" = some [("k", "1")] := by decide +kernel
/-- duplicate ID, too few IDs, metadata too short, a non-mapping entry: all refused -/
example : isErr (construct { demoInput demoColDicts with obs := ["O1", "O1"] }) .tableException = true := by
  decide +kernel
example : isErr (construct { demoInput demoSparseRows with samp := ["S1", "S2"], omd := none }) .tableException = true := by
  decide +kernel
example : isErr (construct { demoInput demoDict with omd := some [.null] }) .tableException = true := by
  decide +kernel
example : isErr (construct { demoInput demoDict with smd := some [.null, .other, .null] }) .tableException = true := by
  decide +kernel
/-- the inputs on which the unrepaired constructor produced a table -/
example : isErr (construct { data := .listList [[1, 2], [0, 0]], obs := ["a"], samp := ["x", "y"], inputIsDense := true })
    .tableException = true := by decide +kernel
/-- an adjacency document with a repeated pair and a uc label with two underscores -/
example : (fromAdjacency [⟨["#OTU ID", "SampleID", "value"], none⟩, ⟨["a", "b", "1"], some 1⟩,
    ⟨["a", "c", "2"], some 2⟩, ⟨["d", "c", "3"], some 3⟩, ⟨["a", "b", "4"], some 4⟩]).toOption.bind
      (·.cell? "a" "b") = some 5 := by decide +kernel
example : sampleOf "f3_a_43" = some "f3_a" := by decide +kernel
example : (parseUc [["S", "0", "1", "*", "*", "*", "*", "*", "f2_1539", "*"],
    ["H", "0", "1", "9", "+", "0", "0", "1M", "f3_a_43 extra", "f2_1539"],
    ["H", "0", "1", "9", "+", "0", "0", "1M", "f3_a_44", "f2_1539"]]).toOption.bind
      (·.cell? "f2_1539" "f3_a") = some 2 := by decide +kernel

end Biom.C17
