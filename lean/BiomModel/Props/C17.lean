/-
  C17 — property theorems.  Every quantifier is unbounded: all grid shapes n, m ≥ 1, all values, all
  ID lists, all encodings of a grid in every accepted form (any number of repeated coordinates and
  explicit zeros, any order), all metadata arguments, all adjacency / uc documents.
-/
import BiomModel.Lemmas.C17

namespace Biom.C17
open Codec

/-- the table the constructor is to produce from an input describing the grid `D` -/
def built (inp : Input) (D : Grid) : Table Rat :=
  { obs := inp.obs, samp := inp.samp, rows := D, omd := mdOut inp.omd, smd := mdOut inp.smd }

/-! ### looking a produced table up through its IDs -/

theorem lookupBy_getD {β : Type} (ids : List Id) (xs : List β) (i : Nat) (hn : ids.Nodup) (hi : i < ids.length) :
    lookupBy ids xs (ids.getD i "") = xs[i]? := by
  induction ids generalizing xs i with
  | nil => simp at hi
  | cons a as ih =>
    rw [List.nodup_cons] at hn
    cases i with
    | zero =>
      cases xs with
      | nil => simp [lookupBy]
      | cons x xs' => simp [lookupBy]
    | succ i' =>
      have hi' : i' < as.length := by simpa using hi
      have hmem : as.getD i' "" ∈ as := by
        rw [List.getD_eq_getElem?_getD, List.getElem?_eq_getElem hi']; exact List.getElem_mem hi'
      have hne : a ≠ as.getD i' "" := fun e => hn.1 (e ▸ hmem)
      cases xs with
      | nil => simp [lookupBy]
      | cons x xs' =>
        simp only [List.getD_cons_succ, lookupBy, hne, if_false, List.getElem?_cons_succ]
        exact ih xs' i' hn.2 hi'

theorem cell_of_grid (t : Table Rat) (D : Grid) (n m : Nat) (hD : gridIs D n m = true) (hrows : t.rows = D)
    (hno : t.obs.Nodup) (hns : t.samp.Nodup) (hlo : t.obs.length = n) (hls : t.samp.length = m)
    (i j : Nat) (hi : i < n) (hj : j < m) :
    t.cell? (t.obs.getD i "") (t.samp.getD j "") = some (cellD D i j) := by
  have hl := (gridIs_iff D n m).mp hD
  have hiD : i < D.length := by omega
  have hrow : (D[i]).length = m := hl.2 _ (List.getElem_mem hiD)
  have hjr : j < (D[i]).length := by omega
  simp only [Table.cell?, Table.row?, hrows]
  rw [lookupBy_getD t.obs D i hno (by omega), List.getElem?_eq_getElem hiD]
  simp only [Option.bind_some]
  rw [lookupBy_getD t.samp (D[i]) j hns (by omega), List.getElem?_eq_getElem hjr]
  simp [cellD, List.getD_eq_getElem?_getD, hiD, hjr]

/-! ### accepted forms agree -/

theorem encodes_dims (d : Data) (dense : Bool) (D : Grid) (n m : Nat) (h : encodes d dense D n m = true) :
    gridIs D n m = true ∧ 1 ≤ n ∧ 1 ≤ m := by
  simp only [encodes, Bool.and_eq_true, decide_eq_true_eq] at h
  exact ⟨h.1.1.1, h.1.1.2, h.1.2⟩

/-- **forms_agree.** For every grid `D` (any shape n, m ≥ 1), every value that describes `D` in one
of the accepted forms — whatever the form, however often a coordinate is repeated (the values add
up), wherever zeros are named explicitly — is built into the table with exactly the given IDs, the
grid `D`, and the given (well-formed) metadata. -/
theorem forms_agree (inp : Input) (D : Grid) (n m : Nat)
    (henc : encodes inp.data inp.inputIsDense D n m = true)
    (hlo : inp.obs.length = n) (hls : inp.samp.length = m)
    (hno : inp.obs.Nodup) (hns : inp.samp.Nodup)
    (hmo : mdBad inp.omd inp.obs = false) (hms : mdBad inp.smd inp.samp = false) :
    construct inp = .ok (built inp D) := by
  obtain ⟨_, hn, hm⟩ := encodes_dims _ _ _ _ _ henc
  have hts := toSparse_of_encodes inp.data inp.inputIsDense D n m (inp.obs.length, inp.samp.length) henc
    (Or.inr (by rw [hlo, hls]))
  have ho : inp.obs ≠ [] := by intro e; rw [e] at hlo; simp at hlo; omega
  have hs : inp.samp ≠ [] := by intro e; rw [e] at hls; simp at hls; omega
  simp only [construct, constructWith, hts, bind, Except.bind]
  exact finish_accept ⟨n, m, D⟩ inp.obs inp.samp inp.omd inp.smd ho hs hno hns hlo hls hmo hms

/-- two values describing the same grid, given the same IDs and metadata, give the same table -/
theorem forms_agree_pair (a b : Input) (D : Grid) (n m : Nat)
    (ha : encodes a.data a.inputIsDense D n m = true) (hb : encodes b.data b.inputIsDense D n m = true)
    (hobs : b.obs = a.obs) (hsamp : b.samp = a.samp) (homd : b.omd = a.omd) (hsmd : b.smd = a.smd)
    (hlo : a.obs.length = n) (hls : a.samp.length = m) (hno : a.obs.Nodup) (hns : a.samp.Nodup)
    (hmo : mdBad a.omd a.obs = false) (hms : mdBad a.smd a.samp = false) :
    construct a = construct b := by
  rw [forms_agree a D n m ha hlo hls hno hns hmo hms,
    forms_agree b D n m hb (by rw [hobs, hlo]) (by rw [hsamp, hls]) (by rw [hobs]; exact hno)
      (by rw [hsamp]; exact hns) (by rw [hobs, homd]; exact hmo) (by rw [hsamp, hsmd]; exact hms),
    built, built, hobs, hsamp, homd, hsmd]

/-- an explicitly named zero does not change any cell of a coordinate form -/
theorem explicit_zero_irrelevant (ts : List Triple) (r c i j : Nat) :
    cellSum (ts ++ [(r, c, 0)]) i j = cellSum ts i j := by
  rw [cellSum_append, cellSum_cons, cellSum_nil]
  split <;> simp [Rat.add_zero]

/-- a repeated coordinate adds to its cell and to no other -/
theorem duplicates_summed (ts : List Triple) (r c : Nat) (v : Rat) (i j : Nat) :
    cellSum (ts ++ [(r, c, v)]) i j = if r = i ∧ c = j then cellSum ts i j + v else cellSum ts i j := by
  rw [cellSum_append, cellSum_cons, cellSum_nil]
  split <;> simp [Rat.add_zero]

/-! ### malformed input is rejected -/

/-- either `_to_sparse` hands the described grid on, or (dense nested lists whose shape is not the
announced one) it has already raised the table error -/
theorem construct_cases (inp : Input) (D : Grid) (n m : Nat)
    (henc : encodes inp.data inp.inputIsDense D n m = true)
    (hsh : carriesShape inp.data inp.inputIsDense = true ∨ (inp.obs.length = n ∧ inp.samp.length = m)) :
    construct inp = finish defaultProfile ⟨n, m, D⟩ inp.obs inp.samp inp.omd inp.smd ∨
    (construct inp = .error .tableException ∧ (inp.obs.length ≠ n ∨ inp.samp.length ≠ m)) := by
  by_cases hmatch : (inp.obs.length, inp.samp.length) = (n, m)
  · left
    have hts := toSparse_of_encodes inp.data inp.inputIsDense D n m _ henc (Or.inr hmatch)
    simp only [construct, constructWith, hts, bind, Except.bind]
  · have hcs : carriesShape inp.data inp.inputIsDense = true := by
      rcases hsh with h | h
      · exact h
      · exact absurd (by rw [h.1, h.2]) hmatch
    by_cases hown : ownShape inp.data = true
    · left
      have hts := toSparse_of_encodes inp.data inp.inputIsDense D n m
        (inp.obs.length, inp.samp.length) henc (Or.inl hown)
      simp only [construct, constructWith, hts, bind, Except.bind]
    · right
      have hsz : inp.obs.length ≠ n ∨ inp.samp.length ≠ m := by
        by_cases h1 : inp.obs.length = n
        · right; intro h2; exact hmatch (by rw [h1, h2])
        · left; exact h1
      refine ⟨?_, hsz⟩
      cases hd : inp.data with
      | listList ls =>
        rw [hd] at hcs henc
        have hdense : inp.inputIsDense = true := by simpa [carriesShape] using hcs
        rw [hdense] at henc
        have := toSparse_dense_mismatch ls D n m (inp.obs.length, inp.samp.length) henc hmatch
        simp only [construct, constructWith, hd, hdense, this, bind, Except.bind]
      | dict _ => rw [hd] at hcs; simp [carriesShape] at hcs
      | emptyList => rw [hd] at hcs; simp [carriesShape] at hcs
      | unknown => rw [hd] at henc; simp [encodes] at henc
      | vec _ => rw [hd] at hown; simp [ownShape] at hown
      | arr _ _ _ => rw [hd] at hown; simp [ownShape] at hown
      | listArr _ => rw [hd] at hown; simp [ownShape] at hown
      | listDict _ => rw [hd] at hown; simp [ownShape] at hown
      | listSparse _ => rw [hd] at hown; simp [ownShape] at hown
      | sparse _ => rw [hd] at hown; simp [ownShape] at hown

/-- **reject_dup.** A non-empty table whose observation or sample IDs repeat an ID — anywhere on the
axis — is refused with the table error, for every form of the data. -/
theorem reject_dup (inp : Input) (D : Grid) (n m : Nat)
    (henc : encodes inp.data inp.inputIsDense D n m = true)
    (hsh : carriesShape inp.data inp.inputIsDense = true ∨ (inp.obs.length = n ∧ inp.samp.length = m))
    (ho : inp.obs ≠ []) (hs : inp.samp ≠ []) (hdup : ¬ inp.obs.Nodup ∨ ¬ inp.samp.Nodup) :
    construct inp = .error .tableException := by
  rcases construct_cases inp D n m henc hsh with h | h
  · rw [h]
    apply finish_reject_ids _ _ _ _ _ ho hs
    rcases hdup with h | h
    · exact Or.inl h
    · exact Or.inr (Or.inl h)
  · exact h.1

/-- **reject_size.** A non-empty table whose ID counts disagree with the shape of the matrix (too few
or too many IDs on either axis) is refused with the table error. -/
theorem reject_size (inp : Input) (D : Grid) (n m : Nat)
    (henc : encodes inp.data inp.inputIsDense D n m = true)
    (hcs : carriesShape inp.data inp.inputIsDense = true)
    (ho : inp.obs ≠ []) (hs : inp.samp ≠ []) (hsz : inp.obs.length ≠ n ∨ inp.samp.length ≠ m) :
    construct inp = .error .tableException := by
  rcases construct_cases inp D n m henc (Or.inl hcs) with h | h
  · rw [h]
    apply finish_reject_ids _ _ _ _ _ ho hs
    rcases hsz with h | h
    · exact Or.inr (Or.inr (Or.inl h))
    · exact Or.inr (Or.inr (Or.inr h))
  · exact h.1

/-- **reject_md.** A non-empty table with metadata that is not one mapping-or-null per ID (too short,
too long, or containing an entry that is neither a mapping nor null) is refused with the table
error. -/
theorem reject_md (inp : Input) (D : Grid) (n m : Nat)
    (henc : encodes inp.data inp.inputIsDense D n m = true)
    (hsh : carriesShape inp.data inp.inputIsDense = true ∨ (inp.obs.length = n ∧ inp.samp.length = m))
    (ho : inp.obs ≠ []) (hs : inp.samp ≠ [])
    (hmd : mdBad inp.omd inp.obs = true ∨ mdBad inp.smd inp.samp = true) :
    construct inp = .error .tableException := by
  rcases construct_cases inp D n m henc hsh with h | h
  · rw [h]; exact finish_reject_md _ _ _ _ _ ho hs hmd
  · exact h.1

/-! ### the predicate holds of the model -/

theorem isErr_tableException : isErr (.error .tableException) .tableException = true := by decide

theorem chk_true (c : String) : chk c true = none := rfl

theorem mdOut_length (md : Option (List MdEntry)) (ids : List Id) (h : mdBad md ids = false) :
    ∀ l, mdOut md = some l → l.length = ids.length := by
  intro l hl
  cases md with
  | none => simp [mdOut] at hl
  | some e =>
    simp only [mdBad, Bool.or_eq_false_iff, bne_eq_false_iff_eq] at h
    simp only [mdOut] at hl
    split at hl
    · cases hl
    · cases hl; simp [h.1]

theorem mdOf_spec (ids : List Id) (md : Option (List MdEntry)) (hn : ids.Nodup) (i : Nat) (hi : i < ids.length) :
    (mdOut md).bind (fun l => lookupBy ids l (ids.getD i "")) = mdWant md i := by
  cases md with
  | none => rfl
  | some l =>
    simp only [mdOut, mdWant]
    split
    · rfl
    · simp only [Option.bind_some]
      rw [lookupBy_getD ids _ i hn hi]; simp

/-- **model_holds.** The constructor part of the property is true of the model on every input whose
data is an accepted encoding of a grid: rejection with the table error in each malformed case,
the grid, IDs and metadata looked up through the IDs otherwise. -/
theorem model_holds (c : Case)
    (henc : encodes c.inp.data c.inp.inputIsDense c.grid c.n c.m = true)
    (hsh : carriesShape c.inp.data c.inp.inputIsDense = true ∨
      (c.inp.obs.length = c.n ∧ c.inp.samp.length = c.m)) :
    holdsConstruct c (construct c.inp) = none := by
  have hpre : (encodes c.inp.data c.inp.inputIsDense c.grid c.n c.m &&
      (carriesShape c.inp.data c.inp.inputIsDense ||
        (c.n == c.inp.obs.length && c.m == c.inp.samp.length))) = true := by
    rw [henc, Bool.true_and]
    rcases hsh with h | h
    · rw [h]; rfl
    · simp [h.1, h.2]
  simp only [holdsConstruct, hpre, Bool.not_true, Bool.false_eq_true, if_false]
  by_cases hempty : (c.inp.obs.isEmpty || c.inp.samp.isEmpty) = true
  · simp [hempty]
  rw [if_neg hempty]
  have ho : c.inp.obs ≠ [] := by intro e; simp [e] at hempty
  have hs : c.inp.samp ≠ [] := by intro e; simp [e] at hempty
  by_cases hd' : ¬ ((distinct c.inp.obs && distinct c.inp.samp) = true)
  · have hd := hd'
    have hdup : ¬ c.inp.obs.Nodup ∨ ¬ c.inp.samp.Nodup := by
      simp only [distinct, Bool.and_eq_true, decide_eq_true_eq] at hd
      by_cases h1 : c.inp.obs.Nodup
      · right; exact fun h2 => hd ⟨h1, h2⟩
      · left; exact h1
    simp [hd, reject_dup c.inp c.grid c.n c.m henc hsh ho hs hdup, isErr_tableException, chk_true]
  have hd := Decidable.not_not.mp hd'
  simp only [hd, Bool.not_true, Bool.false_eq_true, if_false]
  simp only [distinct, Bool.and_eq_true, decide_eq_true_eq] at hd
  by_cases hsz : (c.inp.obs.length != c.n || c.inp.samp.length != c.m) = true
  · have hsz' : c.inp.obs.length ≠ c.n ∨ c.inp.samp.length ≠ c.m := by simpa using hsz
    have hcs : carriesShape c.inp.data c.inp.inputIsDense = true := by
      rcases hsh with h | h
      · exact h
      · rcases hsz' with h' | h'
        · exact absurd h.1 h'
        · exact absurd h.2 h'
    simp [hsz, reject_size c.inp c.grid c.n c.m henc hcs ho hs hsz', isErr_tableException, chk_true]
  rw [if_neg hsz]
  have hlen : c.inp.obs.length = c.n ∧ c.inp.samp.length = c.m := by simpa using hsz
  by_cases hmd : (mdBad c.inp.omd c.inp.obs || mdBad c.inp.smd c.inp.samp) = true
  · have hmd' : mdBad c.inp.omd c.inp.obs = true ∨ mdBad c.inp.smd c.inp.samp = true := by simpa using hmd
    simp [hmd, reject_md c.inp c.grid c.n c.m henc hsh ho hs hmd', isErr_tableException, chk_true]
  rw [if_neg hmd]
  have hmd' : mdBad c.inp.omd c.inp.obs = false ∧ mdBad c.inp.smd c.inp.samp = false := by simpa using hmd
  obtain ⟨hD, _, _⟩ := encodes_dims _ _ _ _ _ henc
  rw [forms_agree c.inp c.grid c.n c.m henc hlen.1 hlen.2 hd.1 hd.2 hmd'.1 hmd'.2]
  have hl := (gridIs_iff c.grid c.n c.m).mp hD
  have htab : tableIs (built c.inp c.grid) c.inp.obs c.inp.samp c.grid = true := by
    simp only [tableIs, built, Bool.and_eq_true, beq_iff_eq, true_and]
    refine ⟨?_, ?_⟩
    · simp only [Table.wfb, Bool.and_eq_true, beq_iff_eq, List.all_eq_true]
      refine ⟨⟨⟨by rw [hl.1, hlen.1], fun r hr => by rw [hl.2 r hr, hlen.2]⟩, ?_⟩, ?_⟩
      · cases h : mdOut c.inp.omd with
        | none => rfl
        | some l => simp [mdOut_length _ _ hmd'.1 l h]
      · cases h : mdOut c.inp.smd with
        | none => rfl
        | some l => simp [mdOut_length _ _ hmd'.2 l h]
    · rw [allCells_iff]
      intro i j hi hj
      rw [beq_iff_eq]
      exact cell_of_grid _ c.grid c.n c.m hD rfl hd.1 hd.2 hlen.1 hlen.2 i j (by omega) (by omega)
  have hmdis : mdIs (built c.inp c.grid) c.inp = true := by
    simp only [mdIs, built, Bool.and_eq_true, List.all_eq_true, List.mem_range, beq_iff_eq]
    refine ⟨fun i hi => ?_, fun j hj => ?_⟩
    · exact mdOf_spec c.inp.obs c.inp.omd hd.1 i hi
    · exact mdOf_spec c.inp.samp c.inp.smd hd.2 j hj
  simp [htab, hmdis, allV, chk, Verdict.and]

/-! ### adjacency lists -/

/-- the grid of an adjacency document: one row per distinct observation, one column per distinct
sample (both in sorted order), each cell the stored values of its coordinates added up -/
def adjGrid (recs : List (String × String × Rat)) : Grid :=
  let oo := sortDedup (recs.map (·.1))
  let so := sortDedup (recs.map (·.2.1))
  tabulate oo.length so.length (cellSum (adjTriples oo so recs))

def adjTable (recs : List (String × String × Rat)) : Table Rat :=
  { obs := sortDedup (recs.map (·.1)), samp := sortDedup (recs.map (·.2.1)), rows := adjGrid recs }

theorem maxL_idxOf (ids : List String) (xs : List String) (hs : ids.Pairwise (· < ·)) (hne : ids ≠ [])
    (hsub : ∀ x ∈ xs, x ∈ ids) (hsup : ∀ y ∈ ids, y ∈ xs) :
    maxL (xs.map (fun x => ids.idxOf x)) + 1 = ids.length := by
  have hlen : 0 < ids.length := by
    cases ids with
    | nil => exact absurd rfl hne
    | cons _ _ => simp
  have : maxL (xs.map (fun x => ids.idxOf x)) = ids.length - 1 := by
    apply maxL_eq
    · intro k hk
      rw [List.mem_map] at hk
      obtain ⟨x, hx, rfl⟩ := hk
      have := List.idxOf_lt_length_iff.mpr (hsub x hx)
      omega
    · obtain ⟨y, hy, hidx⟩ := sorted_last_max ids hs hne
      rw [List.mem_map]
      exact ⟨y, hsup y hy, hidx⟩
  omega

/-- `from_adjacency` on a document with at least one record, all of them well-formed, produces the
table over the sorted ID sets -/
theorem adjacency_table (lines body : List AdjLine) (recs : List (String × String × Rat))
    (hb : adjBody lines = .ok body) (hr : body.mapM adjRecord = .ok recs) (hne : recs ≠ []) :
    fromAdjacency lines = .ok (adjTable recs) := by
  have hoo_mem : ∀ y, y ∈ sortDedup (recs.map (·.1)) ↔ y ∈ recs.map (·.1) := mem_sortDedup _
  have hso_mem : ∀ y, y ∈ sortDedup (recs.map (·.2.1)) ↔ y ∈ recs.map (·.2.1) := mem_sortDedup _
  have hoo_sorted := sortDedup_sorted (recs.map (·.1))
  have hso_sorted := sortDedup_sorted (recs.map (·.2.1))
  obtain ⟨r0, hr0⟩ : ∃ r, r ∈ recs := by
    cases recs with
    | nil => exact absurd rfl hne
    | cons r _ => exact ⟨r, List.mem_cons_self⟩
  have hoo_ne : sortDedup (recs.map (·.1)) ≠ [] := by
    intro e
    have : r0.1 ∈ sortDedup (recs.map (·.1)) := (hoo_mem _).mpr (List.mem_map_of_mem hr0)
    rw [e] at this; cases this
  have hso_ne : sortDedup (recs.map (·.2.1)) ≠ [] := by
    intro e
    have : r0.2.1 ∈ sortDedup (recs.map (·.2.1)) := (hso_mem _).mpr (List.mem_map_of_mem hr0)
    rw [e] at this; cases this
  have hrmem : ∀ r ∈ recs, r.1 ∈ sortDedup (recs.map (·.1)) ∧ r.2.1 ∈ sortDedup (recs.map (·.2.1)) :=
    fun r hr => ⟨(hoo_mem _).mpr (List.mem_map_of_mem hr), (hso_mem _).mpr (List.mem_map_of_mem hr)⟩
  -- the sparse matrix scipy infers from the largest indices
  have hts_ne : (adjTriples (sortDedup (recs.map (·.1))) (sortDedup (recs.map (·.2.1))) recs).isEmpty = false := by
    cases recs with
    | nil => exact absurd rfl hne
    | cons _ _ => simp [adjTriples]
  have hmaxR : maxL ((adjTriples (sortDedup (recs.map (·.1))) (sortDedup (recs.map (·.2.1))) recs).map (·.1)) + 1
      = (sortDedup (recs.map (·.1))).length := by
    have := maxL_idxOf (sortDedup (recs.map (·.1))) (recs.map (·.1)) hoo_sorted hoo_ne
      (fun x hx => (hoo_mem x).mpr hx) (fun y hy => (hoo_mem y).mp hy)
    simpa [adjTriples, List.map_map, Function.comp_def] using this
  have hmaxC : maxL ((adjTriples (sortDedup (recs.map (·.1))) (sortDedup (recs.map (·.2.1))) recs).map (·.2.1)) + 1
      = (sortDedup (recs.map (·.2.1))).length := by
    have := maxL_idxOf (sortDedup (recs.map (·.2.1))) (recs.map (·.2.1)) hso_sorted hso_ne
      (fun x hx => (hso_mem x).mpr hx) (fun y hy => (hso_mem y).mp hy)
    simpa [adjTriples, List.map_map, Function.comp_def] using this
  have hrange : inRange (sortDedup (recs.map (·.1))).length (sortDedup (recs.map (·.2.1))).length
      (adjTriples (sortDedup (recs.map (·.1))) (sortDedup (recs.map (·.2.1))) recs) = true := by
    rw [inRange_iff]
    intro t ht
    simp only [adjTriples, List.mem_map] at ht
    obtain ⟨r, hr, rfl⟩ := ht
    exact ⟨List.idxOf_lt_length_iff.mpr (hrmem r hr).1, List.idxOf_lt_length_iff.mpr (hrmem r hr).2⟩
  have hM : cooArraysToSparse (adjTriples (sortDedup (recs.map (·.1))) (sortDedup (recs.map (·.2.1))) recs) none
      = .ok ⟨(sortDedup (recs.map (·.1))).length, (sortDedup (recs.map (·.2.1))).length, adjGrid recs⟩ := by
    simp only [cooArraysToSparse, hts_ne, Bool.false_eq_true, if_false, hmaxR, hmaxC, cooDense, hrange, if_true, adjGrid]
  have hlen_o : 1 ≤ (sortDedup (recs.map (·.1))).length := by
    cases h : sortDedup (recs.map (·.1)) with
    | nil => exact absurd h hoo_ne
    | cons _ _ => simp
  have hlen_s : 1 ≤ (sortDedup (recs.map (·.2.1))).length := by
    cases h : sortDedup (recs.map (·.2.1)) with
    | nil => exact absurd h hso_ne
    | cons _ _ => simp
  have henc : encodes (.sparse ⟨(sortDedup (recs.map (·.1))).length, (sortDedup (recs.map (·.2.1))).length, adjGrid recs⟩)
      false (adjGrid recs) (sortDedup (recs.map (·.1))).length (sortDedup (recs.map (·.2.1))).length = true := by
    simp only [encodes, adjGrid, gridIs_tabulate, hlen_o, hlen_s, decide_true, beq_self_eq_true, Bool.and_self]
  have hcon := forms_agree
    { data := .sparse ⟨(sortDedup (recs.map (·.1))).length, (sortDedup (recs.map (·.2.1))).length, adjGrid recs⟩,
      obs := sortDedup (recs.map (·.1)), samp := sortDedup (recs.map (·.2.1)) }
    (adjGrid recs) _ _ henc rfl rfl (nodup_of_sorted _ hoo_sorted) (nodup_of_sorted _ hso_sorted) rfl rfl
  simp only [fromAdjacency, hb, hr, bind, Except.bind, hM, hcon]
  rfl

/-- **adjacency_cell.** In the table built from an adjacency list the observation and sample IDs
are the sorted sets of the names used, and the cell of (o, s) is the sum of the values of the
records naming that pair. -/
theorem adjacency_cell (recs : List (String × String × Rat)) (o s : String)
    (ho : o ∈ (adjTable recs).obs) (hs : s ∈ (adjTable recs).samp) :
    (adjTable recs).cell? o s = some (adjSum recs o s) := by
  have hoo_sorted := sortDedup_sorted (recs.map (·.1))
  have hso_sorted := sortDedup_sorted (recs.map (·.2.1))
  simp only [adjTable] at ho hs
  have hi := List.idxOf_lt_length_iff.mpr ho
  have hj := List.idxOf_lt_length_iff.mpr hs
  have hcell := cell_of_grid (adjTable recs) (adjGrid recs) _ _ (gridIs_tabulate _ _ _) rfl
    (nodup_of_sorted _ hoo_sorted) (nodup_of_sorted _ hso_sorted) rfl rfl _ _ hi hj
  simp only [adjTable] at hcell
  rw [getD_idxOf _ o ho, getD_idxOf _ s hs] at hcell
  simp only [adjTable]
  rw [hcell, adjGrid, cellD_tabulate _ _ _ _ _ hi hj]
  rw [cellSum_adjTriples]
  intro r hr
  exact ⟨(mem_sortDedup _ _).mpr (List.mem_map_of_mem hr), (mem_sortDedup _ _).mpr (List.mem_map_of_mem hr)⟩

/-- the ID lists of the adjacency table: strictly increasing, and exactly the names used -/
theorem adjacency_ids (recs : List (String × String × Rat)) :
    (adjTable recs).obs.Pairwise (· < ·) ∧ (adjTable recs).samp.Pairwise (· < ·) ∧
    (∀ o, o ∈ (adjTable recs).obs ↔ o ∈ recs.map (·.1)) ∧
    (∀ s, s ∈ (adjTable recs).samp ↔ s ∈ recs.map (·.2.1)) :=
  ⟨sortDedup_sorted _, sortDedup_sorted _, mem_sortDedup _, mem_sortDedup _⟩

/-! ### uc cluster files -/

/-- a coordinate dictionary with distinct in-range keys, with any distinct IDs (possibly none on an
axis): the constructor produces the table whose cells are the stored values -/
theorem construct_dict (d : Dict) (obs samp : List Id) (hno : obs.Nodup) (hns : samp.Nodup)
    (hk : (d.map (·.1)).Nodup) (hr : ∀ e ∈ d, e.1.1 < obs.length ∧ e.1.2 < samp.length) :
    construct { data := .dict d, obs := obs, samp := samp } =
      .ok { obs := obs, samp := samp,
            rows := tabulate obs.length samp.length (fun i j => (d.lookup (i, j)).getD 0) } := by
  have hrange : inRange obs.length samp.length (dictTriples d) = true := (inRange_dictTriples _ _ d).mpr hr
  have hgrid : tabulate obs.length samp.length (cellSum (dictTriples d)) =
      tabulate obs.length samp.length (fun i j => (d.lookup (i, j)).getD 0) := by
    apply tabulate_eq _ _ _ _ (gridIs_tabulate _ _ _)
    intro i j hi hj
    rw [cellD_tabulate _ _ _ _ _ hi hj, cellSum_dictTriples d hk]
  have hts : toSparse (.dict d) false (obs.length, samp.length) =
      .ok ⟨obs.length, samp.length, tabulate obs.length samp.length (fun i j => (d.lookup (i, j)).getD 0)⟩ := by
    simp only [toSparse, dictToSparse, cooArraysToSparse, cooDense, hrange, if_true, hgrid]
  simp only [construct, constructWith, hts, bind, Except.bind]
  by_cases hempty : obs = [] ∨ samp = []
  · exact finish_empty _ obs samp hempty
  · have ho : obs ≠ [] := fun e => hempty (Or.inl e)
    have hs : samp ≠ [] := fun e => hempty (Or.inr e)
    exact finish_accept _ obs samp none none ho hs hno hns rfl rfl rfl rfl

/-- the table `parse_uc` hands to the constructor -/
def ucTable (st : UcState) : Table Rat :=
  { obs := st.obsIds, samp := st.sampIds,
    rows := tabulate st.obsIds.length st.sampIds.length (fun i j => (st.data.lookup (i, j)).getD 0) }

/-- **uc_cell.** For every uc document whose H/S query labels all contain an underscore, `parse_uc`
produces a table whose observation IDs are the distinct seed labels, whose sample IDs are the
distinct texts before the last underscore of the H/S query labels, and whose cell (seed, sample)
is the number of H/S records of that seed and sample. -/
theorem uc_cell (lines : List (List String)) (recs : List UcRec)
    (hrec : ucRecords lines = .ok recs)
    (hq : ∀ r ∈ recs, isHS r = true → (sampleOf r.query).isSome = true) :
    ∃ t, parseUc lines = .ok t ∧ t.obs.Nodup ∧ t.samp.Nodup ∧
      (∀ o, o ∈ t.obs ↔ ∃ r ∈ recs, r.seed = o) ∧
      (∀ s, s ∈ t.samp ↔ ∃ r ∈ recs, isHS r = true ∧ sampleOf r.query = some s) ∧
      ∀ o ∈ t.obs, ∀ s ∈ t.samp, t.cell? o s = some ((ucCnt recs o s : Nat) : Rat) := by
  obtain ⟨st, hfold, inv⟩ := ucFold_inv recs {} [] ucInv_init hq
  simp only [List.nil_append] at inv
  have hcon := construct_dict st.data st.obsIds st.sampIds inv.nodupO inv.nodupS inv.keys inv.range
  refine ⟨ucTable st, ?_, inv.nodupO, inv.nodupS, inv.seeds, inv.samples, ?_⟩
  · simp only [parseUc, hrec, hfold, bind, Except.bind, hcon, ucTable]
  · intro o ho s hs
    have ho : o ∈ st.obsIds := ho
    have hs : s ∈ st.sampIds := hs
    have hi := List.idxOf_lt_length_iff.mpr ho
    have hj := List.idxOf_lt_length_iff.mpr hs
    have hcell := cell_of_grid (ucTable st)
      _ _ _ (gridIs_tabulate _ _ _) rfl inv.nodupO inv.nodupS rfl rfl _ _ hi hj
    simp only [ucTable] at hcell ⊢
    rw [getD_idxOf _ o ho, getD_idxOf _ s hs] at hcell
    rw [hcell, cellD_tabulate _ _ _ _ _ hi hj]
    exact congrArg some (inv.count o ho s hs)

/-- the sample of a query label `s_x` is `s`: everything before the LAST underscore -/
theorem sampleOf_spec (s x : String) (h : '_' ∉ x.toList) :
    sampleOf (String.ofList (s.toList ++ '_' :: x.toList)) = some s := by
  simp only [sampleOf, String.toList_ofList, beforeLast_spec s.toList x.toList h, Option.map_some,
    String.ofList_toList]

/-- a label without any underscore has no sample (the importer refuses the file) -/
theorem sampleOf_none (q : String) (h : '_' ∉ q.toList) : sampleOf q = none := by
  simp only [sampleOf, (beforeLast_none q.toList).mpr h, Option.map_none]

/-- `from-uc` with a fasta map: the table of `parse_uc` with every seed label replaced by the label
the map gives it (a later fasta line wins); cells, samples and order are untouched -/
theorem fromUc_renames (lines : List (List String)) (fasta : List String) (t t' : Table Rat)
    (ht : parseUc lines = .ok t) (ht' : fromUc lines (some fasta) = .ok t') :
    ∃ m, fastaMap fasta = .ok m ∧ t.obs.mapM (mapGet m) = some t'.obs ∧ t'.obs.Nodup ∧
      t'.samp = t.samp ∧ t'.rows = t.rows := by
  simp only [fromUc, ht, bind, Except.bind] at ht'
  cases hm : fastaMap fasta with
  | error e => simp [hm] at ht'
  | ok m =>
    simp only [hm, renameObs] at ht'
    refine ⟨m, rfl, ?_⟩
    split at ht'
    · cases ht'
    · cases hids : t.obs.mapM (mapGet m) with
      | none => simp [hids] at ht'
      | some ids =>
        simp only [hids] at ht'
        split at ht'
        · cases ht'
        · rename_i hd
          cases ht'
          refine ⟨rfl, ?_, rfl, rfl⟩
          simp only []
          by_cases hn : ids.Nodup
          · exact hn
          · have := dedup_length_lt ids hn
            exact absurd (by omega) hd

/-! ### non-vacuity: concrete inputs meet the hypotheses, and the conclusions are not trivial -/

def demoGrid : Grid := [[1, 0, 2], [0, 3, 0]]
/-- triples with a repeated coordinate (1 + 2 = 3 at (1,1)) and an explicit zero, in no order -/
def demoTriples : Data := .listList [[0, 0, 1], [1, 1, 1], [0, 2, 2], [1, 1, 2], [0, 1, 0]]
def demoDict : Data := .dict [((0, 0), 1), ((0, 2), 2), ((1, 1), 3), ((1, 0), 0)]
def demoRowDicts : Data := .listDict [[((0, 0), 1), ((0, 2), 2)], [((0, 1), 3)]]
def demoColDicts : Data := .listDict [[((0, 0), 1)], [((1, 0), 3)], [((0, 0), 2)]]
def demoSparseRows : Data := .listSparse [⟨1, 3, [[1, 0, 2]]⟩, ⟨1, 3, [[0, 3, 0]]⟩]
def demoInput (d : Data) (dense : Bool := false) : Input :=
  { data := d, obs := ["O1", "O2"], samp := ["S1", "S2", "S3"],
    omd := some [.map [("k", "1")], .null], inputIsDense := dense }

example : encodes demoTriples false demoGrid 2 3 = true := by decide +kernel
example : encodes demoDict false demoGrid 2 3 = true := by decide +kernel
example : encodes demoRowDicts false demoGrid 2 3 = true := by decide +kernel
example : encodes demoColDicts false demoGrid 2 3 = true := by decide +kernel
example : encodes demoSparseRows false demoGrid 2 3 = true := by decide +kernel
example : encodes (.listList demoGrid) true demoGrid 2 3 = true := by decide +kernel
example : encodes (.arr 2 3 demoGrid) false demoGrid 2 3 = true := by decide +kernel
example : mdBad (demoInput demoDict).omd (demoInput demoDict).obs = false := by decide
/-- the produced table really carries the grid and the metadata -/
example : sameResult (construct (demoInput demoTriples)) (.ok (built (demoInput demoTriples) demoGrid)) = true := by
  decide +kernel
example : (built (demoInput demoTriples) demoGrid).cell? "O2" "S2" = some 3 := by decide +kernel
example : (built (demoInput demoTriples) demoGrid).mdOf? .obs "O1" = some [("k", "1")] := by decide +kernel
/-- duplicate ID, too few IDs, metadata too short, a non-mapping entry: all refused -/
example : isErr (construct { demoInput demoColDicts with obs := ["O1", "O1"] }) .tableException = true := by
  decide +kernel
example : isErr (construct { demoInput demoSparseRows with samp := ["S1", "S2"], omd := none }) .tableException = true := by
  decide +kernel
example : isErr (construct { demoInput demoDict with omd := some [.null] }) .tableException = true := by
  decide +kernel
example : isErr (construct { demoInput demoDict with smd := some [.null, .other, .null] }) .tableException = true := by
  decide +kernel
/-- the inputs on which the unrepaired constructor produced a table -/
example : isErr (construct { data := .listList [[1, 2], [0, 0]], obs := ["a"], samp := ["x", "y"], inputIsDense := true })
    .tableException = true := by decide +kernel
/-- an adjacency document with a repeated pair and a uc label with two underscores -/
example : (fromAdjacency [⟨["#OTU ID", "SampleID", "value"], none⟩, ⟨["a", "b", "1"], some 1⟩,
    ⟨["a", "c", "2"], some 2⟩, ⟨["d", "c", "3"], some 3⟩, ⟨["a", "b", "4"], some 4⟩]).toOption.bind
      (·.cell? "a" "b") = some 5 := by decide +kernel
example : sampleOf "f3_a_43" = some "f3_a" := by decide +kernel
example : (parseUc [["S", "0", "1", "*", "*", "*", "*", "*", "f2_1539", "*"],
    ["H", "0", "1", "9", "+", "0", "0", "1M", "f3_a_43 extra", "f2_1539"],
    ["H", "0", "1", "9", "+", "0", "0", "1M", "f3_a_44", "f2_1539"]]).toOption.bind
      (·.cell? "f2_1539" "f3_a") = some 2 := by decide +kernel

end Biom.C17
