/-
  C12 — property theorems.  Every quantifier is unbounded: all count vectors (any length, any
  counts), all depths n ≥ 1, all generator answers that keep numpy's contract, all tables (any
  shape, any IDs), every well-formed sparse layout scipy may hand to the kernel.

  `walk_hist` (Lemmas/C12.lean) is the kernel theorem; the rest follows from it.
-/
import BiomModel.Lemmas.C12

deriving instance DecidableEq for Except

namespace Biom.C12

/-! ### the kernel, one vector -/

/-- exactly `n = chosen.length` counts are drawn -/
theorem walk_sum (counts chosen : List Nat) (hne : counts ≠ []) (hs : chosen.Pairwise (· ≤ ·))
    (hb : ∀ p ∈ chosen, p < counts.sum) :
    ∃ r, walk counts chosen = .ok r ∧ r.length = counts.length ∧ r.sum = chosen.length :=
  ⟨_, walk_hist counts chosen hne hs hb, hist_length _ _, hist_sum counts chosen hb⟩

/-- no entry receives more than it had (positions sorted and distinct) -/
theorem walk_le (counts chosen : List Nat) (hne : counts ≠ []) (hs : chosen.Pairwise (· < ·))
    (hb : ∀ p ∈ chosen, p < counts.sum) :
    ∃ r, walk counts chosen = .ok r ∧ ∀ k, r.getD k 0 ≤ counts.getD k 0 :=
  ⟨_, walk_hist counts chosen hne (hs.imp (fun h => Nat.le_of_lt h)) hb, hist_le counts chosen hs⟩

theorem countP_or_disjoint {β : Type} (p q : β → Bool) (l : List β) (h : ∀ x ∈ l, ¬ (p x = true ∧ q x = true)) :
    l.countP (fun x => p x || q x) = l.countP p + l.countP q := by
  induction l with
  | nil => rfl
  | cons x xs ih =>
    have hx := h x (by simp)
    rw [List.countP_cons, List.countP_cons, List.countP_cons, ih (fun y hy => h y (by simp [hy]))]
    cases hp : p x <;> cases hq : q x <;> simp_all <;> omega

theorem countP_range_eq (a c p : Nat) :
    (List.range c).countP (fun u => a + u == p) = if a ≤ p ∧ p < a + c then 1 else 0 := by
  induction c with
  | zero =>
    have : ¬ (a ≤ p ∧ p < a + 0) := by omega
    simp [this]
  | succ c ih =>
    rw [List.range_succ, List.countP_append, ih]
    simp only [List.countP_cons, List.countP_nil, beq_iff_eq]
    by_cases h1 : a ≤ p ∧ p < a + c
    · have h2 : a ≤ p ∧ p < a + (c + 1) := by omega
      have h3 : ¬ a + c = p := by omega
      simp [h1, h2, h3]
    · by_cases h3 : a + c = p
      · have h2 : a ≤ p ∧ p < a + (c + 1) := by omega
        simp [h1, h2, h3]
      · have h2 : ¬ (a ≤ p ∧ p < a + (c + 1)) := by omega
        simp [h1, h2, h3]

/-- double counting: chosen positions in `[a, a+c)` = units `u < c` whose position `a+u` is chosen -/
theorem countP_interval_units (l : List Nat) (hn : l.Nodup) (a c : Nat) :
    l.countP (fun p => decide (a ≤ p) && decide (p < a + c)) =
      (List.range c).countP (fun u => l.contains (a + u)) := by
  induction l with
  | nil => simp
  | cons p ps ih =>
    rw [List.nodup_cons] at hn
    rw [List.countP_cons, ih hn.2]
    have : (List.range c).countP (fun u => (p :: ps).contains (a + u)) =
        (List.range c).countP (fun u => (a + u == p) || ps.contains (a + u)) := by
      apply List.countP_congr
      intro u _
      simp [List.contains_cons]
    rw [this, countP_or_disjoint]
    · rw [countP_range_eq]
      simp only [Bool.and_eq_true, decide_eq_true_eq]
      omega
    · intro u _ h
      simp only [beq_iff_eq, List.contains_iff_mem] at h
      exact hn.1 (h.1 ▸ h.2)

/-- **kept ⇔ chosen**: unit `u` of entry `j` sits at position `prefix j + u`; entry `j` keeps as
many counts as it has units whose position was chosen.  With the generator's contract ("a uniform
`n`-subset of the positions") this is "each unit count is equally likely to be kept". -/
theorem kept_iff_chosen (counts chosen : List Nat) (hne : counts ≠ []) (hs : chosen.Pairwise (· < ·))
    (hb : ∀ p ∈ chosen, p < counts.sum) :
    ∃ r, walk counts chosen = .ok r ∧ ∀ j, j < counts.length →
      r.getD j 0 = ((List.range (counts.getD j 0)).filter (fun u => chosen.contains (prefixSum counts j + u))).length := by
  refine ⟨_, walk_hist counts chosen hne (hs.imp (fun h => Nat.le_of_lt h)) hb, ?_⟩
  intro j hj
  have hnd : chosen.Nodup := hs.imp (fun h => by omega)
  rw [List.getD_eq_getElem?_getD, hist_getElem? counts chosen j hj, Option.getD_some, ← List.countP_eq_length_filter,
    ← countP_interval_units chosen hnd]
  apply List.countP_congr
  intro p _
  simp only [inIv, prefixSum_succ]

/-- the kernel on a generator answer (any order, distinct, in range): the histogram -/
theorem subsampleVec_spec (n : Nat) (counts chosen : List Nat) (hn : 1 ≤ n) (hl : chosen.length = n)
    (hnd : chosen.Nodup) (hb : ∀ p ∈ chosen, p < counts.sum) :
    subsampleVec n counts chosen = .ok (hist counts chosen) ∧ (hist counts chosen).sum = n ∧
      ∀ k, (hist counts chosen).getD k 0 ≤ counts.getD k 0 := by
  have hne : counts ≠ [] := by
    intro he; subst he
    cases chosen with
    | nil => simp at hl; omega
    | cons p ps => have := hb p (by simp); simp at this
  refine ⟨subsampleVec_hist n counts chosen hne hl hb, by rw [hist_sum counts chosen hb, hl], ?_⟩
  intro k
  have : hist counts chosen = hist counts (isort chosen) := by
    unfold hist; rw [histFrom_perm 0 counts (isort_perm chosen)]
  rw [this]
  exact hist_le counts (isort chosen) (isort_strict chosen hnd) k

/-! ### Table.subsample -/

/-- everything `finish` (the two emptiness filters) guarantees, from per-vector facts about the
dense grid the kernel left behind -/
theorem finish_clauses (t : View) (dense : List (List Nat)) (n : Nat) (q : List Nat → Bool) (rel : Nat → Nat → Bool)
    (hwf : viewWF t = true) (hlen : dense.length = t.vecs.length)
    (hP : ∀ (i : Nat) (v d : List Nat), t.vecs[i]? = some v → dense[i]? = some d →
      d.length = t.oids.length ∧ decide (0 < d.sum) = q v ∧ (0 < d.sum → d.sum = n) ∧
        ∀ j, rel (d.getD j 0) (v.getD j 0) = true) :
    (finish t dense).wfb = true ∧ (finish t dense).oids.isSublist t.oids = true ∧
    (colSums (finish t dense).oids.length (finish t dense).vecs).all (fun s => decide (0 < s)) = true ∧
    (finish t dense).ids = t.ids.filter (fun id => q ((t.vec? id).getD [])) ∧
    (finish t dense).vecs.all (fun v => v.sum == n) = true ∧
    cellsRel rel t (finish t dense) = true := by
  obtain ⟨⟨hvl, hvr⟩, hnid, hnoid⟩ := (viewWF_iff t).mp hwf
  -- every dense vector sits next to a vector of the table
  have hpair : ∀ d ∈ dense, ∃ (i : Nat) (v : List Nat), t.vecs[i]? = some v ∧ dense[i]? = some d := by
    intro d hd
    obtain ⟨i, hi⟩ := List.mem_iff_getElem?.mp hd
    have hil : i < dense.length := (List.getElem?_eq_some_iff.mp hi).1
    exact ⟨i, t.vecs[i]'(by omega), List.getElem?_eq_getElem (by omega), hi⟩
  have hrow : ∀ d ∈ dense, d.length = t.oids.length := by
    intro d hd
    obtain ⟨i, v, hv, hd'⟩ := hpair d hd
    exact (hP i v d hv hd').1
  have hkeep : dense.map (fun v => decide (0 < v.sum)) = t.vecs.map q := by
    apply List.ext_getElem?
    intro i
    rw [List.getElem?_map, List.getElem?_map]
    by_cases hi : i < dense.length
    · have h1 : dense[i]? = some dense[i] := List.getElem?_eq_getElem hi
      have h2 : t.vecs[i]? = some (t.vecs[i]'(by omega)) := List.getElem?_eq_getElem (by omega)
      rw [h1, h2]
      simp only [Option.map_some, Option.some.injEq]
      exact (hP i _ _ h2 h1).2.1
    · rw [List.getElem?_eq_none (by omega), List.getElem?_eq_none (by omega)]; rfl
  have hrow' : ∀ v ∈ filterMask dense (dense.map (fun v => decide (0 < v.sum))), v.length = t.oids.length :=
    fun v hv => hrow v (mem_of_mem_filterMask hv)
  unfold finish
  simp only []
  refine ⟨?_, otherFilter_sublist _ _ _, otherFilter_nonzero _ _ _ hrow', ?_, ?_, ?_⟩
  · exact otherFilter_wfb _ _ _ (filterMask_length_eq dense t.ids _ (by omega)) hrow'
  · rw [otherFilter_ids, hkeep]
    exact filterMask_ids_by_value q t.ids t.vecs [] hnid hvl.symm
  · apply otherFilter_sums _ _ _ hrow'
    intro d hd
    rw [filterMask_map_self] at hd
    obtain ⟨hd1, hd2⟩ := List.mem_filter.mp hd
    obtain ⟨i, v, hv, hd'⟩ := hpair d hd1
    exact (hP i v d hv hd').2.2.1 (by simpa using hd2)
  · exact cellsRel_filters rel t dense _ hwf hlen hrow (fun i v d hv hd => (hP i v d hv hd).2.2.2)

/-- **without replacement**: on the model's observation the property's predicate is true — for every
table, layout, depth `n ≥ 1` and every generator answer within numpy's contract -/
theorem model_holds_without (t : View) (lay : Lay) (n : Nat) (rng : Rng)
    (hwf : viewWF t = true) (hlay : layOK t lay = true) (hn : 1 ≤ n)
    (hrng : choicesOK n (lay.map (·.2)) rng.choices = true) :
    holds t n .without (run t lay n .without rng) = true := by
  obtain ⟨outs, hk, hol, hspec⟩ := kernelWithout_spec n hn _ _ hrng
  have hst := stage1_of t lay outs
    (fun v d => d.length = t.oids.length ∧ decide (0 < d.sum) = decide (n ≤ v.sum) ∧ (0 < d.sum → d.sum = n) ∧
      ∀ j, decide (d.getD j 0 ≤ v.getD j 0) = true)
    hlay (by simpa using hol)
    (by
      intro i v l o hv hl ho hlv
      have hl2 : (lay.map (·.2))[i]? = some l.2 := by simp [hl]
      obtain ⟨w1, w2, w3, w4⟩ := hspec i l.2 o hl2 ho
      obtain ⟨d1, d2, d3, d4⟩ := dense_vec t.oids.length v l o hlv w1
      refine ⟨d1, ?_, ?_, ?_⟩
      · rw [d2, d3]
        by_cases hlt : l.2.sum < n
        · have := w2 hlt; simp only [decide_eq_decide]; omega
        · have := w3 (by omega); simp only [decide_eq_decide]; omega
      · intro hpos
        rw [d2] at hpos ⊢
        by_cases hlt : l.2.sum < n
        · have := w2 hlt; omega
        · exact w3 (by omega)
      · intro j
        exact decide_eq_true (d4 (fun a b => a ≤ b) (Nat.le_refl 0) w4 j))
  obtain ⟨c1, c2, c3, c4, c5, c6⟩ := finish_clauses t _ n (fun v => decide (n ≤ v.sum))
    (fun a b => decide (a ≤ b)) hwf hst.1 hst.2
  simp only [holds, clauses, run, subsample, hk, List.all_cons, List.all_nil, List.cons_append, List.nil_append,
    Bool.and_true, Bool.and_eq_true, beq_iff_eq, decide_true, true_and]
  exact ⟨c1, c2, c3, c4, c5, c6⟩

/-- with replacement, on a table none of whose vectors on the axis is all-zero (what reaches the
kernel): everything the two filters leave behind -/
theorem withRepl_core (t : View) (lay : Lay) (n : Nat) (rng : Rng)
    (hwf : viewWF t = true) (hlay : layOK t lay = true) (hn : 1 ≤ n)
    (hrng : multisOK n (lay.map (·.2)) rng.multis = true)
    (hpos : ∀ l ∈ lay, 0 < l.2.sum) :
    ∃ outs, kernelWith (lay.map (·.2)) rng.multis = .ok outs ∧
      (finish t (denseAfter t.oids.length lay outs)).wfb = true ∧
      (finish t (denseAfter t.oids.length lay outs)).oids.isSublist t.oids = true ∧
      (colSums (finish t (denseAfter t.oids.length lay outs)).oids.length
        (finish t (denseAfter t.oids.length lay outs)).vecs).all (fun s => decide (0 < s)) = true ∧
      (finish t (denseAfter t.oids.length lay outs)).ids =
        t.ids.filter (fun id => decide (0 < ((t.vec? id).getD []).sum)) ∧
      (finish t (denseAfter t.oids.length lay outs)).vecs.all (fun v => v.sum == n) = true ∧
      cellsRel (fun a b => a == 0 || decide (0 < b)) t (finish t (denseAfter t.oids.length lay outs)) = true := by
  obtain ⟨outs, hk, hol, hspec⟩ := kernelWith_spec n _ _ hrng
    (by intro v hv; obtain ⟨l, hl, rfl⟩ := List.mem_map.mp hv; exact hpos l hl)
  have hst := stage1_of t lay outs
    (fun v d => d.length = t.oids.length ∧ decide (0 < d.sum) = decide (0 < v.sum) ∧ (0 < d.sum → d.sum = n) ∧
      ∀ j, (d.getD j 0 == 0 || decide (0 < v.getD j 0)) = true)
    hlay (by simpa using hol)
    (by
      intro i v l o hv hl ho hlv
      have hl2 : (lay.map (·.2))[i]? = some l.2 := by simp [hl]
      obtain ⟨w1, w2, w3⟩ := hspec i l.2 o hl2 ho
      obtain ⟨d1, d2, d3, d4⟩ := dense_vec t.oids.length v l o hlv w1
      have hlpos := hpos l (List.mem_of_getElem? hl)
      refine ⟨d1, ?_, ?_, ?_⟩
      · rw [d2, d3, w2]; simp only [decide_eq_decide]; omega
      · intro _; rw [d2, w2]
      · intro j
        apply d4 (fun a b => (a == 0 || decide (0 < b)) = true) (by simp)
        intro k
        show (o.getD k 0 == 0 || decide (0 < l.2.getD k 0)) = true
        by_cases hz : l.2.getD k 0 = 0
        · rw [w3 k hz]; rfl
        · have : decide (0 < l.2.getD k 0) = true := decide_eq_true (by omega)
          rw [this, Bool.or_true])
  exact ⟨outs, hk, finish_clauses t _ n (fun v => decide (0 < v.sum))
    (fun a b => a == 0 || decide (0 < b)) hwf hst.1 hst.2⟩

/-! the filter that runs before the kernel when sampling with replacement -/

theorem dropEmpty_wf (t : View) (hwf : viewWF t = true) : viewWF (dropEmpty t) = true := by
  obtain ⟨⟨hvl, hvr⟩, hnid, hnoid⟩ := (viewWF_iff t).mp hwf
  rw [viewWF_iff]
  refine ⟨⟨filterMask_length_eq t.vecs t.ids _ hvl, fun v hv => hvr v (mem_of_mem_filterMask hv)⟩,
    (filterMask_sublist _ _).nodup hnid, hnoid⟩

theorem dropEmpty_pos (t : View) : ∀ v ∈ (dropEmpty t).vecs, 0 < v.sum := by
  intro v hv
  simp only [dropEmpty, filterMask_map_self, List.mem_filter, decide_eq_true_eq] at hv
  exact hv.2

theorem dropEmpty_ids (t : View) (hwf : viewWF t = true) :
    (dropEmpty t).ids = t.ids.filter (fun id => decide (0 < t.total id)) := by
  obtain ⟨⟨hvl, _⟩, hnid, _⟩ := (viewWF_iff t).mp hwf
  exact filterMask_ids_by_value (fun v => decide (0 < v.sum)) t.ids t.vecs [] hnid hvl.symm

theorem dropEmpty_vec? (t : View) (hwf : viewWF t = true) (id : Id) (h : id ∈ (dropEmpty t).ids) :
    (dropEmpty t).vec? id = t.vec? id := by
  obtain ⟨_, hnid, _⟩ := (viewWF_iff t).mp hwf
  exact lookupBy_filterMask t.ids t.vecs _ id hnid h

/-- every stored vector of a layout of the filtered table has a positive total -/
theorem lay_pos_of_layOK (t : View) (lay : Lay) (hlay : layOK t lay = true) (hp : ∀ v ∈ t.vecs, 0 < v.sum) :
    ∀ l ∈ lay, 0 < l.2.sum := by
  intro l hl
  simp only [layOK, Bool.and_eq_true, beq_iff_eq, List.all_eq_true] at hlay
  obtain ⟨i, hi⟩ := List.mem_iff_getElem?.mp hl
  have hil : i < lay.length := (List.getElem?_eq_some_iff.mp hi).1
  have hv : t.vecs[i]? = some (t.vecs[i]'(by omega)) := List.getElem?_eq_getElem (by omega)
  have hz : (t.vecs.zip lay)[i]? = some (t.vecs[i]'(by omega), l) := List.getElem?_zip_eq_some.mpr ⟨hv, hi⟩
  have hok := hlay.2 _ (List.mem_of_getElem? hz)
  obtain ⟨_, _, d3, _⟩ := dense_vec t.oids.length _ l l.2 hok rfl
  have := hp _ (List.mem_of_getElem? hv)
  rw [← d3]; exact this

/-- **with replacement** (FULL at table level): vectors without any count are dropped before the
kernel, every other vector sums to `n` and is non-zero only where the original was — for every table,
every layout of the filtered table, `n ≥ 1`, every multinomial answer within numpy's contract -/
theorem model_holds_withRepl (t : View) (lay : Lay) (n : Nat) (rng : Rng)
    (hwf : viewWF t = true) (hlay : layOK (dropEmpty t) lay = true) (hn : 1 ≤ n)
    (hrng : multisOK n (lay.map (·.2)) rng.multis = true) :
    holds t n .withRepl (run t lay n .withRepl rng) = true := by
  have hwf1 := dropEmpty_wf t hwf
  obtain ⟨outs, hk, c1, c2, c3, c4, c5, c6⟩ := withRepl_core (dropEmpty t) lay n rng hwf1 hlay hn hrng
    (lay_pos_of_layOK _ lay hlay (dropEmpty_pos t))
  have hoids : (dropEmpty t).oids = t.oids := rfl
  rw [hoids] at c1 c2 c3 c4 c5 c6
  -- the retained IDs, in terms of the input table
  have hids : (finish (dropEmpty t) (denseAfter t.oids.length lay outs)).ids =
      t.ids.filter (fun id => decide (0 < t.total id)) := by
    rw [c4]
    have : (dropEmpty t).ids.filter (fun id => decide (0 < (((dropEmpty t).vec? id).getD []).sum)) =
        (dropEmpty t).ids.filter (fun id => decide (0 < t.total id)) := by
      apply List.filter_congr
      intro id hid
      rw [dropEmpty_vec? t hwf id hid]; rfl
    rw [this, dropEmpty_ids t hwf, List.filter_filter]
    apply List.filter_congr
    intro id _
    simp
  have hcells : cellsRel (fun a b => a == 0 || decide (0 < b)) t
      (finish (dropEmpty t) (denseAfter t.oids.length lay outs)) = true := by
    simp only [cellsRel, List.all_eq_true] at c6 ⊢
    intro id hid o ho
    have hmem : id ∈ (dropEmpty t).ids := by
      rw [c4] at hid; exact (List.mem_filter.mp hid).1
    have hcell : (dropEmpty t).cell? id o = t.cell? id o := by
      simp only [View.cell?, dropEmpty_vec? t hwf id hmem]; rfl
    have := c6 id hid o ho
    rw [hcell] at this
    exact this
  simp only [holds, clauses, run, subsample, hk, List.all_cons, List.all_nil, List.cons_append, List.nil_append,
    Bool.and_true, Bool.and_eq_true, beq_iff_eq, decide_true, true_and]
  exact ⟨c1, c2, c3, hids, c5, hcells⟩

/-- by ID: `min n N` IDs, in the original order, other-axis IDs exactly those still non-zero,
values unchanged — for every shuffle the generator may return -/
theorem model_holds_byId (t : View) (lay : Lay) (n : Nat) (rng : Rng)
    (hwf : viewWF t = true) (hperm : rng.shuffled.isPerm t.ids = true) :
    holds t n .byId (run t lay n .byId rng) = true := by
  obtain ⟨⟨hvl, hvr⟩, hnid, hnoid⟩ := (viewWF_iff t).mp hwf
  have hp : rng.shuffled.Perm t.ids := List.isPerm_iff.mp hperm
  have hrow' : ∀ v ∈ filterMask t.vecs (t.ids.map (fun id => (rng.shuffled.take n).contains id)),
      v.length = t.oids.length := fun v hv => hvr v (mem_of_mem_filterMask hv)
  simp only [holds, clauses, run, subsample, List.all_cons, List.all_nil, List.cons_append, List.nil_append,
    Bool.and_true, Bool.and_eq_true, beq_iff_eq, decide_true, true_and]
  refine ⟨?_, otherFilter_sublist _ _ _, otherFilter_nonzero _ _ _ hrow', ?_, ?_, ?_, ?_⟩
  · exact otherFilter_wfb _ _ _ (filterMask_length_eq t.vecs t.ids _ hvl) hrow'
  · rw [otherFilter_ids, List.isSublist_iff_sublist]
    exact filterMask_sublist _ _
  · rw [otherFilter_ids, filterMask_map_self]
    have hS : (rng.shuffled.take n).Nodup :=
      (List.take_sublist n _).nodup (hp.nodup_iff.mpr hnid)
    have hperm2 : (t.ids.filter (fun id => (rng.shuffled.take n).contains id)).Perm (rng.shuffled.take n) := by
      rw [List.perm_ext_iff_of_nodup ((List.filter_sublist).nodup hnid) hS]
      intro a
      simp only [List.mem_filter, List.contains_iff_mem]
      constructor
      · exact fun h => h.2
      · exact fun h => ⟨hp.subset ((List.take_sublist n _).subset h), h⟩
    rw [hperm2.length_eq, List.length_take, hp.length_eq]
  · rw [otherFilter_ids, otherFilter_oids]
    have : (filterMask t.ids (t.ids.map (fun id => (rng.shuffled.take n).contains id))).map
        (fun id => (t.vec? id).getD []) = filterMask t.vecs (t.ids.map (fun id => (rng.shuffled.take n).contains id)) :=
      map_lookupBy_filterMask t.ids t.vecs _ [] hnid hvl.symm
    rw [this]
  · apply cellsRel_filters (fun a b => a == b) t t.vecs _ hwf rfl hvr
    intro i v d hv hd j
    rw [hv] at hd
    cases hd
    simp

/-- **all modes at once**; `pre` spells out every hypothesis (shape and distinct IDs, `n ≥ 1`, the
layout scipy hands to the kernel, numpy's contract for the generator's answers) -/
theorem model_holds (t : View) (lay : Lay) (n : Nat) (mode : Mode) (rng : Rng)
    (h : pre t lay n mode rng = true) : holds t n mode (run t lay n mode rng) = true := by
  cases mode with
  | without =>
    simp only [pre, Bool.and_eq_true, decide_eq_true_eq] at h
    exact model_holds_without t lay n rng h.1.1 h.2.1 h.1.2 h.2.2
  | withRepl =>
    simp only [pre, Bool.and_eq_true, decide_eq_true_eq] at h
    exact model_holds_withRepl t lay n rng h.1.1 h.2.1 h.1.2 h.2.2
  | byId =>
    simp only [pre, Bool.and_eq_true, decide_eq_true_eq] at h
    exact model_holds_byId t lay n rng h.1.1 h.2

/-- the kernel itself still needs its guard (`kernelWith_spec`: every vector has a positive total):
handed a vector without any stored entry, `biom.subsample(arr, n, True, rng)` raises, because numpy's
multinomial refuses an empty probability vector — whatever the generator would have answered -/
theorem kernelWith_empty_vector_witness (ms : List (List Nat)) :
    kernelWith [[], [1, 2]] ms = .error .value := by
  simp [kernelWith]

/-- the input that used to raise (`Table([[0,1],[0,2]]).subsample(2, with_replacement=True)`, sample
axis): the all-zero sample is dropped before the kernel, the other one is resampled -/
theorem withRepl_empty_vector_repaired :
    let t : View := { ids := ["x", "y"], oids := ["a", "b"], vecs := [[0, 0], [1, 2]] }
    let lay : Lay := [([0, 1], [1, 2])]
    let rng : Rng := { multis := [[1, 1]] }
    pre t lay 2 .withRepl rng = true ∧
      (run t lay 2 .withRepl rng).result = .ok { ids := ["y"], oids := ["a", "b"], vecs := [[1, 1]] } := by
  decide

/-! ### the property's sentences, one by one -/

/-- "exactly the vectors whose total was at least n are retained" -/
theorem retained_iff_total_ge_n (t : View) (lay : Lay) (n : Nat) (rng : Rng)
    (hwf : viewWF t = true) (hlay : layOK t lay = true) (hn : 1 ≤ n)
    (hrng : choicesOK n (lay.map (·.2)) rng.choices = true) :
    ∃ r, subsample t lay n .without rng = .ok r ∧
      ∀ id, id ∈ r.ids ↔ id ∈ t.ids ∧ n ≤ t.total id := by
  have h := model_holds_without t lay n rng hwf hlay hn hrng
  obtain ⟨outs, hk, _, _⟩ := kernelWithout_spec n hn _ _ hrng
  simp only [holds, clauses, run, subsample, hk, List.all_cons, List.all_nil, List.cons_append, List.nil_append,
    Bool.and_true, Bool.and_eq_true, beq_iff_eq, decide_true, true_and] at h
  refine ⟨finish t (denseAfter t.oids.length lay outs), by simp only [subsample, hk], ?_⟩
  intro id
  rw [h.2.2.2.1]
  simp [List.mem_filter]

/-- "every retained vector sums to exactly n, every entry is a natural not exceeding the original" -/
theorem without_sum_and_bound (t : View) (lay : Lay) (n : Nat) (rng : Rng)
    (hwf : viewWF t = true) (hlay : layOK t lay = true) (hn : 1 ≤ n)
    (hrng : choicesOK n (lay.map (·.2)) rng.choices = true) :
    ∃ r, subsample t lay n .without rng = .ok r ∧ (∀ v ∈ r.vecs, v.sum = n) ∧
      ∀ id ∈ r.ids, ∀ o ∈ r.oids, ∃ a b, r.cell? id o = some a ∧ t.cell? id o = some b ∧ a ≤ b := by
  have h := model_holds_without t lay n rng hwf hlay hn hrng
  obtain ⟨outs, hk, _, _⟩ := kernelWithout_spec n hn _ _ hrng
  simp only [holds, clauses, run, subsample, hk, List.all_cons, List.all_nil, List.cons_append, List.nil_append,
    Bool.and_true, Bool.and_eq_true, beq_iff_eq, decide_true, true_and] at h
  refine ⟨finish t (denseAfter t.oids.length lay outs), by simp only [subsample, hk], ?_, ?_⟩
  · intro v hv
    have := List.all_eq_true.mp h.2.2.2.2.1 v hv
    simpa using this
  · intro id hid o ho
    have := List.all_eq_true.mp (List.all_eq_true.mp h.2.2.2.2.2 id hid) o ho
    revert this
    cases h1 : View.cell? _ id o <;> cases h2 : t.cell? id o <;> simp

/-- "vectors of the other axis left all-zero are dropped": whatever the mode, no vector of the
other axis of a returned table is all-zero, and the other axis keeps its order -/
theorem other_axis_empty_dropped (t : View) (lay : Lay) (n : Nat) (mode : Mode) (rng : Rng) (r : View)
    (hwf : viewWF t = true) (hlay : mode ≠ .byId → layOK t lay = true)
    (h : subsample t lay n mode rng = .ok r) :
    r.oids.Sublist t.oids ∧ ∀ s ∈ colSums r.oids.length r.vecs, 0 < s := by
  obtain ⟨⟨hvl, hvr⟩, hnid, hnoid⟩ := (viewWF_iff t).mp hwf
  have key : ∀ (ids : List Id) (d : List (List Nat)), (∀ v ∈ d, v.length = t.oids.length) →
      (otherFilter ids t.oids d).oids.Sublist t.oids ∧
        ∀ s ∈ colSums (otherFilter ids t.oids d).oids.length (otherFilter ids t.oids d).vecs, 0 < s := by
    intro ids d hd
    refine ⟨List.isSublist_iff_sublist.mp (otherFilter_sublist _ _ _), ?_⟩
    intro s hs
    simpa using List.all_eq_true.mp (otherFilter_nonzero ids t.oids d hd) s hs
  have hdense : ∀ outs, ∀ v ∈ filterMask (denseAfter t.oids.length lay outs)
      ((denseAfter t.oids.length lay outs).map (fun v => decide (0 < v.sum))), v.length = t.oids.length := by
    intro outs v hv
    have := mem_of_mem_filterMask hv
    simp only [denseAfter, List.mem_map] at this
    obtain ⟨lo, _, rfl⟩ := this
    exact scatter_length _ _ _
  cases mode with
  | byId =>
    simp only [subsample, Except.ok.injEq] at h
    subst h
    exact key _ _ (fun v hv => hvr v (mem_of_mem_filterMask hv))
  | without =>
    simp only [subsample] at h
    split at h
    · cases h
    · simp only [Except.ok.injEq] at h; subst h; exact key _ _ (hdense _)
  | withRepl =>
    simp only [subsample] at h
    split at h
    · cases h
    · simp only [Except.ok.injEq] at h; subst h; exact key _ _ (hdense _)

/-- "Subsampling by ID keeps min(n, N) IDs": exactly the first `n` of the shuffled IDs, in the
table's order -/
theorem byId_keeps_min (t : View) (lay : Lay) (n : Nat) (rng : Rng)
    (hwf : viewWF t = true) (hperm : rng.shuffled.isPerm t.ids = true) :
    ∃ r, subsample t lay n .byId rng = .ok r ∧ r.ids.length = min n t.ids.length ∧ r.ids.Sublist t.ids ∧
      ∀ id, id ∈ r.ids ↔ id ∈ rng.shuffled.take n := by
  have h := model_holds_byId t lay n rng hwf hperm
  simp only [holds, clauses, run, subsample, List.all_cons, List.all_nil, List.cons_append, List.nil_append,
    Bool.and_true, Bool.and_eq_true, beq_iff_eq, decide_true, true_and] at h
  refine ⟨_, rfl, h.2.2.2.2.1, List.isSublist_iff_sublist.mp h.2.2.2.1, ?_⟩
  intro id
  have hp : rng.shuffled.Perm t.ids := List.isPerm_iff.mp hperm
  rw [otherFilter_ids, filterMask_map_self]
  simp only [List.mem_filter, List.contains_iff_mem]
  exact ⟨fun h => h.2, fun h => ⟨hp.subset ((List.take_sublist n _).subset h), h⟩⟩

/-- "the same seed reproduces the same result": the result is a function of the generator's answers -/
theorem deterministic_in_rng_output (t : View) (lay : Lay) (n : Nat) (mode : Mode) (r1 r2 : Rng)
    (h : r1 = r2) : run t lay n mode r1 = run t lay n mode r2 := by rw [h]

/-- "the input table is never modified" (the model works on the copy; the harness checks the real table) -/
theorem input_unchanged (t : View) (lay : Lay) (n : Nat) (mode : Mode) (rng : Rng) :
    (run t lay n mode rng).after = t := rfl

/-! ### the hypotheses are met by concrete, non-trivial inputs -/

/-- the 4x3 table of the repaired defect along observations, n = 3, the generator's answers of seed 1 -/
def exT : View := { ids := ["a", "b", "c", "d"], oids := ["x", "y", "z"], vecs := [[1, 2, 0], [2, 1, 3], [3, 3, 4], [0, 2, 1]] }
def exLay : Lay := [([0, 1], [1, 2]), ([0, 1, 2], [2, 1, 3]), ([0, 1, 2], [3, 3, 4]), ([1, 2], [2, 1])]
def exRng : Rng := { choices := [[0, 1, 2], [3, 4, 0], [1, 7, 9], [0, 1, 2]] }

example : viewWF exT = true ∧ layOK exT exLay = true ∧ choicesOK 3 (exLay.map (·.2)) exRng.choices = true := by
  decide

example : subsample exT exLay 3 .without exRng =
    .ok { ids := ["a", "b", "c", "d"], oids := ["x", "y", "z"], vecs := [[1, 2, 0], [1, 0, 2], [1, 0, 2], [0, 2, 1]] } := by
  decide

/-- a vector below n is dropped, and the other axis loses the IDs left without counts -/
example : subsample exT exLay 4 .without { choices := [[4, 0, 1, 3], [7, 1, 0, 6]] } =
    .ok { ids := ["b", "c"], oids := ["x", "z"], vecs := [[2, 2], [2, 2]] } := by
  decide

example : choicesOK 4 (exLay.map (·.2)) [[4, 0, 1, 3], [7, 1, 0, 6]] = true := by decide

example : walk [3, 0, 2, 4] [0, 2, 3, 8] = .ok [2, 0, 1, 1] := by decide
example : walk [3, 0, 2, 4] [4, 5, 6, 7, 8] = .ok [0, 0, 1, 4] := by decide
/-- a position outside the vector makes the checked read fail: the hypothesis of `walk_hist` is needed -/
example : walk [3, 0, 2, 4] [8, 9] = .error .index := by decide

example : multisOK 2 [[1, 2], [5]] [[0, 2], [2]] = true ∧
    subsample { ids := ["x", "y"], oids := ["a", "b"], vecs := [[1, 2], [0, 5]] } [([0, 1], [1, 2]), ([1], [5])] 2 .withRepl
      { multis := [[0, 2], [2]] } = .ok { ids := ["x", "y"], oids := ["b"], vecs := [[2], [2]] } := by
  decide

example : (["z", "x", "y"] : List Id).isPerm ["x", "y", "z"] = true ∧
    subsample { ids := ["x", "y", "z"], oids := ["a", "b"], vecs := [[0, 0], [1, 2], [0, 0]] } [] 2 .byId
      { shuffled := ["z", "x", "y"] } = .ok { ids := ["x", "z"], oids := [], vecs := [[], []] } := by
  decide

end Biom.C12
