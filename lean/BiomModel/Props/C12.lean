import BiomModel.C12
namespace Biom.C12
theorem deterministic_in_rng_output (t : View) (lay : Lay) (n : Nat) (mode : Mode) (r1 r2 : Rng)
    (h : r1 = r2) : subsample t lay n mode r1 = subsample t lay n mode r2 := by rw [h]
end Biom.C12
