/-
  C16 — property theorems.  All sizes, all layouts (any index order inside a vector), all ID lists,
  all metadata, all histories of read accessors of any length, all export/query functions.
-/
import BiomModel.Lemmas.C16

namespace Biom.C16
open Biom

variable {α : Type}

/-! ### kernel: `_data_equality` is representation-free on layouts without stored zeros -/

/-- For well-formed layouts without stored zeros — any index order inside the vectors —
`_data_equality` answers `True` exactly when shape and dense content coincide. -/
theorem dataEq_rep_free [Zero α] [DecidableEq α] (c₁ c₂ : CS α) (h₁ : c₁.WF) (h₂ : c₂.WF)
    (z₁ : c₁.NoStoredZeros) (z₂ : c₂.NoStoredZeros) :
    dataEq c₁ c₂ = true ↔
      (c₁.nMajor = c₂.nMajor ∧ c₁.nMinor = c₂.nMinor ∧ c₁.toDense = c₂.toDense) := by
  unfold dataEq
  by_cases hM : c₁.nMajor = c₂.nMajor
  · by_cases hm : c₁.nMinor = c₂.nMinor
    · have hne := neCount_eq_zero_iff c₁ c₂ h₁ h₂ hM hm
      by_cases hd : c₁.toDense = c₂.toDense
      · have hs : storedCount c₁ = storedCount c₂ := by
          rw [storedCount_eq_nnzDense c₁ h₁ z₁, storedCount_eq_nnzDense c₂ h₂ z₂, hd]
        have h0 : neCount c₁ c₂ = 0 := hne.mpr hd
        simp [hM, hm, hs, h0, hd]
      · have h0 : neCount c₁ c₂ ≠ 0 := fun h => hd (hne.mp h)
        have : neCount c₁ c₂ > 0 := Nat.pos_of_ne_zero h0
        simp [hM, hm, hd, this]
    · simp [hm]
  · simp [hM]

/-- non-empty matrices: the shape is part of the content -/
theorem dataEq_rep_free_nonempty [Zero α] [DecidableEq α] (c₁ c₂ : CS α) (h₁ : c₁.WF) (h₂ : c₂.WF)
    (z₁ : c₁.NoStoredZeros) (z₂ : c₂.NoStoredZeros) (hne : 0 < c₁.nMajor) :
    dataEq c₁ c₂ = true ↔ c₁.toDense = c₂.toDense := by
  rw [dataEq_rep_free c₁ c₂ h₁ h₂ z₁ z₂]
  constructor
  · exact fun h => h.2.2
  · intro h
    have hM : c₁.nMajor = c₂.nMajor := by
      rw [← toDense_length c₁, ← toDense_length c₂, h]
    refine ⟨hM, ?_, h⟩
    have hmem : c₁.toDense[0]'(by rw [toDense_length]; exact hne) ∈ c₁.toDense := List.getElem_mem _
    have l1 := toDense_row_length c₁ _ hmem
    have l2 := toDense_row_length c₂ _ (by rw [← h]; exact hmem)
    omega

/-- what `_data_equality` does in general (stored zeros allowed): it also compares the raw
stored-entry counts -/
theorem dataEq_general [Zero α] [DecidableEq α] (c₁ c₂ : CS α) (h₁ : c₁.WF) (h₂ : c₂.WF) :
    dataEq c₁ c₂ = true ↔
      (c₁.nMajor = c₂.nMajor ∧ c₁.nMinor = c₂.nMinor ∧ storedCount c₁ = storedCount c₂ ∧
        c₁.toDense = c₂.toDense) := by
  unfold dataEq
  by_cases hM : c₁.nMajor = c₂.nMajor
  · by_cases hm : c₁.nMinor = c₂.nMinor
    · have hne := neCount_eq_zero_iff c₁ c₂ h₁ h₂ hM hm
      by_cases hs : storedCount c₁ = storedCount c₂
      · by_cases hd : c₁.toDense = c₂.toDense
        · simp [hM, hm, hs, hne.mpr hd, hd]
        · have : neCount c₁ c₂ > 0 := Nat.pos_of_ne_zero (fun h => hd (hne.mp h))
          simp [hM, hm, hs, hd, this]
      · simp [hM, hm, hs]
    · simp [hm]
  · simp [hM]

/-- the hypothesis is needed at kernel level: the original defect's matrices — `[[1,0],[0,2]]`
with the zero of row 0 explicitly stored, against the same content stored canonically — are
well-formed, have the same dense content, and `_data_equality` says "unequal" -/
def witnessStored : CS Int :=
  { nMajor := 2, nMinor := 2, indptr := [0, 2, 3], indices := [0, 1, 1], data := [1, 0, 2] }
def witnessCanon : CS Int :=
  { nMajor := 2, nMinor := 2, indptr := [0, 1, 2], indices := [0, 1], data := [1, 2] }

theorem dataEq_stored_zero_witness :
    witnessStored.wfb = true ∧ witnessCanon.wfb = true ∧
    witnessStored.toDense = witnessCanon.toDense ∧
    dataEq witnessStored witnessCanon = false ∧
    dataEq (eliminateZeros witnessStored) witnessCanon = true := by
  decide

/-! ### table level: `==` is content equality -/

theorem dataEq_iff_dense_of_reach [Zero α] [DecidableEq α] (r₁ r₂ : Rep α) (h₁ : Reach r₁) (h₂ : Reach r₂)
    (ho : r₁.obs = r₂.obs) (hs : r₁.samp = r₂.samp) :
    dataEq r₁.data r₂.data = true ↔ r₁.data.toDense = r₂.data.toDense := by
  rw [dataEq_rep_free _ _ h₁.wf h₂.wf h₁.nz h₂.nz]
  have hM : r₁.data.nMajor = r₂.data.nMajor := by rw [h₁.nObs, h₂.nObs, ho]
  have hm : r₁.data.nMinor = r₂.data.nMinor := by rw [h₁.nSamp, h₂.nSamp, hs]
  exact ⟨fun h => h.2.2, fun h => ⟨hM, hm, h⟩⟩

/-- two tables compare equal exactly when they have the same type, the same IDs in the same order on
both axes, the same metadata on both axes and the same grid — whatever their layouts -/
theorem tableEq_iff_content [Zero α] [DecidableEq α] (r₁ r₂ : Rep α) (h₁ : Reach r₁) (h₂ : Reach r₂) :
    tableEq r₁ r₂ = true ↔ r₁.content = r₂.content := by
  rw [content_eq_iff]
  unfold tableEq
  by_cases ht : r₁.ttype = r₂.ttype
  · by_cases ho : r₁.obs = r₂.obs
    · by_cases hs : r₁.samp = r₂.samp
      · by_cases hom : r₁.omd = r₂.omd
        · by_cases hsm : r₁.smd = r₂.smd
          · have hd := dataEq_iff_dense_of_reach r₁ r₂ h₁ h₂ ho hs
            by_cases hde : dataEq r₁.data r₂.data = true
            · simp [ht, ho, hs, hom, hsm, hde, hd.mp hde]
            · have : ¬ r₁.data.toDense = r₂.data.toDense := fun h => hde (hd.mpr h)
              simp [ht, ho, hs, hom, hsm, hde, this]
          · simp [hsm]
        · simp [hom]
      · simp [hs]
    · simp [ho]
  · simp [ht]

theorem tableEq_iff_components [Zero α] [DecidableEq α] (r₁ r₂ : Rep α) (h₁ : Reach r₁) (h₂ : Reach r₂) :
    tableEq r₁ r₂ = true ↔ (r₁.ttype = r₂.ttype ∧ r₁.obs = r₂.obs ∧ r₁.samp = r₂.samp ∧
      r₁.omd = r₂.omd ∧ r₁.smd = r₂.smd ∧ r₁.data.toDense = r₂.data.toDense) := by
  rw [tableEq_iff_content r₁ r₂ h₁ h₂, content_eq_iff]

theorem tableEq_eq_decide [Zero α] [DecidableEq α] (r₁ r₂ : Rep α) (h₁ : Reach r₁) (h₂ : Reach r₂) :
    tableEq r₁ r₂ = decide (r₁.content = r₂.content) := by
  have := tableEq_iff_content r₁ r₂ h₁ h₂
  by_cases h : r₁.content = r₂.content
  · simp [h, this.mpr h]
  · have : tableEq r₁ r₂ = false := by
      cases hb : tableEq r₁ r₂ with
      | false => rfl
      | true => exact absurd (this.mp hb) h
    simp [h, this]

/-- the result of `==` does not depend on which representations of the two tables are compared -/
theorem tableEq_rep_free [Zero α] [DecidableEq α] (r₁ r₁' r₂ r₂' : Rep α) (h₁ : Reach r₁) (h₂ : Reach r₂)
    (s₁ : Stable r₁ r₁') (s₂ : Stable r₂ r₂') : tableEq r₁' r₂' = tableEq r₁ r₂ := by
  rw [tableEq_eq_decide r₁' r₂' s₁.1 s₂.1, tableEq_eq_decide r₁ r₂ h₁ h₂, s₁.2, s₂.2]

/-- equality is reflexive, symmetric and transitive -/
theorem eq_equiv [Zero α] [DecidableEq α] :
    (∀ r : Rep α, Reach r → tableEq r r = true) ∧
    (∀ r s : Rep α, Reach r → Reach s → tableEq r s = tableEq s r) ∧
    (∀ r s t : Rep α, Reach r → Reach s → Reach t →
      tableEq r s = true → tableEq s t = true → tableEq r t = true) := by
  refine ⟨?_, ?_, ?_⟩
  · intro r h; exact (tableEq_iff_content r r h h).mpr rfl
  · intro r s hr hs
    rw [tableEq_eq_decide r s hr hs, tableEq_eq_decide s r hs hr]
    exact decide_eq_decide.mpr ⟨Eq.symm, Eq.symm⟩
  · intro r s t hr hs ht h1 h2
    exact (tableEq_iff_content r t hr ht).mpr
      (((tableEq_iff_content r s hr hs).mp h1).trans ((tableEq_iff_content s t hs ht).mp h2))

/-- a copy equals its original, both ways round -/
theorem copy_eq [Zero α] [DecidableEq α] (r : Rep α) (h : Reach r) :
    tableEq r r.copy = true ∧ tableEq r.copy r = true ∧ r.copy.content = r.content :=
  ⟨(tableEq_iff_content r r h h).mpr rfl, (tableEq_iff_content r r h h).mpr rfl, rfl⟩

theorem tableEq_false_of_content_ne [Zero α] [DecidableEq α] (r₁ r₂ : Rep α) (h₁ : Reach r₁) (h₂ : Reach r₂)
    (hne : r₁.content ≠ r₂.content) : tableEq r₁ r₂ = false := by
  rw [tableEq_eq_decide r₁ r₂ h₁ h₂]; simpa using hne

/-- a single difference — one cell value (looked up by IDs), one ID or the ID order on either axis,
one metadata entry (looked up by ID) on either axis, or the type — makes the tables unequal -/
theorem neq_single_difference [Zero α] [DecidableEq α] (r₁ r₂ : Rep α) (h₁ : Reach r₁) (h₂ : Reach r₂) :
    ((∃ o s, r₁.content.cell? o s ≠ r₂.content.cell? o s) → tableEq r₁ r₂ = false) ∧
    (r₁.obs ≠ r₂.obs → tableEq r₁ r₂ = false) ∧
    (r₁.samp ≠ r₂.samp → tableEq r₁ r₂ = false) ∧
    ((∃ ax id, r₁.content.mdOf? ax id ≠ r₂.content.mdOf? ax id) → tableEq r₁ r₂ = false) ∧
    (r₁.ttype ≠ r₂.ttype → tableEq r₁ r₂ = false) := by
  have key : ∀ P : Prop, (r₁.content = r₂.content → ¬ P) → P → tableEq r₁ r₂ = false := by
    intro P hP hp
    exact tableEq_false_of_content_ne r₁ r₂ h₁ h₂ (fun h => hP h hp)
  refine ⟨key _ ?_, key _ ?_, key _ ?_, key _ ?_, key _ ?_⟩
  · rintro h ⟨o, s, hne⟩; exact hne (by rw [h])
  · intro h hne; exact hne (congrArg Table.obs h)
  · intro h hne; exact hne (congrArg Table.samp h)
  · rintro h ⟨ax, id, hne⟩; exact hne (by rw [h])
  · intro h hne; exact hne (congrArg Table.ttype h)

/-- the constructor yields a reachable table whose content is the input's content -/
theorem construct_reach [Zero α] [DecidableEq α] (ttype : Option String) (obs samp : List Id)
    (omd smd : Option (List (Option Md))) (input : CS α) (fmt : Fmt) (h : input.WF)
    (hM : input.nMajor = obs.length) (hm : input.nMinor = samp.length) :
    Reach (construct ttype obs samp omd smd input fmt) ∧
    (construct ttype obs samp omd smd input fmt).content =
      { obs := obs, samp := samp, rows := input.toDense, omd := normMd omd, smd := normMd smd,
        ttype := ttype } := by
  refine ⟨⟨eliminateZeros_wf _ h, eliminateZeros_noStoredZeros _, ?_, ?_⟩, ?_⟩
  · exact (eliminateZeros_nMajor _).trans hM
  · exact (eliminateZeros_nMinor _).trans hm
  · simp only [construct, Rep.content, eliminateZeros_toDense _ h]

/-- two constructions from any two well-formed inputs (stored zeros, any index order) compare equal
exactly when the inputs denote the same grid and IDs, normalised metadata and type coincide -/
theorem construct_eq_iff [Zero α] [DecidableEq α] (ty₁ ty₂ : Option String) (obs₁ obs₂ samp₁ samp₂ : List Id)
    (omd₁ omd₂ smd₁ smd₂ : Option (List (Option Md))) (c₁ c₂ : CS α) (f₁ f₂ : Fmt) (h₁ : c₁.WF) (h₂ : c₂.WF)
    (hM₁ : c₁.nMajor = obs₁.length) (hm₁ : c₁.nMinor = samp₁.length)
    (hM₂ : c₂.nMajor = obs₂.length) (hm₂ : c₂.nMinor = samp₂.length) :
    tableEq (construct ty₁ obs₁ samp₁ omd₁ smd₁ c₁ f₁) (construct ty₂ obs₂ samp₂ omd₂ smd₂ c₂ f₂) = true ↔
      (ty₁ = ty₂ ∧ obs₁ = obs₂ ∧ samp₁ = samp₂ ∧ normMd omd₁ = normMd omd₂ ∧
        normMd smd₁ = normMd smd₂ ∧ c₁.toDense = c₂.toDense) := by
  have r₁ := construct_reach ty₁ obs₁ samp₁ omd₁ smd₁ c₁ f₁ h₁ hM₁ hm₁
  have r₂ := construct_reach ty₂ obs₂ samp₂ omd₂ smd₂ c₂ f₂ h₂ hM₂ hm₂
  rw [tableEq_iff_components _ _ r₁.1 r₂.1]
  simp only [construct, eliminateZeros_toDense _ h₁, eliminateZeros_toDense _ h₂]

/-! ### `descriptive_equality`, checkpoints, histories -/

/-- `descriptive_equality` says "equal" exactly for equal content and otherwise names a component
that really differs -/
theorem describe_ok [Zero α] [DecidableEq α] (r₁ r₂ : Rep α) (h₁ : Reach r₁) (h₂ : Reach r₂) :
    descOk r₁.content r₂.content (describe r₁ r₂).name = true := by
  unfold describe
  by_cases ht : r₁.ttype = r₂.ttype
  · by_cases ho : r₁.obs = r₂.obs
    · by_cases hs : r₁.samp = r₂.samp
      · by_cases hom : r₁.omd = r₂.omd
        · by_cases hsm : r₁.smd = r₂.smd
          · have hd := dataEq_iff_dense_of_reach r₁ r₂ h₁ h₂ ho hs
            by_cases hde : dataEq r₁.data r₂.data = true
            · have hc : r₁.content = r₂.content :=
                (content_eq_iff r₁ r₂).mpr ⟨ht, ho, hs, hom, hsm, hd.mp hde⟩
              simp [ht, ho, hs, hom, hsm, hde, Desc.name, descOk, hc]
            · have hne : ¬ r₁.data.toDense = r₂.data.toDense := fun h => hde (hd.mpr h)
              simp [ht, ho, hs, hom, hsm, hde, Desc.name, descOk, Rep.content, hne]
          · simp [ht, ho, hs, hom, hsm, Desc.name, descOk, Rep.content]
        · simp [ht, ho, hs, hom, Desc.name, descOk, Rep.content]
      · simp [ht, ho, hs, Desc.name, descOk, Rep.content]
    · simp [ht, ho, Desc.name, descOk, Rep.content]
  · simp [ht, Desc.name, descOk, Rep.content]

/-- `descriptive_equality` and `==` agree -/
theorem describe_equal_iff_eq [Zero α] [DecidableEq α] (r₁ r₂ : Rep α) :
    describe r₁ r₂ = .equal ↔ tableEq r₁ r₂ = true := by
  unfold describe tableEq
  by_cases ht : r₁.ttype = r₂.ttype <;> by_cases ho : r₁.obs = r₂.obs <;>
    by_cases hs : r₁.samp = r₂.samp <;> by_cases hom : r₁.omd = r₂.omd <;>
    by_cases hsm : r₁.smd = r₂.smd <;> by_cases hde : dataEq r₁.data r₂.data = true <;>
    simp [ht, ho, hs, hom, hsm, hde]

/-- one checkpoint: all six comparisons are decided by content, and evaluating them leaves both
operands representations of the same tables -/
theorem checkpoint_ok [Zero α] [DecidableEq α] (conv : CS α → CS α) (hc : LayoutConv conv)
    (a b : Rep α) (ha : Reach a) (hb : Reach b) :
    checkOk a.content b.content (checkpoint conv a b).1 = true ∧
    Stable a (checkpoint conv a b).2.1 ∧ Stable b (checkpoint conv a b).2.2 := by
  have sa1 := eqEffect_stable conv hc a b ha
  have sb1 := eqEffect_stable conv hc b (eqEffect conv a b) hb
  have sa2 := eqEffect_stable conv hc _ (eqEffect conv b (eqEffect conv a b)) sa1.1
  have sb2 := eqEffect_stable conv hc _
    (eqEffect conv (eqEffect conv a b) (eqEffect conv b (eqEffect conv a b))) sb1.1
  have sa3 := eqEffect_stable conv hc _
    (eqEffect conv (eqEffect conv b (eqEffect conv a b))
      (eqEffect conv (eqEffect conv a b) (eqEffect conv b (eqEffect conv a b)))) sa2.1
  have sa2' := Stable.trans sa1 sa2
  have sb2' := Stable.trans sb1 sb2
  have sa3' := Stable.trans sa2' sa3
  have sb3 := eqEffect_stable conv hc _
    (eqEffect conv (eqEffect conv (eqEffect conv a b) (eqEffect conv b (eqEffect conv a b)))
      (eqEffect conv (eqEffect conv b (eqEffect conv a b))
        (eqEffect conv (eqEffect conv a b) (eqEffect conv b (eqEffect conv a b))))) sb2.1
  have sb3' := Stable.trans sb2' sb3
  refine ⟨?_, sa3', sb3'⟩
  have hsym : decide (b.content = a.content) = decide (a.content = b.content) :=
    decide_eq_decide.mpr ⟨Eq.symm, Eq.symm⟩
  have d1 := describe_ok _ _ sa2'.1 sb2'.1
  have d2 := describe_ok _ _ sb2'.1 sa3'.1
  rw [sa2'.2, sb2'.2] at d1
  rw [sb2'.2, sa3'.2] at d2
  simp only [checkpoint, checkOk, Bool.and_eq_true, beq_iff_eq]
  refine ⟨⟨⟨⟨⟨?_, ?_⟩, ?_⟩, ?_⟩, d1⟩, d2⟩
  · exact tableEq_eq_decide a b ha hb
  · rw [tableEq_eq_decide _ _ hb sa1.1, sa1.2, hsym]
  · rw [tableEq_eq_decide _ _ sa1.1 sb1.1, sa1.2, sb1.2]
  · rw [tableEq_eq_decide _ _ sb1.1 sa2'.1, sb1.2, sa2'.2, hsym]

theorem applyStep_stable [Zero α] [DecidableEq α] (conv : CS α → CS α) (hc : LayoutConv conv)
    (s : Step) (a b : Rep α) (ha : Reach a) (hb : Reach b) :
    Stable a (applyStep conv s a b).1 ∧ Stable b (applyStep conv s a b).2 := by
  unfold applyStep
  split
  · exact ⟨Stable.refl a ha, acc_apply_stable conv hc _ b hb⟩
  · exact ⟨acc_apply_stable conv hc _ a ha, Stable.refl b hb⟩

/-- any history of read accessors on either operand, of any length, with a checkpoint after every
step: every comparison is decided by the content the operands had at the start, and the content
never changes -/
theorem runChecks_ok [Zero α] [DecidableEq α] (conv : CS α → CS α) (hc : LayoutConv conv)
    (steps : List Step) (a b : Rep α) (ha : Reach a) (hb : Reach b) :
    (runChecks conv steps a b).1.all (checkOk a.content b.content) = true ∧
    (runChecks conv steps a b).1 ≠ [] ∧
    Stable a (runChecks conv steps a b).2.1 ∧ Stable b (runChecks conv steps a b).2.2 := by
  induction steps generalizing a b with
  | nil =>
    have h := checkpoint_ok conv hc a b ha hb
    simp only [runChecks, List.all_cons, List.all_nil, Bool.and_true]
    exact ⟨h.1, by simp, h.2.1, h.2.2⟩
  | cons s ss ih =>
    have h := checkpoint_ok conv hc a b ha hb
    have hs := applyStep_stable conv hc s _ _ h.2.1.1 h.2.2.1
    have sa := Stable.trans h.2.1 hs.1
    have sb := Stable.trans h.2.2 hs.2
    have hi := ih _ _ sa.1 sb.1
    rw [sa.2, sb.2] at hi
    simp only [runChecks, List.all_cons, Bool.and_eq_true]
    exact ⟨⟨h.1, hi.1⟩, by simp, Stable.trans sa hi.2.2.1, Stable.trans sb hi.2.2.2⟩

/-- "never on which read-only accessors were called earlier": after any history the operands have
the content they started with and compare as they did at the start -/
theorem history_irrelevant [Zero α] [DecidableEq α] (conv : CS α → CS α) (hc : LayoutConv conv)
    (steps : List Step) (a b : Rep α) (ha : Reach a) (hb : Reach b) :
    tableEq (runChecks conv steps a b).2.1 (runChecks conv steps a b).2.2 = tableEq a b ∧
    tableEq (runChecks conv steps a b).2.2 (runChecks conv steps a b).2.1 = tableEq b a ∧
    (runChecks conv steps a b).2.1.content = a.content ∧
    (runChecks conv steps a b).2.2.content = b.content := by
  have h := runChecks_ok conv hc steps a b ha hb
  exact ⟨tableEq_rep_free a _ b _ ha hb h.2.2.1 h.2.2.2, tableEq_rep_free b _ a _ hb ha h.2.2.2 h.2.2.1,
    h.2.2.1.2, h.2.2.2.2⟩

/-! ### the declarative predicates hold of the model -/

/-- exports and queries are functions of the content: equal tables export and answer the same -/
theorem eq_exports_equal [Zero α] [DecidableEq α] {β : Type} (f : Table α → β) (r₁ r₂ : Rep α)
    (h₁ : Reach r₁) (h₂ : Reach r₂) (heq : tableEq r₁ r₂ = true) : f r₁.content = f r₂.content := by
  rw [(tableEq_iff_content r₁ r₂ h₁ h₂).mp heq]

/-- per-cell and per-ID queries answer from the content, by ID -/
theorem modelCells_ok [DecidableEq α] (t : Table α) : cellsOk t (modelCells t) = true := by
  unfold cellsOk modelCells
  rw [List.all_eq_true]
  intro c hc
  simp only [List.mem_flatMap, List.mem_filterMap, Option.map_eq_some_iff] at hc
  obtain ⟨o, _, s, _, v, hv, rfl⟩ := hc
  simpa using hv

theorem modelVecs_ok [DecidableEq α] (t : Table α) : vecsOk t (modelVecs t) = true := by
  unfold vecsOk modelVecs
  rw [List.all_eq_true]
  intro c hc
  simp only [List.mem_append, List.mem_filterMap, Option.map_eq_some_iff] at hc
  rcases hc with ⟨o, _, v, hv, rfl⟩ | ⟨o, _, v, hv, rfl⟩ <;> simpa using hv

/-- pairs: for all reachable operands (equal or not), every history, every conversion honouring the
scipy contract, every family of export and query functions -/
theorem model_holds [Zero α] [DecidableEq α] (conv : CS α → CS α) (hc : LayoutConv conv)
    (exps : List (String × (Table α → Table α))) (qs : List (String × (Table α → String)))
    (steps : List Step) (a b : Rep α) (ha : Reach a) (hb : Reach b) :
    holdsPair (modelPair conv exps qs steps a b) = none := by
  have h := runChecks_ok conv hc steps a b ha hb
  have hexp : (!decide (a.content = b.content) ||
      (exps.map (fun e => (e.1, e.2 a.content, e.2 b.content))).all (fun e => decide (e.2.1 = e.2.2))) = true := by
    by_cases heq : a.content = b.content
    · simp [heq]
    · simp [heq]
  have hq : (!decide (a.content = b.content) ||
      (qs.map (fun q => (q.1, q.2 a.content, q.2 b.content))).all (fun q => decide (q.2.1 = q.2.2))) = true := by
    by_cases heq : a.content = b.content
    · simp [heq]
    · simp [heq]
  have hne : (!(runChecks conv steps a b).1.isEmpty) = true := by
    cases hl : (runChecks conv steps a b).1 with
    | nil => exact absurd hl h.2.1
    | cons _ _ => rfl
  simp only [holdsPair, modelPair, h.1, h.2.2.1.2, h.2.2.2.2, hexp, hq, hne, decide_true,
    modelCells_ok, modelVecs_ok,
    Bool.and_self, Codec.chk, Codec.allV, List.foldl, Codec.Verdict.and, if_true]

theorem family_eq_entry [Zero α] [DecidableEq α] (rs : List (Rep α)) (i j : Nat)
    (hi : i < rs.length) (hj : j < rs.length) :
    (modelFamily rs).eq i j = tableEq rs[i] rs[j] := by
  simp [FamilyObs.eq, modelFamily, List.getD, hi, hj]

/-- families of any size: the observed matrix of `==` results is reflexive, symmetric, transitive
and decided by content -/
theorem model_holds_family [Zero α] [DecidableEq α] (rs : List (Rep α)) (h : ∀ r ∈ rs, Reach r) :
    holdsFamily (modelFamily rs) = none := by
  have hlen : (modelFamily rs).ts.length = rs.length := by simp [modelFamily]
  have key : ∀ i j, i < rs.length → j < rs.length →
      (modelFamily rs).eq i j = decide ((modelFamily rs).ts[i]? = (modelFamily rs).ts[j]?) := by
    intro i j hi hj
    rw [family_eq_entry rs i j hi hj,
      tableEq_eq_decide _ _ (h _ (List.getElem_mem hi)) (h _ (List.getElem_mem hj))]
    simp [modelFamily, hi, hj]
  have c1 : ((modelFamily rs).eqs.length == (modelFamily rs).ts.length &&
      (modelFamily rs).eqs.all (·.length == (modelFamily rs).ts.length)) = true := by
    simp [modelFamily]
  have c2 : (List.range (modelFamily rs).ts.length).all (fun i => (modelFamily rs).eq i i) = true := by
    rw [hlen, List.all_eq_true]
    intro i hi
    rw [key i i (List.mem_range.mp hi) (List.mem_range.mp hi)]; simp
  have c3 : (List.range (modelFamily rs).ts.length).all (fun i =>
      (List.range (modelFamily rs).ts.length).all (fun j =>
        (modelFamily rs).eq i j == (modelFamily rs).eq j i)) = true := by
    rw [hlen]
    simp only [List.all_eq_true, List.mem_range, beq_iff_eq]
    intro i hi j hj
    rw [key i j hi hj, key j i hj hi]
    exact decide_eq_decide.mpr ⟨Eq.symm, Eq.symm⟩
  have c4 : (List.range (modelFamily rs).ts.length).all (fun i =>
      (List.range (modelFamily rs).ts.length).all (fun j =>
        (List.range (modelFamily rs).ts.length).all (fun k =>
          !((modelFamily rs).eq i j && (modelFamily rs).eq j k) || (modelFamily rs).eq i k))) = true := by
    rw [hlen]
    simp only [List.all_eq_true, List.mem_range]
    intro i hi j hj k hk
    rw [key i j hi hj, key j k hj hk, key i k hi hk]
    by_cases h1 : (modelFamily rs).ts[i]? = (modelFamily rs).ts[j]?
    · by_cases h2 : (modelFamily rs).ts[j]? = (modelFamily rs).ts[k]?
      · simp [h1.trans h2, h2]
      · simp [h2]
    · simp [h1]
  have c5 : (List.range (modelFamily rs).ts.length).all (fun i =>
      (List.range (modelFamily rs).ts.length).all (fun j =>
        (modelFamily rs).eq i j == decide ((modelFamily rs).ts[i]? = (modelFamily rs).ts[j]?))) = true := by
    rw [hlen]
    simp only [List.all_eq_true, List.mem_range, beq_iff_eq]
    intro i hi j hj
    exact key i j hi hj
  simp only [holdsFamily, c1, c2, c3, c4, c5, Codec.chk, Codec.allV, List.foldl, Codec.Verdict.and,
    if_true]

/-- kernel: on layouts without stored zeros the answer is content equality; with stored zeros the
predicate demands nothing (such matrices are not reachable through the constructor) -/
theorem model_holds_kernel [Zero α] [DecidableEq α] (c₁ c₂ : CS α) (h₁ : c₁.WF) (h₂ : c₂.WF) :
    holdsKernel (modelKernel c₁ c₂) = none := by
  have hz : ∀ c : CS α, noStoredZerosB c = true → c.NoStoredZeros := by
    intro c hc v hv
    have := List.all_eq_true.mp hc v hv
    simpa using this
  unfold holdsKernel modelKernel
  by_cases z₁ : noStoredZerosB c₁ = true
  · by_cases z₂ : noStoredZerosB c₂ = true
    · have hrf := dataEq_rep_free c₁ c₂ h₁ h₂ (hz _ z₁) (hz _ z₂)
      have : dataEq c₁ c₂ = decide ((c₁.nMajor, c₁.nMinor) = (c₂.nMajor, c₂.nMinor) ∧
          c₁.toDense = c₂.toDense) := by
        by_cases hd : dataEq c₁ c₂ = true
        · have := hrf.mp hd
          simp [hd, this.1, this.2.1, this.2.2]
        · have hnot : ¬ ((c₁.nMajor, c₁.nMinor) = (c₂.nMajor, c₂.nMinor) ∧ c₁.toDense = c₂.toDense) := by
            rintro ⟨hs, hdd⟩
            simp only [Prod.mk.injEq] at hs
            exact hd (hrf.mpr ⟨hs.1, hs.2, hdd⟩)
          have hf : dataEq c₁ c₂ = false := by simpa using hd
          rw [hf]; exact (decide_eq_false hnot).symm
      simp [z₁, z₂, this, Codec.chk]
    · simp [z₂, Codec.chk]
  · simp [z₁, Codec.chk]

/-! ### non-vacuity -/

/-- the original defect's operands: sparse input with one explicitly stored zero, reversed index
order in row 0, against the canonical layout; plus metadata given as `None`/`{}` entries -/
def demoA : Rep Int :=
  construct (some "OTU table") ["o1", "o2"] ["s1", "s2"] (some [none, some []]) none
    { nMajor := 2, nMinor := 2, indptr := [0, 2, 3], indices := [1, 0, 1], data := [0, 1, 2] }
def demoB : Rep Int :=
  construct (some "OTU table") ["o1", "o2"] ["s1", "s2"] none none witnessCanon
def demoC : Rep Int :=
  construct (some "OTU table") ["o1", "o2"] ["s1", "s2"] none none
    { nMajor := 2, nMinor := 2, indptr := [0, 1, 2], indices := [0, 1], data := [1, 3] }

/-- unsorted indices survive the constructor (no zero to drop) and do not matter -/
def demoD : Rep Int :=
  construct none ["o1", "o2"] ["s1", "s2"] none none
    { nMajor := 2, nMinor := 2, indptr := [0, 2, 3], indices := [1, 0, 1], data := [5, 1, 2] }
def demoE : Rep Int :=
  construct none ["o1", "o2"] ["s1", "s2"] none none
    { nMajor := 2, nMinor := 2, indptr := [0, 2, 3], indices := [0, 1, 1], data := [1, 5, 2] }
example : demoD.data.indices = [1, 0, 1] ∧ demoE.data.indices = [0, 1, 1] ∧
    tableEq demoD demoE = true ∧ tableEq demoE demoD = true := by decide

example : Reach demoA :=
  (construct_reach _ _ _ _ _ _ _ (by constructor <;> decide) rfl rfl).1
example : Reach demoB :=
  (construct_reach _ _ _ _ _ _ _ (by constructor <;> decide) rfl rfl).1
example : demoA.data.indices = [0, 1] ∧ demoA.content.rows = [[1, 0], [0, 2]] := by decide
example : tableEq demoA demoB = true ∧ tableEq demoB demoA = true ∧ tableEq demoA demoC = false := by decide
example : (runChecks id [(false, .vecSamp), (true, .nnz), (false, .plain)] demoA demoB).1.length = 4 := by decide
example : (runChecks id [(false, .vecSamp)] demoA demoB).2.1.fmt = .csr ∧
    (Acc.apply id .vecSamp demoA).fmt = .csc := by decide
example : holdsPair (modelPair id [("tsv", fun t => t)] [("shape", fun t => toString t.obs.length)]
    [(false, .vecSamp), (true, .nnz)] demoA demoC) = none := by decide
example : describe demoA demoC = .data := by decide
example : holdsFamily (modelFamily [demoA, demoB, demoC]) = none := by decide
/-- the predicates are not trivially true: a wrong `==` result, a changed content or diverging
exports are refused -/
example : holdsPair ({ modelPair id [] [] [] demoA demoB with
    checks := [{ eqAB := false, eqBA := true, neAB := false, neBA := false, descAB := "equal", descBA := "equal" }] }) =
    some "eq-iff-content" := by decide
example : holdsPair ({ modelPair id [] [] [] demoA demoB with exports := [("tsv", demoA.content, demoC.content)] }) =
    some "exports-of-equal-tables-differ" := by decide
example : holdsPair ({ modelPair id [] [] [] demoA demoB with cellsA := [("o2", "s2", 0)] }) =
    some "cell-query-differs-from-content" := by decide
example : (modelPair id [] [] [] demoA demoB).cellsA.length = 4 ∧
    (modelPair id [] [] [] demoA demoB).vecsB.length = 4 := by decide
example : holdsFamily { ts := [demoA.content, demoB.content], eqs := [[true, false], [true, true]] } =
    some "symmetric" := by decide
example : holdsKernel (modelKernel witnessStored witnessCanon) = none ∧
    holdsKernel { modelKernel witnessCanon witnessCanon with result := false } = some "data-eq-iff-dense" := by
  decide

end Biom.C16
