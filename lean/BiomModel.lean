import BiomModel.Basic
import BiomModel.Codec
