import BiomModel.Basic
import BiomModel.Codec
import BiomModel.Sparse
