import BiomModel.C18
def main : IO Unit := Biom.Codec.driverMain Biom.C18.handle
