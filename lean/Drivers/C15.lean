import BiomModel.C15
def main : IO Unit := Biom.Codec.driverMain Biom.C15.handle
