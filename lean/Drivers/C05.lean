import BiomModel.C05
def main : IO Unit := Biom.Codec.driverMain Biom.C05.handle
