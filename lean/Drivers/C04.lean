import BiomModel.C04
def main : IO Unit := Biom.Codec.driverMain Biom.C04.handle
