import BiomModel.C09
def main : IO Unit := Biom.Codec.driverMain Biom.C09.handle
