import BiomModel.C06
def main : IO Unit := Biom.Codec.driverMain Biom.C06.handle
