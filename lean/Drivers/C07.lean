import BiomModel.C07
def main : IO Unit := Biom.Codec.driverMain Biom.C07.handle
