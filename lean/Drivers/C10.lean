import BiomModel.C10
def main : IO Unit := Biom.Codec.driverMain Biom.C10.handle
