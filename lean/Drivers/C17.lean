import BiomModel.C17
def main : IO Unit := Biom.Codec.driverMain Biom.C17.handle
