import BiomModel.C19
def main : IO Unit := Biom.Codec.driverMain Biom.C19.handle
