import BiomModel.C16
def main : IO Unit := Biom.Codec.driverMain Biom.C16.handle
