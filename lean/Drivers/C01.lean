import BiomModel.C01
def main : IO Unit := Biom.Codec.driverMain Biom.C01.handle
