import BiomModel.C12
def main : IO Unit := Biom.Codec.driverMain Biom.C12.handle
