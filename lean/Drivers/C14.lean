import BiomModel.C14
def main : IO Unit := Biom.Codec.driverMain Biom.C14.handle
