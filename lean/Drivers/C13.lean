import BiomModel.C13
def main : IO Unit := Biom.Codec.driverMain Biom.C13.handle
