import BiomModel.C03
def main : IO Unit := Biom.Codec.driverMain Biom.C03.handle
