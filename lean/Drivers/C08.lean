import BiomModel.C08
def main : IO Unit := Biom.Codec.driverMain Biom.C08.handle
