import BiomModel.C02
def main : IO Unit := Biom.Codec.driverMain Biom.C02.handle
