import BiomModel.C11
def main : IO Unit := Biom.Codec.driverMain Biom.C11.handle
