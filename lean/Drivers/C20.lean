import BiomModel.C20
def main : IO Unit := Biom.Codec.driverMain Biom.C20.handle
