#!/bin/sh
# usage: confirm3.sh <prop> <round-letter> <slug1> "<needs1>" <slug2> "<needs2>" <slug3> "<needs3>"
# confirms /tmp/seed/<prop>-<letter>/_seed_out/{1,2,3}, removes the worktree, runs the kept seeds through the check (background log)
p=$1; r=$2; shift 2
kept=""
for k in 1 2 3; do
  slug=$1; needs=$2; shift 2
  sid="$p-$r$k-$slug"
  out=$(/verif/tools/confirm_seed.sh /tmp/seed/$p-$r/_seed_out/$k "$sid" $p "$needs" 2>&1 | tail -1)
  echo "$out"
  case "$out" in KEPT*) kept="$kept $sid";; esac
done
git -C /repo worktree remove --force /tmp/seed/$p-$r
[ -n "$kept" ] && (cd /verif && nohup python3 tools/run_seeds.py $kept >> /tmp/lead/${RLOG:-r5}.out 2>&1 &)
