#!/bin/sh
# usage: try_seed.sh <patch.diff> <Cxx> [more props...]
# runs the quick checks against a private copy of /repo with the patch applied (BIOM_REPO), then removes the copy
set -e
patch=$(readlink -f "$1"); shift
d=/tmp/lead/seedrun.$$
mkdir -p /tmp/lead
git -C /repo worktree add -f --detach "$d" HEAD >/dev/null 2>&1
cp /repo/biom/*.so "$d/biom/" 2>/dev/null || true
if ! git -C "$d" apply "$patch"; then echo "PATCH DOES NOT APPLY"; git -C /repo worktree remove --force "$d"; exit 3; fi
cd /verif
for p in "$@"; do
  echo "== $p on $(basename $patch)"
  BIOM_REPO="$d" ./check "$p" quick 2>&1 | tail -4 || true
done
git -C /repo worktree remove --force "$d"
