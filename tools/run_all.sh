#!/bin/sh
# usage: run_all.sh [quick|thorough] — every claimed check once on the unchanged tree; evidence is rewritten
cd "$(dirname "$0")/.."
tier=${1:-quick}
for p in $(python3 -c "import json;print(' '.join(json.load(open('tools/ready.json'))))"); do
  out=$(./check $p $tier 2>&1); rc=$?
  echo "$p rc=$rc $(echo "$out" | tail -1)"
  echo "$out" | grep "^VIOLATION\|^INFRA" 
done
