#!/bin/sh
# usage: mk_worktree.sh <name>   -> /tmp/seed/<name>, a scratch worktree of /repo HEAD with the compiled kernels copied in
set -e
d=/tmp/seed/$1
git -C /repo worktree add -f --detach "$d" HEAD >/dev/null 2>&1
cp /repo/biom/*.so "$d/biom/" 2>/dev/null || true
echo "$d"
