#!/usr/bin/env python3
"""Regenerate MANIFEST.json from properties.jsonl, lean/obligations.json and tools/meta.json.
A property is claimed iff it has an entry in obligations.json, a harness module and a meta entry."""
import json
import os

ROOT = os.path.dirname(os.path.dirname(os.path.abspath(__file__)))
props = [json.loads(l) for l in open(os.path.join(ROOT, "properties.jsonl"))]
obl = {f[:-5] for f in os.listdir(os.path.join(ROOT, "lean", "obligations.d")) if f.endswith(".json")}
meta = json.load(open(os.path.join(ROOT, "tools", "meta.json")))
meta["checks"] = {f[:-5]: json.load(open(os.path.join(ROOT, "tools", "meta.d", f)))
                  for f in os.listdir(os.path.join(ROOT, "tools", "meta.d")) if f.endswith(".json")}

ready = set(json.load(open(os.path.join(ROOT, "tools", "ready.json"))))
built = [p["id"] for p in props
         if p["id"] in ready and p["id"] in obl and p["id"] in meta.get("checks", {})
         and os.path.exists(os.path.join(ROOT, "harness", p["id"].lower() + ".py"))]

m = {
    "version": 1,
    "setup_cmd": "cd lean && lake build && python3 ../tools/build_drivers.py",
    "hooks": {
        "guard": "BIOM_FORMAT_VERIF",
        "enable": "no source hooks in /repo: the harness observes kernels and errcheck call sites by rebinding "
                  "module globals from outside; the variable is read by the harness only",
        "baseline_off_cmd": "cd /repo && /venv/bin/python -m pytest -ra -q -p no:cacheprovider --timeout=900 "
                            "--continue-on-collection-errors",
        "source_commits": [],
        "add_only": True,
    },
    "engines": [
        {"name": "lean-model", "path": "lean", "serves_properties": built,
         "kind_free_text": "Lean 4 library BiomModel: executable model + theorems (Props/), one compiled "
                           "JSON-lines driver per property (Drivers/)"},
        {"name": "harness", "path": "harness", "serves_properties": built,
         "kind_free_text": "Python differential harness: runs the real biom code in-process, canonicalises what it "
                           "observes, asks the Lean driver to evaluate the property's predicate on it and to run "
                           "the model on the same input"},
    ],
    "checks": [],
    "not_applicable": [],
    "notes": meta.get("notes", ""),
}
for p in props:
    pid = p["id"]
    if pid in built:
        c = meta["checks"][pid]
        m["checks"].append({
            "property_id": pid,
            "quick_cmd": "./check %s quick" % pid,
            "thorough_cmd": "./check %s thorough" % pid,
            "evidence_file": "evidence/%s.json" % pid,
            "replay_cmd_template": "./check %s --replay {path}" % pid,
            "engine": "lean-model",
            "level_claimed": {"category": "proof", "text": c["text"], "design_ref": c.get("design_ref", "DESIGN.md §6 " + pid)},
            "level_note": c["note"],
            "technique": c.get("technique", "Lean 4 theorems (kernel-checked, unbounded) over a hand-written executable "
                                            "model + differential correspondence of model and predicate with the real code"),
        })
    else:
        m["not_applicable"].append({"property_id": pid, "reason": meta.get("not_applicable", {}).get(
            pid, "not claimed yet: its Lean model and correspondence check are not built in this round (DESIGN.md §6 %s)" % pid)})
json.dump(m, open(os.path.join(ROOT, "MANIFEST.json"), "w"), indent=1, ensure_ascii=False)
print("claimed:", built)
