#!/bin/sh
# usage: confirm_seed.sh <seed_out_dir> <seed-id> <property> "<needs>"  — confirms a candidate seeded change in a fresh
# scratch worktree (demo passes before, suite passes with the patch, demo fails with it), then stores it in /verif/seeded/<seed-id>/
src=$(readlink -f "$1"); sid=$2; prop=$3; needs=$4
d=/tmp/lead/confirm.$$
mkdir -p /tmp/lead
git -C /repo worktree add -f --detach "$d" HEAD >/dev/null 2>&1
cp /repo/biom/*.so "$d/biom/" 2>/dev/null
cd "$d"
# demos locate the library either through the current directory or through the worktree they sit in:
# run a copy placed inside the scratch worktree, from its root
mkdir -p "$d/_seed_out/x"; cp "$src/demo.py" "$d/_seed_out/x/demo.py"
export BIOM_ROOT="$d"
/venv/bin/python "$d/_seed_out/x/demo.py" >/tmp/lead/demo_before.$$ 2>&1; rc_before=$?
if ! git apply "$src/patch.diff"; then echo "REJECT $sid: patch does not apply"; cd /; git -C /repo worktree remove --force "$d"; exit 1; fi
suite=$(/venv/bin/python -m pytest -q -p no:cacheprovider biom/tests 2>&1 | tail -1)
/venv/bin/python "$d/_seed_out/x/demo.py" >/tmp/lead/demo_after.$$ 2>&1; rc_after=$?
cd /; git -C /repo worktree remove --force "$d"
echo "$sid: demo before rc=$rc_before, suite with patch: $suite, demo after rc=$rc_after"
case "$suite" in *"377 passed"*) ok_suite=1;; *) ok_suite=0;; esac
if [ $rc_before -eq 0 ] && [ $rc_after -ne 0 ] && [ $ok_suite -eq 1 ]; then
  mkdir -p /verif/seeded/$sid
  cp "$src/patch.diff" "$src/demo.py" /verif/seeded/$sid/
  [ -f "$src/README.md" ] && cp "$src/README.md" /verif/seeded/$sid/
  /venv/bin/python - "$sid" "$prop" "$needs" "$suite" <<'PY'
import json, sys
sid, prop, needs, suite = sys.argv[1:5]
json.dump({"seed_id": sid, "property": prop, "needs_to_manifest": needs,
           "confirmed": {"demo_on_pristine_tree": "exit 0 (PASS)", "suite_with_patch": suite.strip(),
                         "demo_with_patch": "exit != 0 (FAIL)",
                         "how": "tools/confirm_seed.sh in a fresh scratch worktree of /repo HEAD, removed afterwards"},
           "detected_by": None}, open("/verif/seeded/%s/meta.json" % sid, "w"), indent=1)
PY
  echo "KEPT $sid"
else
  echo "REJECT $sid"; tail -n 3 /tmp/lead/demo_before.$$ /tmp/lead/demo_after.$$
fi
rm -f /tmp/lead/demo_before.$$ /tmp/lead/demo_after.$$
