#!/bin/sh
# usage: sweep.sh "<seeds>" [props...]  — runs quick checks over seeds on the unchanged tree; prints anything that is not a clean exit 0
cd "$(dirname "$0")/.."
seeds=$1; shift
props=${@:-$(python3 -c "import json;print(' '.join(json.load(open('tools/ready.json'))))")}
for p in $props; do
  for s in $seeds; do
    out=$(VERIF_SEED=$s timeout 900 ./check $p quick 2>&1); rc=$?
    if [ $rc -ne 0 ] || echo "$out" | grep -q "VIOLATION\|INFRA"; then echo "!! $p seed=$s rc=$rc"; echo "$out" | tail -5; else echo "ok $p seed=$s $(echo "$out" | tail -1 | sed 's/.*(\(.*\))/\1/')"; fi
  done
done
