#!/usr/bin/env python3
"""Rewrite the generated region of DESIGN.md (between the GENERATED markers): per-property status as built
(theorem counts, partial theorems, witnesses, known findings, Lean line counts) and the table of seeded changes with
which check caught them."""
import json
import os
import re

ROOT = os.path.dirname(os.path.dirname(os.path.abspath(__file__)))
BEGIN = "<!-- GENERATED:BEGIN (tools/gen_design_tables.py) -->"
END = "<!-- GENERATED:END -->"


def wc(path):
    try:
        return sum(1 for _ in open(path))
    except OSError:
        return 0


def main():
    props = [json.loads(l) for l in open(os.path.join(ROOT, "properties.jsonl"))]
    kf = json.load(open(os.path.join(ROOT, "known_findings.json")))
    ready = set(json.load(open(os.path.join(ROOT, "tools", "ready.json"))))
    out = [BEGIN, "", "### F.1 Per-property status as built", "",
           "| id | theorems audited | of which `_partial` | `_witness` | Lean lines (model / lemmas / props) | harness lines | known findings | repaired defects |",
           "|---|---|---|---|---|---|---|---|"]
    for p in props:
        pid = p["id"]
        op = os.path.join(ROOT, "lean", "obligations.d", pid + ".json")
        if not os.path.exists(op) or pid not in ready:
            out.append("| %s | not claimed | | | | | | |" % pid)
            continue
        th = json.load(open(op))["theorems"]
        partial = [t.split(".")[-1] for t in th if "_partial" in t]
        wit = [t.split(".")[-1] for t in th if "witness" in t]
        l = os.path.join(ROOT, "lean", "BiomModel")
        lines = "%d / %d / %d" % (wc(os.path.join(l, pid + ".lean")), wc(os.path.join(l, "Lemmas", pid + ".lean")),
                                  wc(os.path.join(l, "Props", pid + ".lean")))
        known = [k["id"] for k in kf["known"] if k["property"] == pid]
        fixed = sum(1 for f in kf["fixed"] if "property=%s " % pid in f)
        out.append("| %s | %d | %s | %s | %s | %d | %s | %d |" % (
            pid, len(th), ", ".join(partial) or "–", ", ".join(wit) or "–", lines,
            wc(os.path.join(ROOT, "harness", pid.lower() + ".py")), ", ".join(known) or "–", fixed))
    out += ["", "### F.3 What is proved and what is run, per property (the claim texts of MANIFEST.json)", ""]
    for p in props:
        pid = p["id"]
        mp = os.path.join(ROOT, "tools", "meta.d", pid + ".json")
        if pid in ready and os.path.exists(mp):
            m = json.load(open(mp))
            out += ["**%s — %s.** %s" % (pid, p["title"], m["text"]), "", "*Trusted / not modelled:* " + m["note"], ""]
    out += ["", "### F.2 Seeded changes (independent adversaries, confirmed in scratch worktrees) and which check catches them", "",
            "Each change compiles, keeps the 377-test suite green, and breaks the named property only under the stated "
            "condition. `detected_by` is the outcome of `./check <prop> quick` against a scratch copy of /repo with the "
            "change applied (tools/run_seeds.py).", "",
            "| seed | property | needs, in order to manifest | quick check outcome |", "|---|---|---|---|"]
    sd = os.path.join(ROOT, "seeded")
    n_det = n_all = 0
    for sid in sorted(os.listdir(sd)) if os.path.isdir(sd) else []:
        mp = os.path.join(sd, sid, "meta.json")
        if not os.path.exists(mp):
            continue
        m = json.load(open(mp))
        det = m.get("detected_by") or {}
        outcome = ", ".join("%s: %s" % (k, v) for k, v in det.items()) if isinstance(det, dict) else str(det)
        n_all += 1
        if isinstance(det, dict) and any(v == "VIOLATION" for v in det.values()):
            n_det += 1
        out.append("| %s | %s | %s | %s |" % (sid, m["property"], m["needs_to_manifest"].replace("|", "/"), outcome or "not run yet"))
    own = 0
    for sid in sorted(os.listdir(sd)) if os.path.isdir(sd) else []:
        mp = os.path.join(sd, sid, "meta.json")
        if os.path.exists(mp):
            m = json.load(open(mp))
            if (m.get("detected_by") or {}).get(m["property"]) == "VIOLATION":
                own += 1
    out += ["", "%d of %d seeded changes are reported as VIOLATION by a quick check; %d of them by the check of the property they are "
            "filed under, the others by the property whose code they change (see the `also_run` column entries and DESIGN 0.6)." % (n_det, n_all, own), "", END]
    dp = os.path.join(ROOT, "DESIGN.md")
    s = open(dp).read()
    block = "\n".join(out)
    if BEGIN in s:
        s = re.sub(re.escape(BEGIN) + r".*?" + re.escape(END), lambda _: block, s, flags=re.S)
    else:
        s = s.rstrip("\n") + "\n\n## Appendix F — status as built and seeded changes (generated)\n\n" + block + "\n"
    open(dp, "w").write(s)
    print("DESIGN.md tables regenerated: %d/%d seeds detected" % (n_det, n_all))


if __name__ == "__main__":
    main()
