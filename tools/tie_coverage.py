#!/usr/bin/env python3
"""Measure which statements of /repo/biom each property's correspondence run executes (quick tier, VERIF_COVERAGE=1),
write tools/tie_coverage.json and regenerate Appendix G of DESIGN.md.  usage: tie_coverage.py [Cxx ...]"""
import json
import os
import re
import subprocess
import sys

ROOT = os.path.dirname(os.path.dirname(os.path.abspath(__file__)))
OUT = os.path.join(ROOT, "tools", "tie_coverage.json")
BEGIN = "<!-- TIE:BEGIN (tools/tie_coverage.py) -->"
END = "<!-- TIE:END -->"


def main():
    ready = json.load(open(os.path.join(ROOT, "tools", "ready.json")))
    props = sys.argv[1:] or ready
    data = json.load(open(OUT)) if os.path.exists(OUT) else {}
    for p in props:
        env = dict(os.environ, VERIF_COVERAGE="1", BIOM_REPO="/repo")
        # BIOM_REPO=/repo explicitly: evidence is written normally
        r = subprocess.run([os.path.join(ROOT, "check"), p, "quick"], env=env, capture_output=True, text=True, cwd=ROOT)
        ev = json.load(open(os.path.join(ROOT, "evidence", p + ".json")))
        ce = ev["coverage"].get("code_exercised", {})
        data[p] = {f: v["functions"] for f, v in ce.items() if v["functions"]}
        print(p, r.returncode, sum(len(v) for v in data[p].values()), "functions exercised")
    json.dump(data, open(OUT, "w"), indent=1, sort_keys=True)
    # anchors of each property: the files it is about
    anchors = {json.loads(l)["id"]: json.loads(l)["anchors"]["files"] for l in open(os.path.join(ROOT, "properties.jsonl"))}
    out = [BEGIN, "",
           "Statement coverage of the library by each property's quick correspondence run (`VERIF_COVERAGE=1 ./check Cxx quick`; "
           "the thorough tier records the same in its evidence). Only functions of the files the property is anchored in are "
           "listed, with executed/total statements; functions executed completely are counted, the others named. This is what "
           "\"tied to the code by the correspondence check\" amounts to in lines of code.", ""]
    for p in sorted(data):
        files = [f for f in data[p] if f in anchors.get(p, []) or f.replace(".pyx", ".py") in anchors.get(p, [])]
        out.append("**%s** (anchors: %s)" % (p, ", ".join(anchors.get(p, []))))
        for f in sorted(files):
            fs = data[p][f]
            full = [x for x in fs if x["executed"] == x["statements"]]
            part = [x for x in fs if x["executed"] < x["statements"]]
            ex = sum(x["executed"] for x in fs)
            tot = sum(x["statements"] for x in fs)
            out.append("- `%s`: %d functions touched, %d/%d statements of them executed; fully executed: %d; partially: %s" % (
                f, len(fs), ex, tot, len(full),
                ", ".join("%s %d/%d" % (x["name"], x["executed"], x["statements"]) for x in sorted(part, key=lambda x: -x["statements"])[:14]) or "–"))
        out.append("")
    out.append(END)
    dp = os.path.join(ROOT, "DESIGN.md")
    s = open(dp).read()
    block = "\n".join(out)
    if BEGIN in s:
        s = re.sub(re.escape(BEGIN) + r".*?" + re.escape(END), lambda _: block, s, flags=re.S)
    else:
        s = s.rstrip("\n") + "\n\n## Appendix G — how much of the code the correspondence runs execute (generated)\n\n" + block + "\n"
    open(dp, "w").write(s)


if __name__ == "__main__":
    main()
