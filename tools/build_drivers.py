#!/usr/bin/env python3
"""Build every property's proof module and driver executable (offline; used by MANIFEST.setup_cmd)."""
import json, os, subprocess, sys
here = os.path.dirname(os.path.abspath(__file__))
lean = os.path.join(os.path.dirname(here), "lean")
ready = set(json.load(open(os.path.join(here, "ready.json"))))
obl = sorted(f[:-5] for f in os.listdir(os.path.join(lean, "obligations.d")) if f.endswith(".json") and f[:-5] in ready)
targets = []
for p in obl:
    targets += ["BiomModel.Props.%s" % p, "driver_%s" % p.lower()]
sys.exit(subprocess.call(["lake", "build"] + targets, cwd=lean))
