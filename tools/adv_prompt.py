#!/usr/bin/env python3
"""print the adversary prompt for a property and worktree: adv_prompt.py C05 /tmp/seed/C05-a 3"""
import json, sys, os
pid, wt, n = sys.argv[1], sys.argv[2], sys.argv[3]
here = os.path.dirname(os.path.abspath(__file__))
tmpl = open(os.path.join(here, "adversary_prompt.txt")).read()
for l in open(os.path.join(os.path.dirname(here), "properties.jsonl")):
    p = json.loads(l)
    if p["id"] == pid:
        text = (tmpl.replace("{WT}", wt).replace("{TITLE}", p["title"]).replace("{STATEMENT}", p["statement"])
                .replace("{QUANT}", p["quantifier"]["text"]).replace("{N}", n))
        # changes already collected for this property: ask for different ones
        sd = os.path.join(os.path.dirname(here), "seeded")
        known = []
        for sid in sorted(os.listdir(sd)) if os.path.isdir(sd) else []:
            mp = os.path.join(sd, sid, "meta.json")
            if os.path.exists(mp):
                m = json.load(open(mp))
                if m["property"] == pid:
                    known.append("  - %s: needs %s" % (sid.split("-", 1)[1], m["needs_to_manifest"]))
        if known:
            text += ("\nChanges of the following kinds have ALREADY been collected for this property; produce changes that are "
                     "DIFFERENT from all of them (different function or mechanism AND a different trigger condition). Favour "
                     "mechanisms such as: behaviour that depends on table size or ID text, rarely used keyword arguments and "
                     "flag combinations, state left behind by an earlier call (caches, layout, shared objects), error paths, "
                     "interactions between two public operations, the command-line front ends:\n" + "\n".join(known) + "\n"
                     "Additional rule: never use `git stash` (it is shared between worktrees); restore with `git checkout -- .` only.\n")
        print(text)
