#!/usr/bin/env python3
"""print the adversary prompt for a property and worktree: adv_prompt.py C05 /tmp/seed/C05-a 3"""
import json, sys, os
pid, wt, n = sys.argv[1], sys.argv[2], sys.argv[3]
here = os.path.dirname(os.path.abspath(__file__))
tmpl = open(os.path.join(here, "adversary_prompt.txt")).read()
for l in open(os.path.join(os.path.dirname(here), "properties.jsonl")):
    p = json.loads(l)
    if p["id"] == pid:
        print(tmpl.replace("{WT}", wt).replace("{TITLE}", p["title"]).replace("{STATEMENT}", p["statement"])
              .replace("{QUANT}", p["quantifier"]["text"]).replace("{N}", n))
