#!/usr/bin/env python3
"""Run the quick check of each seeded change's property against a private copy of /repo with the change applied.
usage: run_seeds.py [seed-id ...] [--all-props]   (default: every directory under /verif/seeded)
Records the outcome in seeded/<id>/meta.json ("detected_by") and prints a table."""
import json
import os
import subprocess
import sys

ROOT = os.path.dirname(os.path.dirname(os.path.abspath(__file__)))
SEEDED = os.path.join(ROOT, "seeded")


def run(sid, props):
    d = "/tmp/lead/seedrun.%d" % os.getpid()
    os.makedirs("/tmp/lead", exist_ok=True)
    subprocess.run(["git", "-C", "/repo", "worktree", "add", "-f", "--detach", d, "HEAD"], capture_output=True)
    subprocess.run("cp /repo/biom/*.so %s/biom/" % d, shell=True)
    out = {}
    try:
        r = subprocess.run(["git", "-C", d, "apply", os.path.join(SEEDED, sid, "patch.diff")], capture_output=True, text=True)
        if r.returncode != 0:
            return {"error": "patch does not apply: " + r.stderr[-300:]}
        for p in props:
            env = dict(os.environ, BIOM_REPO=d)
            r = subprocess.run([os.path.join(ROOT, "check"), p, "quick"], env=env, capture_output=True, text=True, cwd=ROOT)
            lines = [l for l in r.stdout.splitlines() if l.startswith("VIOLATION") or l.startswith("INFRA")]
            out[p] = {"exit": r.returncode, "lines": lines[:3]}
    finally:
        subprocess.run(["git", "-C", "/repo", "worktree", "remove", "--force", d], capture_output=True)
    return out


def main():
    args = [a for a in sys.argv[1:] if not a.startswith("--")]
    sids = args or sorted(os.listdir(SEEDED))
    for sid in sids:
        mp = os.path.join(SEEDED, sid, "meta.json")
        meta = json.load(open(mp))
        props = [meta["property"]] + list(meta.get("also_run", []))
        res = run(sid, props)
        meta["detected_by"] = {p: ("VIOLATION" if v.get("exit") == 1 else "missed (exit %s)" % v.get("exit"))
                               for p, v in res.items()} if "error" not in res else res
        meta["ran"] = "tools/run_seeds.py: ./check <prop> quick with BIOM_REPO=<scratch worktree with the patch applied>"
        json.dump(meta, open(mp, "w"), indent=1)
        print("%-40s %s" % (sid, meta["detected_by"]))


if __name__ == "__main__":
    main()
