#!/bin/sh
# usage: psweep.sh "<seeds>" <parallelism> [props...] — quick checks over seeds, several at a time; prints only non-clean runs
cd "$(dirname "$0")/.."
seeds=$1; par=$2; shift 2
props=${@:-$(python3 -c "import json;print(' '.join(json.load(open('tools/ready.json'))))")}
for s in $seeds; do for p in $props; do echo "$p $s"; done; done | xargs -P $par -L 1 sh -c '
  out=$(VERIF_SEED=$1 timeout 1200 ./check $0 quick 2>&1); rc=$?
  if [ $rc -ne 0 ] || echo "$out" | grep -q "^VIOLATION\|^INFRA"; then echo "!! $0 seed=$1 rc=$rc"; echo "$out" | grep "^VIOLATION\|^INFRA" | head -3; else echo "ok $0 seed=$1"; fi'
