"""C18 — metadata updates touch exactly the named IDs and keys; a mapping file parses to the relation
of its rows.  Runs Table.add_metadata / del_metadata, MetadataMap.from_file, _add_metadata and the
`add-metadata` command of the REAL code, canonicalises, and has Lean evaluate the declarative
predicates on the real observations and compare them with the model."""
import copy
import itertools
import json
import math
import os
import shutil
from collections import defaultdict

from . import core

TMP = "/tmp/c18"


# ----------------------------------------------------------------------------- canonical views
def vtext(v):
    """canonical text of a metadata value; must equal `Val.text` of BiomModel/C18.lean"""
    import numpy as np
    if isinstance(v, np.generic):
        v = v.item()
    if isinstance(v, bytes):
        v = v.decode("utf8")
    if v is None:
        return "null"
    if isinstance(v, bool):
        return "true" if v else "false"
    if isinstance(v, str):
        return json.dumps(v, ensure_ascii=False)
    if isinstance(v, int):
        return str(v)
    if isinstance(v, float):
        if math.isnan(v):
            return "float:nan"
        if math.isinf(v):
            return "float:inf" if v > 0 else "float:-inf"
        return "float:" + core.frac(v)
    if isinstance(v, np.ndarray):
        v = v.tolist()
    if isinstance(v, (list, tuple)):
        return "[" + ", ".join(vtext(x) for x in v) + "]"
    if isinstance(v, dict):
        return "{" + ", ".join("%s: %s" % (vtext(str(k)), vtext(x)) for k, x in sorted(v.items())) + "}"
    return "?" + repr(v)


def canon_entry(m):
    return {} if m is None else {str(k): vtext(v) for k, v in m.items()}


def canon_md(md):
    return None if md is None else [canon_entry(m) for m in md]


ROUTES_OBS = ["tuple"] * 5 + ["by-id"] * 4 + ["json"]


def canon_group(g):
    return None if g is None else {str(k): vtext(list(v) if isinstance(v, tuple) else v) for k, v in g.items()}


def tobs(t, route="tuple", rng=None):
    """table observation + what the table carries besides IDs, grid, type and per-ID metadata"""
    o = _tobs(t, route, rng)
    o["extra"] = {"table_id": t.table_id, "dtype": str(t.dtype),
                  "ogmd": canon_group(t.group_metadata(axis="observation")),
                  "sgmd": canon_group(t.group_metadata(axis="sample"))}
    return o


GROUP_MD = [{"tree": ("newick", "((O1:0.3,O2:0.4):0.1,O3:0.5);")}, {"category": ("newick", "(S1:0.3,S2:0.4);")},
            {"graph": ("json", "{}"), "tree": ("newick", "(a,b);")}, {"50%": ("text", "x%sy")}]


def dress(ctx, t):
    """a share of the receivers carries group metadata on one or both axes"""
    rng = ctx.rng
    if rng.random() < 0.3:
        for ax in rng.choice([["sample"], ["observation"], ["sample", "observation"]]):
            try:
                t.add_group_metadata(dict(rng.choice(GROUP_MD)), axis=ax)
                ctx.count("group-metadata on " + ax)
            except Exception as e:  # noqa: BLE001
                ctx.count("add_group_metadata raised " + type(e).__name__)


def _tobs(t, route="tuple", rng=None):
    """observable content of a table (own version: metadata through vtext).
    route 'tuple': ids()/metadata()/matrix; 'by-id': every ID asked through the table's own lookups
    (exists, index, metadata(id), data(id)) in random order; 'json': what to_json exports, re-read."""
    import numpy as np
    if route == "json" and 0 in t.shape:
        route = "by-id"          # to_json of an Nx0 table is not JSON ("columns": [}) — C02's business
    if route == "json":
        from biom import Table
        t2 = Table.from_json(json.loads(t.to_json("c18")))
        o = _tobs(t2)
        o["type"] = t.type
        return o
    if route == "by-id":
        o = {"type": t.type}
        axes = [("observation", "obs", "omd"), ("sample", "samp", "smd")]
        if rng is not None:
            rng.shuffle(axes)
        for ax, kid, kmd in axes:
            ids = [i for i in t.ids(axis=ax)]
            has_md = t.metadata(axis=ax) is not None
            order = list(range(len(ids)))
            if rng is not None:
                rng.shuffle(order)
            ent = [None] * len(ids)
            shown = [str(i) for i in ids]
            for j in order:
                # the table's own index must place the ID where ids() shows it
                try:
                    if not t.exists(ids[j], axis=ax) or t.index(ids[j], axis=ax) != j:
                        shown[j] = "?index:" + shown[j]
                    ent[j] = canon_entry(t.metadata(ids[j], axis=ax)) if has_md else None
                except Exception as e:  # noqa: BLE001  (a lookup that refuses an ID the table shows)
                    shown[j] = "?lookup raised %s:%s" % (type(e).__name__, shown[j])
                    ent[j] = {} if has_md else None
            o[kid] = shown
            o[kmd] = ent if has_md else None
        obs_ids = list(t.ids(axis="observation"))
        order = list(range(len(obs_ids)))
        if rng is not None:
            rng.shuffle(order)
        rows = [None] * len(obs_ids)
        for j in order:
            try:
                rows[j] = [core.frac(x) for x in np.asarray(t.data(obs_ids[j], axis="observation", dense=True)).ravel()] \
                    if t.shape[1] > 0 else []
            except Exception as e:  # noqa: BLE001
                rows[j] = ["0"] * int(t.shape[1])
                o["obs"] = [("?data raised %s:%s" % (type(e).__name__, x) if k == j else x)
                            for k, x in enumerate(o["obs"])]
        o["rows"] = rows
        return o
    m = t.matrix_data
    dense = m.toarray() if m.shape[0] * m.shape[1] > 0 else np.zeros(m.shape)
    return {
        "obs": [str(i) for i in t.ids(axis="observation")],
        "samp": [str(i) for i in t.ids()],
        "rows": [[core.frac(x) for x in dense[i]] for i in range(dense.shape[0])],
        "omd": canon_md(t.metadata(axis="observation")),
        "smd": canon_md(t.metadata(axis="sample")),
        "type": t.type,
    }


def pre_reads(ctx, t, rng, tags=()):
    """reads and exports BEFORE the update (anything they cache must not survive it), in random
    order, and a random internal layout left behind; the same reads are repeated after the update"""
    todo = rng.sample(["by-id", "json", "dataframe", "layout", "str"], rng.randint(0, 3))
    ref = None
    for what in todo:
        try:
            if what in ("by-id", "json"):
                ref = ref or tobs(t)
                got = tobs(t, what, rng)
                if got != ref:
                    ctx.diverge({"route": what, "tuple": ref, "got": got},
                                "views of an untouched table disagree (%s)" % what, tags)
            elif what == "dataframe":
                for ax in ("sample", "observation"):
                    if t.metadata(axis=ax) is not None:
                        t.metadata_to_dataframe(ax)
            elif what == "layout":
                core.poke_layout(t, rng)
            else:
                str(t)
        except Exception as e:  # noqa: BLE001
            ctx.count("pre-read %s raised %s" % (what, type(e).__name__))
    for w in todo:
        ctx.count("pre-read:" + w)
    return todo


def md_is_defaulting(t):
    """every entry answers an unknown key with None (what _cast_metadata promises)"""
    for ax in ("sample", "observation"):
        md = t.metadata(axis=ax)
        if md is None:
            continue
        for e in md:
            if not isinstance(e, defaultdict) or e["\x00no-such-key"] is not None:
                return False
            del e["\x00no-such-key"]
    return True


# ----------------------------------------------------------------------------- tables and histories
KEYS = ["grp", "na/me", "depth", "taxonomy"]
NEWKEYS = ["pH", "Days", "k é", "x;y", "", "50%", "%(id)s", "id", "matrix_type", "S1", "caf\u00e9", "cafe\u0301"]
HISTORIES = ["none", "filter", "filter_inplace", "sort_order", "transpose", "sort+filter", "transpose+sort",
             "rename", "rename_inplace", "rename+sort", "filter_inplace+rename_inplace", "rename+rename_inplace"]


def rename_overlapping(rng, t, ax, inplace):
    """update_ids whose new names overlap the old ones (swap, rotation, shift, reversal) or are fresh"""
    ids = [str(i) for i in t.ids(axis=ax)]
    n = len(ids)
    kind = rng.choice(["swap", "rotate", "shift", "reverse", "fresh", "partial"]) if n >= 2 else "fresh"
    if kind == "swap":
        i, j = rng.sample(range(n), 2)
        m = {ids[i]: ids[j], ids[j]: ids[i]}
    elif kind == "rotate":
        k = rng.randint(1, n - 1)
        m = {ids[i]: ids[(i + k) % n] for i in range(n)}
    elif kind == "shift":
        k = rng.randint(2, n)
        m = {ids[i]: ids[i + 1] for i in range(k - 1)}
        m[ids[k - 1]] = ids[k - 1] + "_new" if k == n else ids[0] + "_was"
        if k < n:
            m = {ids[i]: ids[i + 1] for i in range(k - 1)}
            m[ids[k - 1]] = ids[0] + "_was"
    elif kind == "reverse":
        m = {ids[i]: ids[n - 1 - i] for i in range(n)}
    elif kind == "partial":
        m = {ids[0]: ids[0] + "_p"}
    else:
        m = {i: i + "_r" for i in ids}
    return t.update_ids(m, axis=ax, strict=False, inplace=inplace), kind


def gen_table(rng, quick=True):
    spec = core.gen_spec(rng, max_n=4 if quick else 7, max_m=4 if quick else 7, md=True)
    # a few shapes of metadata the generic generator does not give
    c = rng.random()
    if c < 0.08 and spec["smd"] is not None:
        spec["smd"] = [{} for _ in spec["samp"]]
    elif c < 0.16 and spec["omd"] is not None:
        spec["omd"] = [dict(e) if i % 2 else {} for i, e in enumerate(spec["omd"])]
    if rng.random() < 0.25:
        # IDs that are extensions / case variants / blank-suffixed twins of each other, one much longer
        for key, pre in (("samp", "S"), ("obs", "O")):
            ids = spec[key]
            base = ids[0]
            twins = [base + "0", base + " ", base.lower(), base + "\n", base + "_" * 30, base + "日本語é"]
            rng.shuffle(twins)
            for j in range(1, len(ids)):
                cand = twins.pop()
                if cand not in ids:
                    ids[j] = cand
    c = rng.random()
    if c < 0.12:
        # canonically equivalent but distinct spellings on ONE axis, the same text on BOTH axes
        tw = core.twin_ids(rng, 2)
        for key in ("samp", "obs"):
            ids = spec[key]
            for j, x in enumerate(tw[:len(ids)]):
                if x not in ids:
                    ids[j] = x
    elif c < 0.2 and spec["obs"] and spec["samp"]:
        shared = rng.choice(core.NASTY_TEXTS + ["id", "S1"])
        if shared not in spec["obs"] and shared not in spec["samp"]:
            spec["obs"][0] = shared
            spec["samp"][-1] = shared
    route = rng.choice(core.ROUTES)
    t = core.build(spec, route, rng)
    hist = rng.choice(HISTORIES)
    for step in hist.split("+"):
        try:
            t = apply_history(rng, t, step)
        except Exception as e:  # noqa: BLE001  (a prior step that refuses is not this property's call)
            hist += "!%s raised %s" % (step, type(e).__name__)
            break
    return t, route, hist


def apply_history(rng, t, step):
    if step == "none":
        return t
    if step == "transpose":
        return t.transpose()
    ax = rng.choice(["sample", "observation"])
    ids = list(t.ids(axis=ax))
    if step in ("rename", "rename_inplace"):
        return rename_overlapping(rng, t, ax, step == "rename_inplace")[0]
    if step == "sort_order":
        rng.shuffle(ids)
        return t.sort_order(ids, axis=ax)
    if step in ("filter", "filter_inplace"):
        if len(ids) < 2:
            return t
        keep = set(rng.sample(ids, rng.randint(1, len(ids))))
        r = t.filter(keep, axis=ax, inplace=(step == "filter_inplace"))
        return r
    if step == "sort":
        rng.shuffle(ids)
        return t.sort_order(ids, axis=ax)
    raise ValueError(step)


DERIVE = ["sort_order:sample", "sort_order:observation", "sort:sample", "sort:observation", "transpose",
          "filter(inplace=False):sample", "filter(inplace=False):observation", "Table(src.metadata())", "copy",
          "partition:sample", "partition:observation", "collapse:sample", "collapse:observation",
          "concat:sample", "concat:observation", "merge", "update_ids:sample", "update_ids:observation"]


def derive(rng, src, how):
    """a NEW table made from `src` the way library and user code do it; `src` stays live"""
    from biom import Table
    kind, _, ax = how.partition(":")
    if kind == "transpose":
        return src.transpose()
    if kind == "copy":
        return src.copy()
    if kind == "Table(src.metadata())":
        return Table(src.matrix_data.copy(), src.ids(axis="observation"), src.ids(),
                     src.metadata(axis="observation"), src.metadata(), type=src.type)
    if kind == "update_ids":
        return rename_overlapping(rng, src, ax, False)[0]
    if kind in ("partition", "collapse", "concat", "merge"):
        try:
            return derive_multi(rng, src, kind, ax)
        except Exception:  # noqa: BLE001  (route not applicable to this table: fall back)
            return derive(rng, src, "sort_order:" + (ax or "sample"))
    ids = list(src.ids(axis=ax))
    if kind == "sort_order":
        rng.shuffle(ids)
        return src.sort_order(ids, axis=ax)
    if kind == "sort":
        return src.sort(axis=ax)
    if kind == "filter(inplace=False)":
        keep = set(rng.sample(ids, rng.randint(max(1, len(ids) - 1), len(ids)))) if ids else set()
        return src.filter(keep, axis=ax, inplace=False)
    raise ValueError(how)


def derive_multi(rng, src, kind, ax):
    """derivations that carry the metadata of (one axis of) the source into a new table"""
    if kind == "partition":
        ids = sorted(str(i) for i in src.ids(axis=ax))
        pivot = ids[len(ids) // 2]
        parts = list(src.partition(lambda i, m: str(i) < pivot, axis=ax))
        return parts[rng.randrange(len(parts))][1]
    if kind == "collapse":
        return src.collapse(lambda i, m: "g%d" % (len(str(i)) % 2), axis=ax, norm=False)
    other = src.copy()
    if kind == "concat":
        other.update_ids({i: "%s_cc" % i for i in other.ids(axis=ax)}, axis=ax, inplace=True)
        return src.concat([other], axis=ax)
    if kind == "merge":
        other.update_ids({i: "%s_mm" % i for i in other.ids()}, axis="sample", inplace=True)
        return src.merge(other)
    raise ValueError(kind)


def derive_safe(rng, src, how):
    try:
        return derive(rng, src, how)
    except Exception:  # noqa: BLE001  (the derivation itself refusing is another property's business)
        return src.copy()


def gen_live(rng, src):
    """tables that are alive together: the source, one or two tables derived from it (the second
    possibly from the first).  Returns [(label, table)], index of the receiver of the update."""
    live = [("source", src)]
    h1 = rng.choice(DERIVE)
    d1 = derive_safe(rng, src, h1)
    live.append(("derived:" + h1, d1))
    if rng.random() < 0.4:
        h2 = rng.choice(DERIVE)
        base = rng.choice([0, 1])
        live.append(("derived:%s of %s" % (h2, live[base][0]), derive_safe(rng, live[base][1], h2)))
    return live, rng.randrange(len(live))


def snap_others(others):
    return [{"how": lab, "before": tobs(o)} for lab, o in others]


def finish_others(snaps, others, rng=None):
    for s_, (lab, o) in zip(snaps, others):
        # the other tables must also still answer through their own lookups
        s_["after"] = tobs(o, rng.choice(["tuple", "by-id"]) if rng is not None else "tuple", rng)
    return snaps


def gen_value(rng):
    import numpy as np
    c = rng.random()
    if c < 0.12:
        # python-equal but type-different values, numpy scalars as HDF5 hands them back, range ends, nesting
        return rng.choice([True, False, 1, 1.0, 0, -0.0, np.int64(3), np.float64(0.5), np.bool_(True),
                           2 ** 24 + 1, 2 ** 53 + 1, 5e-324, 0.1, 1e300, {"a": {"b": ["x", "y"]}, "n": 1},
                           [["deep", ["er"]], []]])
    if c < 0.2:
        return rng.choice(core.NASTY_TEXTS + [a for p in core.NORMALISATION_PAIRS for a in p])
    if c < 0.4:
        return rng.choice(["a", "b", "v 1", "", "é", 'q"t', "x\ty", "l1\nl2"])
    if c < 0.6:
        return rng.randint(-3, 9)
    if c < 0.7:
        return rng.choice([0.5, -2.25, 3.0])
    if c < 0.85:
        return [rng.choice(["k__A", "p__b", ""]) for _ in range(rng.randint(0, 3))]
    if c < 0.92:
        return None
    return [["a", "b"], ["c"]]


def gen_mapping(rng, t, axis):
    ids = [str(i) for i in t.ids(axis=axis)] if axis in ("sample", "observation") else [str(i) for i in t.ids()]
    mode = rng.choice(["subset", "subset", "all", "superset", "disjoint", "empty", "mixed", "mixed"])
    chosen = []
    if mode in ("subset", "mixed") and ids:
        chosen = rng.sample(ids, rng.randint(0, len(ids)))
    elif mode in ("all", "superset"):
        chosen = list(ids)
    extra = []
    if mode in ("superset", "disjoint", "mixed"):
        tricky = core.tricky_unknown_ids(ids)
        longest = max([len(i) for i in ids], default=1)
        pool_x = ["zz1", "zz2", "S?", "O?", "", "L" * (longest + 7)] + tricky + [i + "\n" for i in ids[:1]] + \
                 [i + "é" for i in ids[:1]]
        import unicodedata
        for i in ids[:3]:
            for form in ("NFC", "NFD"):
                pool_x.append(unicodedata.normalize(form, i))
        extra = rng.sample(pool_x, min(len(pool_x), rng.randint(1, 4)))
        extra = [e for e in extra if e not in ids]
    keys_here = set()
    md = t.metadata(axis=axis) if axis in ("sample", "observation") else None
    if md is not None:
        for e in md:
            keys_here.update(e.keys())
    pool = sorted(keys_here) + NEWKEYS
    m = {}
    order = chosen + extra
    rng.shuffle(order)
    for i in order:
        ks = rng.sample(pool, rng.randint(0, min(3, len(pool))))
        m[i] = {k: gen_value(rng) for k in ks}
    overlap = len(chosen)
    return m, mode, overlap


def check_add(ctx, t, m, axis, tags=(), others=()):
    from biom.exception import UnknownAxisError  # noqa: F401
    dress(ctx, t)
    before = tobs(t)
    snaps = snap_others(others)
    mapping = [[i, canon_entry(e)] for i, e in m.items()]
    arg = copy.deepcopy(m)
    if ctx.rng.random() < 0.2:
        from biom.parse import MetadataMap
        arg = MetadataMap(arg)                      # what the command hands over
    elif ctx.rng.random() < 0.2:
        arg = {i: defaultdict(lambda: None, e) for i, e in arg.items()}
    pre_reads(ctx, t, ctx.rng, tags)
    err = None
    try:
        with error_profile(ctx):
            r = t.add_metadata(arg, axis) if ctx.rng.random() < 0.3 else t.add_metadata(arg, axis=axis)
        if r is not None:
            ctx.diverge({"axis": axis}, "add_metadata returned a value", tags)
    except Exception as e:  # noqa: BLE001
        err = core.err_name(e)
    route = ctx.rng.choice(ROUTES_OBS)
    ctx.count("observed-through:" + route)
    after = tobs(t, route, ctx.rng)
    case = {"op": "add", "table": before, "mapping": mapping, "axis": axis, "after": after, "error": err,
            "mapping_after": [[i, canon_entry(e)] for i, e in arg.items()]}
    if others:
        case["others"] = finish_others(snaps, others, ctx.rng)
    overlap = sum(1 for i, _ in mapping if i in (before["samp"] if axis == "sample" else before["obs"]))
    ctx.case(case, nontrivial=(len(mapping) > 0))
    r = ctx.driver.ask(case)
    had = before["smd" if axis == "sample" else "omd"] is not None if axis in ("sample", "observation") else False
    ctx.count("add:axis=%s" % axis)
    ctx.count("add:had_md=%s,overlap=%s,unknown=%s" % (had, "0" if overlap == 0 else "some",
                                                       "yes" if overlap < len(mapping) else "no"))
    report(ctx, case, r, ("add",) + tuple(tags))
    if err is None and not md_is_defaulting(t):
        ctx.diverge(case, "metadata entries are not default-None mappings after add_metadata", tags)
    return r


def check_del(ctx, t, keys, axis, tags=(), others=()):
    dress(ctx, t)
    before = tobs(t)
    snaps = snap_others(others)
    pre_reads(ctx, t, ctx.rng, tags)
    err = None
    try:
        with error_profile(ctx):
            if keys == "default":
                t.del_metadata(axis=axis)
                kk = None
            else:
                # the key collection as callers write it: list, tuple, set; a bare string is iterated
                # character by character by the code (keys = its characters)
                arg = copy.deepcopy(keys)
                c = ctx.rng.random()
                if isinstance(arg, list) and c < 0.15:
                    arg = tuple(arg)
                elif isinstance(arg, list) and c < 0.3:
                    arg = set(arg)
                elif isinstance(arg, list) and arg and c < 0.4:
                    import numpy as np
                    arg = np.array(arg, dtype=object)
                if ctx.rng.random() < 0.3:
                    t.del_metadata(arg, axis)
                else:
                    t.del_metadata(keys=arg, axis=axis)
                kk = list(keys) if isinstance(keys, str) else keys
    except Exception as e:  # noqa: BLE001
        err = core.err_name(e)
        kk = None if keys == "default" else (list(keys) if isinstance(keys, str) else keys)
    route = ctx.rng.choice(ROUTES_OBS)
    ctx.count("observed-through:" + route)
    after = tobs(t, route, ctx.rng)
    case = {"op": "del", "table": before, "keys": kk, "axis": axis, "after": after, "error": err}
    if others:
        case["others"] = finish_others(snaps, others, ctx.rng)
    ctx.case(case, nontrivial=(before["omd"] is not None or before["smd"] is not None))
    r = ctx.driver.ask(case)
    ctx.count("del:axis=%s,keys=%s" % (axis, "None" if kk is None else ("[]" if not kk else "some")))
    if err is None:
        for a, nm in (("omd", "observation"), ("smd", "sample")):
            if before[a] is not None and after[a] is None:
                ctx.count("del:collapsed-to-None")
    report(ctx, case, r, ("del",) + tuple(tags))
    return r


class error_profile:
    """a share of the calls runs under a non-default error profile (nothing here may react to it)"""

    def __init__(self, ctx):
        self.cm = None
        c = ctx.rng.random()
        if c < 0.2:
            import biom.err as E
            kw = ctx.rng.choice([{"empty": "raise"}, {"all": "raise"}, {"empty": "warn"}, {"all": "print"}])
            self.cm = E.errstate(**kw)
            ctx.count("error-profile:" + "/".join("%s=%s" % kv for kv in kw.items()))

    def __enter__(self):
        if self.cm is not None:
            self.cm.__enter__()

    def __exit__(self, *a):
        if self.cm is not None:
            return self.cm.__exit__(*a)
        return False


def report(ctx, case, r, tags):
    if r.get("model_holds") is False:
        ctx.diverge(case, "theorem model_holds contradicted by the driver", tags)
    if not r["holds"]:
        ctx.fail(case, r["clause"], tags, detail={"model": r["model"]})
    elif not r["agree"]:
        ctx.diverge(case, "observation differs from the model", tags, detail={"model": r["model"]})


# ----------------------------------------------------------------------------- mapping files: row grammar
WS_LIST = [" ", "  ", "\x0b", "\x0c", " ", "\r", " 　"]
WS_FILE = [" ", "  ", "\x0c", " "]
COLNAMES = ["A", "B c", "taxonomy", "pH", "Days", "x;y", "é", "K|1", "long name"]
TEXTS = ["50%", "otu_%s", "%(id)s", "a'b", "ls\u2028x", "nel\u0085x", "{brace}", "caf\u00e9", "cafe\u0301",
         "x", "v 1", "a;b", "a; b ;c", "k__A; p__b", "a|b;c", "x;y|z", "p#q", "é", "日本", "1", "-", "a,b", "N/A",
         "s;", "|", "a b c"]
INTS = ["12", "-3", "+7", "1_000", "007", "0", "x1", "1.0", "1__0", "_1", "3_", "+", "- 1", "1e3"]
FLOATS = ["1.5", "-0.25", "2e3", "1_0.5", ".5", "5.", "1E2", "inf", "-Infinity", "nan", "+3", "0.125e1", "12.5e-1",
          "abc", "1.5x", "1__0", "1e", "e5", "1._5", "1_.5", "1e1_0", ".", "-nan", "+.5e+1", "0x10", "1 5"]


INTS_OK = ["12", "-3", "+7", "1_000", "007", "0"]
FLOATS_OK = ["1.5", "-0.25", "2e3", "1_0.5", ".5", "5.", "1E2", "+3", "0.125e1", "12.5e-1"]


def gen_clean(rng, kind, friendly=False):
    if friendly:
        return rng.choice(INTS_OK if kind == "int" else FLOATS_OK if kind == "float" else TEXTS)
    c = rng.random()
    if c < 0.12:
        return ""
    if kind == "int" and c < 0.8:
        return rng.choice(INTS)
    if kind == "float" and c < 0.8:
        return rng.choice(FLOATS)
    if kind in ("sc", "pipe") and c < 0.7:
        return rng.choice(["a;b", "a; b ;c", "k__A; p__b", "a|b;c", "x;y|z", ";", "|", "a", " ;x".strip()])
    return rng.choice(TEXTS + INTS[:4] + FLOATS[:4])


def deco(rng, clean, ws, p=0.25):
    return {"pre": rng.choice(ws) if rng.random() < p else "", "q": rng.random() < p, "c": clean,
            "post": rng.choice(ws) if rng.random() < p else ""}


def render_line(g):
    k = g["k"]
    if k == "header":
        return "#" + "\t".join(g["names"]) + g["trail"]
    if k in ("comment", "blank"):
        return g["raw"]
    out = []
    for f in g["fields"]:
        out.append(f["pre"] + ('"' + f["c"] + '"' if f["q"] else f["c"]) + f["post"])
    return "\t".join(out)


def gen_file(rng, ids, colkinds, for_file=False, override=False, opts=None, stress=False, friendly=False):
    """one mapping file from the row grammar.  ids: candidate first-column values; colkinds: kind of
    each metadata column (drives the field generator).  Returns (gram, facts)."""
    opts = opts or {"strip_quotes": True, "suppress": False}
    ws = WS_FILE if for_file else WS_LIST
    ncols = len(colkinds)
    names = ["ID"] + [c[0] for c in colkinds]
    gram = []
    facts = set()
    nl = "\n"
    for _ in range(rng.choice([0, 0, 0, 1, 2])):
        gram.append({"k": "blank", "raw": rng.choice(["", " ", "\x0c "]) + nl})
        facts.add("leading-blank")
    hdr_line = {"k": "header", "names": names, "trail": rng.choice(["", " ", "  "]) + nl}
    if override:
        if rng.random() < 0.6:
            gram.append({"k": "comment", "raw": render_line(hdr_line)})
            facts.add("own-header-is-comment")
    else:
        if rng.random() < 0.97 or not stress:
            gram.append(hdr_line)
        else:
            facts.add("no-header")
    nrows = rng.choice([0, 1, 2, 3, 3, 4, 5]) if stress else rng.choice([1, 2, 3, 3, 4, 5])
    pool = list(ids)
    rng.shuffle(pool)
    rows_ids = pool[:nrows]
    while len(rows_ids) < nrows:
        rows_ids.append("yy%d" % len(rows_ids))
    if stress and nrows >= 2 and rng.random() < 0.15:
        rows_ids[-1] = rows_ids[0]
        facts.add("duplicate-id")
    body = []
    for rid in rows_ids:
        nf = rng.choice([ncols + 1] * 5 + [1, max(1, ncols), max(1, ncols - 1), ncols + 2, ncols + 3])
        if friendly:
            nf = ncols + 1
        fields = [deco(rng, rid, ws, 0.15)]
        for c in range(1, nf):
            kind = colkinds[c - 1][1] if c - 1 < ncols else "text"
            fields.append(deco(rng, gen_clean(rng, kind, friendly), ws))
        if nf < ncols + 1:
            facts.add("short-row")
        if nf > ncols + 1:
            facts.add("long-row")
        if any(f["q"] for f in fields):
            facts.add("quoted")
        if not opts["suppress"] and fields[-1]["c"] == "":
            if rng.random() < (0.6 if stress else 0.25) and not friendly:
                facts.add("trailing-empty-field")
            else:
                fields[-1]["c"] = "t"
        body.append({"k": "row", "fields": fields})
        r = rng.random()
        if r < 0.2:
            body.append({"k": "comment", "raw": "#" + rng.choice(["", " note", "x\ty", "#"])})
            facts.add("comment")
        elif r < 0.35:
            body.append({"k": "blank", "raw": rng.choice(["", " ", "  ", '""' if opts["strip_quotes"] else ""])})
            facts.add("blank")
    # terminators: every line ends with \n except possibly the last one
    last_no_nl = rng.random() < 0.3
    for i, g in enumerate(body):
        term = "" if (last_no_nl and i == len(body) - 1) else nl
        if g["k"] == "row":
            g["fields"][-1]["post"] += term
        else:
            g["raw"] += term
    gram.extend(body)
    return gram, facts


PY_FNS = None


def py_fns():
    global PY_FNS
    if PY_FNS is None:
        from biom.cli import metadata_adder as MA
        from biom import parse as P
        PY_FNS = {"ident": lambda x: x, "sc": MA._split_on_semicolons, "pipe": P.sc_pipe_separated,
                  "int": MA._int, "float": MA._float, "rev": lambda x: x[::-1]}
    return PY_FNS


def canon_mapping(m):
    return [[str(i), canon_entry(e)] for i, e in m.items()]


def check_parse(ctx, gram, lines, opts, header, proc, how="list", tags=()):
    from biom.parse import MetadataMap
    fns = py_fns()
    process_fns = {k: fns[c] for k, c in proc}
    hdr_arg = None
    if header is not None:
        hdr_arg = tuple(header) if (header and ctx.rng.random() < 0.3) else list(header)
    import numpy as np

    def flag(b):
        return ctx.rng.choice([b, b, int(b), np.bool_(b)])
    kw = dict(strip_quotes=flag(opts["strip_quotes"]), suppress_stripping=flag(opts["suppress"]),
              header=hdr_arg,
              process_fns=(process_fns if (process_fns or how != "list") else None))
    if opts["strip_quotes"] and not opts["suppress"] and ctx.rng.random() < 0.5:
        # the defaults left unsaid, as most callers write the call
        del kw["strip_quotes"], kw["suppress_stripping"]
        if kw["header"] is None and ctx.rng.random() < 0.5:
            del kw["header"]
        if kw["process_fns"] is None:
            del kw["process_fns"]
    res = None
    path = None
    try:
        if how == "list":
            c = ctx.rng.random()
            src = list(lines) if c < 0.6 else tuple(lines) if c < 0.8 else iter(list(lines))
        else:
            os.makedirs(TMP, exist_ok=True)
            path = os.path.join(TMP, "map_%d.txt" % os.getpid())
            with open(path, "w", newline="") as f:
                f.write("".join(lines))
            src = path if how == "path" else open(path, newline=None)
        try:
            m = MetadataMap.from_file(src, **kw)
            if not isinstance(m, MetadataMap):
                ctx.diverge({"lines": lines}, "from_file did not return a MetadataMap", tags)
            res = {"ok": canon_mapping(m)}
        except Exception as e:  # noqa: BLE001
            res = {"error": "Other" if type(e).__name__ == "BiomParseException" else "Unexpected:" + type(e).__name__}
        finally:
            if how == "fileobj":
                src.close()
    finally:
        if path and os.path.exists(path):
            os.remove(path)
    case = {"op": "parse", "opts": opts, "header": header, "proc": [[k, c] for k, c in proc],
            "file": {"gram": gram, "lines": lines}, "result": res}
    ctx.case({k: case[k] for k in ("opts", "header", "proc", "file")},
             nontrivial=any(ln and not ln.startswith("#") for ln in lines))
    r = ctx.driver.ask(case)
    ctx.count("parse:%s,guarded=%s,result=%s" % (how, r.get("guarded"), "ok" if "ok" in res else res["error"]))
    ctx.count("parse:mode=q%d,s%d" % (opts["strip_quotes"], opts["suppress"]))
    if r.get("guarded"):
        ctx.count("parse:rows ending in empty fields=%s" % (not r.get("strict_guard")))
    if res.get("error", "").startswith("Unexpected"):
        ctx.diverge(case, "from_file raised %s" % res["error"], tags)
    report(ctx, case, r, ("parse",) + tuple(tags))
    return r


def gen_colkinds(rng):
    n = rng.choice([0, 1, 2, 3, 3, 4])
    names = rng.sample(COLNAMES, n)
    if n >= 2 and rng.random() < 0.08:
        names[1] = names[0]                      # duplicated column name: the later column wins
    return [(nm, rng.choice(["text", "text", "int", "float", "sc", "pipe"])) for nm in names]


KIND2CONV = {"int": "int", "float": "float", "sc": "sc", "pipe": "pipe"}


def run_parse_stream(ctx, n):
    rng = ctx.rng
    for i in range(n):
        colkinds = gen_colkinds(rng)
        opts = {"strip_quotes": True, "suppress": False}
        how = "list"
        c = rng.random()
        if c < 0.3:
            opts = {"strip_quotes": rng.random() < 0.5, "suppress": rng.random() < 0.5}
        elif c < 0.42:
            how = rng.choice(["path", "fileobj"])
        override = rng.random() < 0.3
        stress = rng.random() < 0.3
        ids = core.gen_ids(rng, 5, "S", "mixed")
        ids = [x for x in ids if '"' not in x] or ["S1"]
        gram, facts = gen_file(rng, ids, colkinds, for_file=(how != "list"), override=override, opts=opts,
                               stress=stress)
        header = None
        if override:
            k = rng.choice([len(colkinds), len(colkinds), max(0, len(colkinds) - 1), 1, len(colkinds) + 1])
            header = ["ID"] + [("K%d" % j if rng.random() < 0.5 or j >= len(colkinds) else colkinds[j][0])
                               for j in range(k)]
            facts.add("override-first-%s-cols" % ("all" if k >= len(colkinds) else "k"))
        proc = []
        keys = [c[0] for c in colkinds] + (header[1:] if header else [])
        for nm, kind in colkinds:
            if kind in KIND2CONV and rng.random() < 0.85:
                proc.append((nm, KIND2CONV[kind]))
        if rng.random() < 0.15 and keys:
            proc.append((rng.choice(keys), "rev"))
        if rng.random() < 0.1:
            proc.append(("no such column", "int"))
        seen = set()
        proc = [(k, c) for k, c in proc if not (k in seen or seen.add(k))]
        lines = [render_line(g) for g in gram]
        for f in facts:
            ctx.count("parse:fact=" + f)
        check_parse(ctx, gram, lines, opts, header, proc, how)


RAW_LINES = ["#ID\tA\tB\n", "# c\n", "\n", "s1\tx\ty\n", "\ts2\tz\n", " \t \n", "s3\t\t\n", '"s4"\t"a\tb"\n', "#\n",
             "s5", "\t\t\n", "##ID\tQ\n", "s1\tdup\n", " #late\tH\n", "s6\t \t x \n", '"\n', "s7\tp\tq\tr\ts\n",
             "#  ID\t A \t B \n", "s8\t1\n", "﻿#ID\tA\n", "s9\t\"\"\t\"\"\n"]


def run_raw_stream(ctx, n):
    """lines outside the grammar's guards: only the model is compared"""
    rng = ctx.rng
    for i in range(n):
        k = rng.randint(0, 6)
        lines = [rng.choice(RAW_LINES) for _ in range(k)]
        opts = {"strip_quotes": rng.random() < 0.6, "suppress": rng.random() < 0.4}
        header = rng.choice([None, None, ["ID", "K1"], ["ID", "K1", "K2", "K3"], []])
        proc = rng.choice([[], [("A", "int")], [("B", "sc"), ("K1", "float")], [("K2", "pipe")]])
        check_parse(ctx, None, lines, opts, header, proc, "list", tags=("raw",))


# ----------------------------------------------------------------------------- the command
def hdf5_faithful(t):
    """metadata the HDF5 writer stores without change of type (C01's domain decides the rest)"""
    for ax in ("sample", "observation"):
        md = t.metadata(axis=ax)
        if md is None:
            continue
        ks = set(md[0].keys())
        if not ks:
            return False
        for e in md:
            if set(e.keys()) != ks:
                return False
        for k in ks:
            if "/" in k or k == "" or k in ("taxonomy", "Taxonomy", "KEGG_Pathways", "collapsed_ids"):
                return False           # names with a dedicated list formatter / path characters
            types = {type(e[k]) for e in md}
            if types <= {str}:
                continue
            if types <= {int} and all(abs(e[k]) < 2 ** 62 for e in md):
                continue
            if types <= {float} and all(math.isfinite(e[k]) for e in md):
                continue
            return False
    return True


def gen_cli_case(rng, t, quick=True, friendly=False):
    """files + options for one run of the command against table t"""
    files = {}
    opts = {"sc": None, "pipe": None, "ints": None, "floats": None, "sample_header": None, "obs_header": None}
    which = rng.choice(["sample", "sample", "observation", "both", "both", "neither" if rng.random() < 0.3 else "sample"])
    axes = {"sample": ["sample"], "observation": ["observation"], "both": ["sample", "observation"], "neither": []}[which]
    allkinds = []
    facts = set()
    for ax in axes:
        colkinds = [(nm, kd) for nm, kd in gen_colkinds(rng) if "," not in nm]
        ids = [str(i) for i in t.ids(axis=ax) if '"' not in str(i) and "\n" not in str(i)]
        mode = rng.choice(["all", "all", "subset", "superset", "mixed"])
        if friendly:
            colkinds = [(nm, kd if kd in ("text", "int", "float") else "text") for nm, kd in colkinds
                        if nm not in ("taxonomy",)] or [("A", "text")]
            mode = "all" if len(ids) == len(t.ids(axis=ax)) else "superset"
        rng.shuffle(ids)
        if mode in ("subset", "mixed"):
            ids = ids[:rng.randint(0, len(ids))]
        if mode in ("superset", "mixed") or not ids:
            ids = ids + ["zz1", "zz2"][:rng.randint(1, 2)]
        override = rng.random() < 0.3
        if friendly:
            # every table ID exactly once (plus unknown ones): rows = ids
            gram, f = gen_file(rng, ids, colkinds, for_file=True, override=override, friendly=True)
            have = {g["fields"][0]["c"] for g in gram if g["k"] == "row"}
            for rid in ids:
                if rid not in have:
                    fields = [deco(rng, rid, WS_FILE, 0.1)] + [deco(rng, gen_clean(rng, kd, True), WS_FILE)
                                                             for _, kd in colkinds]
                    if gram and gram[-1]["k"] == "row" and not gram[-1]["fields"][-1]["post"].endswith("\n"):
                        gram[-1]["fields"][-1]["post"] += "\n"
                    elif gram and gram[-1]["k"] != "row" and not gram[-1].get("raw", gram[-1].get("trail", "")).endswith("\n"):
                        gram[-1]["raw" if "raw" in gram[-1] else "trail"] += "\n"
                    fields[-1]["post"] += "\n"
                    gram.append({"k": "row", "fields": fields})
        else:
            gram, f = gen_file(rng, ids, colkinds, for_file=True, override=override, stress=rng.random() < 0.15)
        # the command sees every given ID exactly once unless the grammar duplicated one on purpose
        facts |= f
        facts.add("cli:ids=" + mode)
        if override:
            k = rng.choice([len(colkinds), max(0, len(colkinds) - 1), 1, len(colkinds) + 1])
            hdr = ["ID"] + [("K%d" % j if rng.random() < 0.5 or j >= len(colkinds) else colkinds[j][0])
                            for j in range(k)]
            opts["sample_header" if ax == "sample" else "obs_header"] = ",".join(hdr)
            facts.add("cli:header-override")
            colkinds = [(hdr[j + 1], colkinds[j][1]) for j in range(min(k, len(colkinds)))] + \
                       [(h, "text") for h in hdr[1 + len(colkinds):]]
        files[ax] = {"gram": gram, "lines": [render_line(g) for g in gram]}
        allkinds.extend(colkinds)
    bucket = {"sc": [], "pipe": [], "int": [], "float": []}
    for nm, kd in allkinds:
        if kd in bucket and (friendly or rng.random() < 0.85):
            bucket[kd].append(nm)
        if not friendly and rng.random() < 0.08 and kd != "text":
            bucket[rng.choice(list(bucket))].append(nm)      # same field under two options: priority rule
    for key, b in (("sc", "sc"), ("pipe", "pipe"), ("ints", "int"), ("floats", "float")):
        if bucket[b]:
            opts[key] = ",".join(bucket[b])
            facts.add("cli:--" + {"sc": "sc-separated", "pipe": "sc-pipe-separated", "ints": "int-fields",
                                  "floats": "float-fields"}[key])
        elif rng.random() < 0.05 and not friendly:
            opts[key] = "nosuch"
    return files, opts, facts


def cli_request(before, files, opts, after, err):
    return {"op": "cli", "table": before, "opts": opts, "sample": files.get("sample"), "obs": files.get("observation"),
            "after": after, "error": err}


def split_opt(s):
    return None if s is None else s.split(",")


def check_cli_worker(ctx, t, files, opts, facts, tags=(), others=()):
    """_add_metadata in-process on file objects (what the command calls)"""
    from biom.cli.metadata_adder import _add_metadata
    import io
    dress(ctx, t)
    before = tobs(t)
    snaps = snap_others(others)
    err = None
    fobj = {ax: io.StringIO("".join(f["lines"])) for ax, f in files.items()}
    try:
        r = _add_metadata(t, fobj.get("sample"), fobj.get("observation"), split_opt(opts["sc"]),
                          split_opt(opts["pipe"]), split_opt(opts["ints"]), split_opt(opts["floats"]),
                          split_opt(opts["sample_header"]), split_opt(opts["obs_header"]))
        if r is not t:
            ctx.diverge({"opts": opts}, "_add_metadata did not return the table it was given", tags)
    except Exception as e:  # noqa: BLE001
        err = "Other" if type(e).__name__ == "BiomParseException" else core.err_name(e)
    after = tobs(t)
    case = cli_request(before, files, opts, after, err)
    if others:
        case["others"] = finish_others(snaps, others)
    ctx.case(case, nontrivial=bool(files))
    r = ctx.driver.ask(case)
    ctx.count("cli-worker:guarded=%s,%s" % (r.get("guarded"), "error=" + err if err else "ok"))
    for f in facts:
        ctx.count("cli:fact=" + f)
    report(ctx, case, r, ("cli", "worker") + tuple(tags))
    return r


def check_cli_command(ctx, t, files, opts, facts, out_json, in_fmt="json", tags=()):
    """the `add-metadata` click command end to end: input file, mapping files, output file"""
    from click.testing import CliRunner
    from biom import load_table
    from biom.cli.metadata_adder import add_metadata as cmd
    from biom.cli.util import write_biom_table
    d = os.path.join(TMP, "cli_%d" % os.getpid())
    os.makedirs(d, exist_ok=True)
    try:
        in_fp, out_fp = os.path.join(d, "in.biom"), os.path.join(d, "out.biom")
        write_biom_table(t, in_fmt, in_fp)
        before = tobs(load_table(in_fp))
        args = ["-i", in_fp, "-o", out_fp]
        for ax, flag in (("sample", "-m"), ("observation", "--observation-metadata-fp")):
            if ax in files:
                p = os.path.join(d, ax + ".txt")
                with open(p, "w", newline="") as f:
                    f.write("".join(files[ax]["lines"]))
                args += [flag, p]
        for key, flag in (("sc", "--sc-separated"), ("pipe", "--sc-pipe-separated"), ("ints", "--int-fields"),
                          ("floats", "--float-fields"), ("sample_header", "--sample-header"),
                          ("obs_header", "--observation-header")):
            if opts[key] is not None:
                args += [flag, opts[key]]
        if out_json:
            args.append("--output-as-json")
        res = CliRunner().invoke(cmd, args)
        err = None
        after = before
        wrote = os.path.exists(out_fp)
        if res.exit_code != 0 or res.exception is not None:
            e = res.exception
            err = "Other" if type(e).__name__ == "BiomParseException" else core.err_name(e)
        else:
            after = tobs(load_table(out_fp))
    finally:
        shutil.rmtree(d, ignore_errors=True)
    fmt = "json" if out_json else "hdf5"
    # what a file keeps of table id / group metadata / dtype is the formats' business (C01, C02)
    before = dict(before, extra=None)
    after = dict(after, extra=None)
    case = cli_request(before, files, opts, after, err)
    case["_out"] = fmt
    case["via_file"] = True
    if not out_json:
        # what the HDF5 writer can store is C01's business: predict the table and only judge the file when
        # its metadata is of the kinds that format stores unchanged
        probe = t.copy()
        from biom.cli.metadata_adder import _add_metadata
        import io
        try:
            _add_metadata(probe, *(io.StringIO("".join(files[ax]["lines"])) if ax in files else None
                                   for ax in ("sample", "observation")),
                          split_opt(opts["sc"]), split_opt(opts["pipe"]), split_opt(opts["ints"]),
                          split_opt(opts["floats"]), split_opt(opts["sample_header"]), split_opt(opts["obs_header"]))
            faithful = hdf5_faithful(probe)
        except Exception:  # noqa: BLE001
            faithful = True           # refusal of the mapping itself: judged as usual
        if not faithful:
            ctx.count("cli-command:hdf5 output outside the format's faithful metadata kinds: %s" %
                      ("writer refused (%s)" % err if err else "written"))
            return None
    ctx.case(case, nontrivial=bool(files))
    r = ctx.driver.ask(case)
    ctx.count("cli-command:%s->%s,guarded=%s,%s" % (in_fmt, fmt, r.get("guarded"), "error=" + err if err else "ok"))
    if err is not None and wrote:
        ctx.count("cli-command:refused-but-left-an-output-file")
    report(ctx, case, r, ("cli", "command", fmt) + tuple(tags))
    return r


# ----------------------------------------------------------------------------- fixed corpus
def fixed_cases(ctx):
    import numpy as np
    from biom import Table

    def mk(omd=None, smd=None):
        return Table(np.array([[0, 1, 2], [3, 4, 5]], dtype=float), ["O1", "O2"], ["S1", "S2", "S3"],
                     copy.deepcopy(omd), copy.deepcopy(smd))
    smd = [{"barcode": "ATGC", "env": "A"}, {"barcode": "GGTT", "env": "B"}, {"barcode": "CCAA", "env": "A"}]
    omd = [{"taxonomy": ["k__A", "p__b"]}, {"taxonomy": ["k__A"]}]
    # add: overwrite + new key + unknown ID, with and without existing metadata, both axes
    check_add(ctx, mk(omd, smd), {"S2": {"env": "Z", "pH": 7}, "nope": {"env": "Q"}}, "sample", ("fixed",))
    check_add(ctx, mk(), {"S2": {"env": "Z"}, "nope": {"env": "Q"}}, "sample", ("fixed",))
    check_add(ctx, mk(), {"nope": {"env": "Q"}}, "sample", ("fixed",))
    check_add(ctx, mk(), {}, "observation", ("fixed",))
    check_add(ctx, mk(omd, smd), {"O1": {"taxonomy": ["x"]}, "O2": {}}, "observation", ("fixed",))
    check_add(ctx, mk(), {"O2": {}}, "observation", ("fixed",))
    check_add(ctx, mk(omd, smd), {"S1": {"a": 1}}, "whole", ("fixed",))
    check_add(ctx, mk(omd, smd), {"S1": {"a": 1}}, "samples", ("fixed",))
    check_add(ctx, mk(), {"S1": {"a": 1}}, "bogus", ("fixed",))
    # del: every key subset x every axis spelling, on the docstring example
    for r in range(0, 3):
        for ks in itertools.combinations(["barcode", "env", "absent"], r):
            for ax in ("sample", "observation", "whole", "bogus"):
                check_del(ctx, mk(omd, smd), list(ks), ax, ("fixed",))
    for ax in ("sample", "observation", "whole", "bogus"):
        check_del(ctx, mk(omd, smd), None, ax, ("fixed",))
        check_del(ctx, mk(None, smd), ["barcode", "env"], ax, ("fixed",))
    check_del(ctx, mk(omd, smd), "default", "whole", ("fixed",))
    check_del(ctx, mk([{}, {}], smd), [], "whole", ("fixed",))
    # a bare string is iterated character by character: 'ab' names the keys 'a' and 'b', not 'ab'
    abmd = [{"a": 1, "b": 2, "ab": 3}, {"a": 4, "ab": 5}, {"b": 6}]
    for ax in ("sample", "whole", "observation"):
        check_del(ctx, mk(omd, abmd), "ab", ax, ("fixed", "bare-string"))
        check_del(ctx, mk(omd, abmd), ("ab",), ax, ("fixed",))
    # an axis without IDs
    for shape, o_ids, s_ids in (((0, 3), [], ["S1", "S2", "S3"]), ((2, 0), ["O1", "O2"], [])):
        for ax in ("sample", "observation"):
            e = Table(np.zeros(shape), o_ids, s_ids)
            check_add(ctx, e, {"S1": {"k": 1}, "O1": {"k": 2}, "zz": {}}, ax, ("fixed", "empty-axis"))
            check_del(ctx, e, ["k"], "whole", ("fixed", "empty-axis"))
    # mapping files: the documented shape, header given late, padded rows, quotes, duplicate ids
    fixed_files = [
        (["#SampleID\tBarcode\tEnv\n", "# a comment\n", "\n", "S1\tAAA\tgut\n", "S2\tCCC\n", 'S3\t"GGG"\t skin \tx\n'], None, []),
        (["S1\ta\tb\n", "#ID\tA\tB\n", "S2\tc\n"], None, []),
        (["#ID\tA\n", "S1\t1\n", "S1\t2\n"], None, [("A", "int")]),
        (["#ID\tA\n", "#only comments\n"], None, []),
        (["S1\t1\n"], None, []),
        (["S1\t1;2\t3.5\n", "#x\ty\n"], ["ID", "K1"], [("K1", "sc")]),
        (["#ID\tA\tA\n", "S1\tfirst\tsecond\n"], None, []),
    ]
    for lines, header, proc in fixed_files:
        for opts in ({"strip_quotes": True, "suppress": False}, {"strip_quotes": False, "suppress": True}):
            check_parse(ctx, None, lines, opts, header, proc, "list", tags=("fixed",))


def run_wide(ctx, n):
    """a few large cases: >= 64 IDs on an axis, mapping in non-axis order; mapping files >= 64 KiB"""
    rng = ctx.rng
    for i in range(n):
        ax = ["sample", "observation"][i % 2]
        big = (i == 1)                  # one case above 512 IDs (metadata-free: the driver's lookups are quadratic)
        spec = core.wide_spec(rng, axis=ax, md=(i % 4 < 2 and not big), n_axis=(rng.choice([513, 520]) if big else None),
                              other=(2 if big else None))
        t = core.build(spec, rng.choice(["dense", "csr", "csc"]), rng)
        src = t
        if i % 3 == 0:
            t = derive_safe(rng, src, "sort_order:" + ax)
        m, mode, _ = gen_mapping(rng, t, ax)
        check_add(ctx, t, m, ax, ("wide",), [("source", src)] if t is not src else [])
        ks = sorted({k for e in (t.metadata(axis=ax) or []) for k in e})[:2]
        check_del(ctx, t, ks, rng.choice([ax, "whole"]), ("wide",), [("source", src)] if t is not src else [])
        ctx.count("wide:axis=%s,n=%d" % (ax, len(t.ids(axis=ax))))
        # the command's worker on a file naming every ID, rows in shuffled order
        ids = [str(x) for x in src.ids(axis=ax)]
        rng.shuffle(ids)
        gram = [{"k": "header", "names": ["ID", "A", "pH"], "trail": "\n"}]
        for rid in ids + ["S64x", "O1000"]:
            gram.append({"k": "row", "fields": [deco(rng, rid, WS_FILE, 0.1), deco(rng, rng.choice(TEXTS), WS_FILE),
                                                deco(rng, rng.choice(FLOATS_OK), WS_FILE, 0.1)]})
            gram[-1]["fields"][-1]["post"] += "\n"
        files = {ax: {"gram": gram, "lines": [render_line(g) for g in gram]}}
        opts = {"sc": None, "pipe": None, "ints": None, "floats": "pH", "sample_header": None, "obs_header": None}
        check_cli_worker(ctx, src.copy(), files, opts, {"wide"}, ("wide",))
    for i in range(max(1, n // 3)):
        # a file of >= 64 KiB: many rows, one very long field
        big = "x" * rng.choice([65536, 70001])
        gram = [{"k": "header", "names": ["ID", "A", "B"], "trail": "\n"}]
        for j in range(rng.choice([300, 400])):
            gram.append({"k": "row", "fields": [deco(rng, "S%d" % j, WS_FILE, 0.1),
                                                deco(rng, big if j == 7 else rng.choice(INTS), WS_FILE),
                                                deco(rng, "v%d;w" % j, WS_FILE, 0.1)]})
            if j % 5 == 4:
                gram[-1]["fields"] = gram[-1]["fields"][:2]
            if gram[-1]["fields"][-1]["c"] == "":
                gram[-1]["fields"][-1]["c"] = "t"
            gram[-1]["fields"][-1]["post"] += "\n"
        lines = [render_line(g) for g in gram]
        ctx.count("wide:file KiB=%d" % (sum(len(x) for x in lines) // 1024))
        check_parse(ctx, gram, lines, {"strip_quotes": True, "suppress": False}, None, [("A", "int"), ("B", "sc")],
                    ["path", "fileobj", "list"][i % 3], ("wide",))


DEFAULT_PROBE = (["#ID\tA\tB\n", "S1\t1\tx;y\n", "S2\t 2 \t\"q\"\n"], None, [])


def state_cases(ctx, when):
    """process-level state: unusual optional arguments first, then the plain call; the plain call is
    repeated at the end of the run and must give the same answer"""
    lines, header, proc = DEFAULT_PROBE
    if when == "early":
        # custom conversions under the names the command uses, other stripping modes, an override
        check_parse(ctx, None, lines, {"strip_quotes": False, "suppress": True}, ["ID", "B", "A"],
                    [("A", "rev"), ("B", "pipe")], "list", ("state",))
        check_parse(ctx, None, lines, {"strip_quotes": True, "suppress": True}, None, [("A", "float"), ("B", "rev")],
                    "path", ("state",))
        import numpy as np
        from biom import Table
        t = Table(np.ones((1, 2)), ["O1"], ["S1", "S2"])
        files = {"sample": {"gram": None, "lines": lines}}
        check_cli_worker(ctx, t, files, {"sc": "B", "pipe": None, "ints": "A", "floats": None,
                                         "sample_header": "ID,B,A", "obs_header": None}, {"state"}, ("state",))
    r = check_parse(ctx, None, lines, {"strip_quotes": True, "suppress": False}, header, proc, "list", ("state", when))
    import numpy as np
    from biom import Table
    t = Table(np.ones((1, 2)), ["O1"], ["S1", "S2"])
    check_cli_worker(ctx, t, {"sample": {"gram": None, "lines": lines}},
                     {"sc": None, "pipe": None, "ints": None, "floats": None, "sample_header": None,
                      "obs_header": None}, {"state"}, ("state", when))
    return json.dumps(r["model"], sort_keys=True)


# ----------------------------------------------------------------------------- run
def run(ctx):
    rng = ctx.rng
    os.makedirs(TMP, exist_ok=True)
    ctx.rule = ("tables from core.gen_spec through all construction routes and prior histories "
                "(filter, in-place filter, sort_order, transpose, combinations); receivers that are alive together with "
                "their source / tables derived without deep copy (sort, sort_order, transpose, filter(inplace=False), "
                "Table(src.metadata()), copy; either side updated) with every other live table snapshotted "
                "before and after (clause others-unchanged); add: mappings over "
                "sub/supersets/disjoint sets of the axis IDs with overwriting and new keys, every axis spelling; "
                "del: every subset of the keys present (+ absent keys, None, []) x sample/observation/whole/unknown; "
                "parse: files generated from the row grammar (header, comments, blanks, short/long rows, quoted and "
                "padded fields, int/float/semicolon/pipe columns, header overrides selecting the first k columns, 4 "
                "stripping modes, list/path/file-object input) plus raw lines outside the guards (model comparison "
                "only); command: _add_metadata on file objects and the add-metadata click command on real files "
                "with JSON/HDF5 input and output. non-trivial = non-empty mapping / table with metadata / file "
                "with a data line; distinct = distinct request")
    ctx.trusted = ["canonical metadata texts (vtext) are computed by the harness; floats travel as exact rationals",
                   "files for the command contain only \\n line ends; int/float columns hold ASCII digits and "
                   "literals whose value is exact in binary64"]
    quick = ctx.quick()
    try:
        first = state_cases(ctx, "early")
        fixed_cases(ctx)
        n_tab = 1000 if quick else 650
        for i in range(n_tab):
            t, route, hist = gen_table(rng, quick)
            ctx.count("history=" + hist)
            ax = rng.choice(["sample", "observation"])
            # the receiver: the table itself, a deep copy, or one of several tables that are alive
            # together (source + tables derived from it without a deep copy)
            others = []
            c = rng.random()
            if c < 0.5:
                live, ri = gen_live(rng, t)
                ta = live[ri][1]
                others = [lt for j, lt in enumerate(live) if j != ri]
                ctx.count("live:receiver=%s" % live[ri][0].split(" of ")[0])
                ax = rng.choice(["sample", "observation"])
            elif c < 0.75:
                ta = t.copy()
                others = [("source (deep-copied from)", t)]
            else:
                ta = t
            m, mode, overlap = gen_mapping(rng, ta, ax)
            axis_arg = ax if rng.random() < 0.95 else rng.choice(["whole", "bogus", "Sample"])
            check_add(ctx, ta, m, axis_arg, (route, hist), others)
            # a second update on the already updated table (history: add then add)
            if rng.random() < 0.4:
                m2, _, _ = gen_mapping(rng, ta, ax)
                check_add(ctx, ta, m2, ax, (route, hist, "add-after-add"), others)
            # del: all key subsets of the keys present on the table (small), each axis spelling
            keys_present = set()
            for a in ("sample", "observation"):
                md = ta.metadata(axis=a)
                if md is not None:
                    for e in md:
                        keys_present.update(e.keys())
            pool = sorted(keys_present)[:3] + ["absent"]
            subsets = [list(c) for r in range(len(pool) + 1) for c in itertools.combinations(pool, r)]
            picks = subsets if not quick else rng.sample(subsets, min(3, len(subsets)))

            def del_receiver():
                """receiver of one deletion and the tables alive next to it"""
                c = rng.random()
                if c < 0.4:
                    how = rng.choice(DERIVE)
                    ctx.count("live:del on derived:" + how.split(":")[0])
                    return derive_safe(rng, ta, how), [("source", ta)] + list(others)
                if c < 0.6:
                    base = ta.copy()
                    how = rng.choice(DERIVE)
                    ctx.count("live:del on source of:" + how.split(":")[0])
                    return base, [("derived:" + how, derive_safe(rng, base, how))]
                return ta.copy(), [("source (deep-copied from)", ta)]
            for ks in picks:
                dax = rng.choice(["sample", "observation", "whole", "whole", "bogus"]) if quick else None
                for a in ([dax] if dax else ["sample", "observation", "whole", "bogus"]):
                    rcv, oth = del_receiver()
                    check_del(ctx, rcv, ks, a, (route, hist), oth)
            if rng.random() < 0.3:
                rcv, oth = del_receiver()
                check_del(ctx, rcv, rng.choice([None, "default"]),
                          rng.choice(["sample", "observation", "whole", "bogus"]), (route, hist), oth)
        run_parse_stream(ctx, 3000 if quick else 10000)
        run_raw_stream(ctx, 800 if quick else 2500)
        n_cli = 520 if quick else 900
        for i in range(n_cli):
            friendly = (i % 4 == 3)
            if friendly:
                spec = core.gen_spec(rng, max_n=4, max_m=4, md=False)
                t, route, hist = core.build(spec, rng.choice(core.ROUTES), rng), "md-free", "none"
            else:
                t, route, hist = gen_table(rng, True)
            files, opts, facts = gen_cli_case(rng, t, friendly=friendly)
            if rng.random() < 0.5:
                how = rng.choice(DERIVE)
                rcv = derive_safe(rng, t, how)
                if how.startswith("filter") or how == "transpose":
                    rcv = derive_safe(rng, t, "Table(src.metadata())")      # keep the IDs the files were written for
                check_cli_worker(ctx, rcv, files, opts, facts, (route, hist), [("source", t)])
            else:
                check_cli_worker(ctx, t.copy(), files, opts, facts, (route, hist))
            if friendly or i % 3 == 0:
                out_json = rng.random() < (0.2 if friendly else 0.7)
                in_fmt = "json" if (rng.random() < 0.7 or not hdf5_faithful(t)) else "hdf5"
                check_cli_command(ctx, t.copy(), files, opts, facts, out_json, in_fmt, (route, hist))
        run_wide(ctx, 4 if quick else 12)
        if state_cases(ctx, "late") != first:
            ctx.diverge({"probe": DEFAULT_PROBE[0]}, "the default call answers differently at the end of the run")
    finally:
        # only this process's scratch (thorough runs are sharded over worker processes)
        shutil.rmtree(os.path.join(TMP, "cli_%d" % os.getpid()), ignore_errors=True)
        p = os.path.join(TMP, "map_%d.txt" % os.getpid())
        if os.path.exists(p):
            os.remove(p)


def unvtext(s):
    """inverse of vtext for the values the generators use"""
    v, i = _parse_value(s, 0)
    if i != len(s):
        raise ValueError("trailing text in %r" % s)
    return v


def _parse_value(s, i):
    from fractions import Fraction
    import re
    if s.startswith("null", i):
        return None, i + 4
    if s.startswith("true", i):
        return True, i + 4
    if s.startswith("false", i):
        return False, i + 5
    if s[i] == '"':
        v, j = json.JSONDecoder().raw_decode(s, i)
        return v, j
    if s.startswith("float:", i):
        m = re.compile(r"float:(-?inf|nan|-?\d+(?:/\d+)?)").match(s, i)
        tok = m.group(1)
        v = float(tok) if tok in ("inf", "-inf", "nan") else float(Fraction(tok))
        return v, m.end()
    if s[i] == "{":
        out = {}
        i += 1
        while s[i] != "}":
            k, i = _parse_value(s, i)
            i += 2
            v, i = _parse_value(s, i)
            out[k] = v
            if s.startswith(", ", i):
                i += 2
        return out, i + 1
    if s[i] == "[":
        out = []
        i += 1
        while s[i] != "]":
            v, i = _parse_value(s, i)
            out.append(v)
            if s.startswith(", ", i):
                i += 2
        return out, i + 1
    m = re.compile(r"-?\d+").match(s, i)
    return int(m.group(0)), m.end()


def table_from_obs(o):
    import numpy as np
    from biom import Table

    def md(x):
        return None if x is None else [{k: unvtext(v) for k, v in e.items()} for e in x]
    arr = np.array([[float(core.unfrac(v)) for v in r] for r in o["rows"]], dtype=float).reshape(
        len(o["obs"]), len(o["samp"]))
    t = Table(arr, o["obs"], o["samp"], md(o["omd"]), md(o["smd"]), type=o.get("type"))
    for ax, k in (("observation", "ogmd"), ("sample", "sgmd")):
        g = (o.get("extra") or {}).get(k)
        if g:
            t.add_group_metadata({kk: tuple(unvtext(v)) for kk, v in g.items()}, axis=ax)
    return t


def replay(ctx, rec):
    """re-run the recorded input against the real code of the current tree"""
    case = rec["case"]
    op = case["op"]
    def live_of(t):
        # the recorded derivation cannot be inverted: keep every kind of derived table of the receiver alive
        if not case.get("others"):
            return []
        return [("derived:" + how, derive(ctx.rng, t, how)) for how in DERIVE
                if not how.startswith("filter")]
    if op == "add":
        t = table_from_obs(case["table"])
        m = {i: {k: unvtext(v) for k, v in e.items()} for i, e in case["mapping"]}
        check_add(ctx, t, m, case["axis"], ("replay",), live_of(t))
    elif op == "del":
        t = table_from_obs(case["table"])
        check_del(ctx, t, case["keys"], case["axis"], ("replay",), live_of(t))
    elif op == "parse":
        check_parse(ctx, case["file"].get("gram"), case["file"]["lines"], case["opts"], case["header"],
                    [tuple(p) for p in case["proc"]], "list", ("replay",))
    elif op == "cli":
        t = table_from_obs(case["table"])
        files = {}
        if case.get("sample"):
            files["sample"] = case["sample"]
        if case.get("obs"):
            files["observation"] = case["obs"]
        if case.get("via_file"):
            check_cli_command(ctx, t, files, case["opts"], set(), case.get("_out", "json") == "json", "json",
                              ("replay",))
        else:
            check_cli_worker(ctx, t, files, case["opts"], set(), ("replay",), live_of(t))
    else:
        raise ValueError(op)
