"""C13 — value transforms touch only non-zero entries and mean what they say.

Kernel level: `_transform` of both implementations (compiled binary, rendering of the current .pyx)
on flat compressed arrays built by hand (sorted / unsorted indices, with / without stored zeros),
followed by scipy's `eliminate_zeros`; the call log, the value array and the compacted matrix are
compared exactly with the Lean model, and Lean evaluates the kernel predicate on them.

Table level: `Table.transform`, `norm`, `pa`, `rankdata` and `biom normalize-table` on asymmetric
tables through every `core.build` route, both axes, in place or not, under both kernel
implementations.  A spy installed in place of `biom.table._transform` records the matrix the kernel is
handed (the layout contract of the theorems is checked on it) and wraps the user function to record
the call log.  Lean evaluates `holds` on the real observation and compares it with the model.
"""
import os
import random
import shutil

import numpy as np

from . import core, kernels

TMP = os.path.join("/tmp/c13", "h%d" % os.getpid())
TOL = "1/1099511627776"  # 2^-40
RANK_METHODS = ["average", "min", "max", "dense", "ordinal"]


# ----------------------------------------------------------------------------- named functions
def py_fn(fn):
    """the Python side of a named function (Lean twin: Biom.C13.Fn.eval)"""
    name = fn["name"]
    if name == "scale":
        k = float(core.unfrac(fn["k"]))
        if fn.get("py") == "inplace":
            # mutates the slice it was handed (a view of the matrix's own value array) and returns it
            def f(v, i, m):
                v *= k
                return v
            return f
        if fn.get("py") == "list":
            return lambda v, i, m: [float(x) * k for x in v]   # a plain list, not an array
        if fn.get("py") == "tuple":
            return lambda v, i, m: tuple(v * k)
        return lambda v, i, m: v * k
    if name == "square":
        return lambda v, i, m: v * v
    if name == "addOne":
        return lambda v, i, m: v + 1
    if name == "zeroBelow":
        k = float(core.unfrac(fn["k"]))
        return lambda v, i, m: np.where(v < k, 0.0, v)
    if name == "zeroOdd":
        def f(v, i, m):
            w = v.copy()
            w[1::2] = 0
            return w
        return f
    if name == "fillSum":
        return lambda v, i, m: np.full(len(v), v.sum())
    if name == "reverse":
        return lambda v, i, m: v[::-1].copy()
    if name == "bcastSum":
        return lambda v, i, m: np.array([v.sum()])
    if name == "dropLast":
        return lambda v, i, m: v[:-1]
    if name == "byIdMd":
        return lambda v, i, m: v * float(len(str(i)) + (0 if m is None else
                                                        1 + sum(1 for x in m.values() if x is not None)))
    if name == "byMdKey":
        key = fn["key"]

        def f(v, i, m):
            x = None if m is None else m[key]     # plain subscription: relies on the entry's default
            k = x if (isinstance(x, int) and not isinstance(x, bool)) else (1 if x is None else 2)
            return v * float(k)
        return f
    if name == "byIdChar":
        return lambda v, i, m: v * float(ord(str(i)[0]) % 3 + 1)
    if name == "pa":
        return lambda v, i, m: np.where(v != 0, 1., 0.)
    raise ValueError(name)


ELEMENTWISE = [{"name": "scale", "k": "2"}, {"name": "scale", "k": "1/2"}, {"name": "scale", "k": "-1"},
               {"name": "scale", "k": "0"}, {"name": "scale", "k": "3"}, {"name": "square"}, {"name": "addOne"},
               {"name": "zeroBelow", "k": "3"}, {"name": "zeroBelow", "k": "10"}]
VECTORWISE = [{"name": "zeroOdd"}, {"name": "fillSum"}, {"name": "reverse"}, {"name": "byIdMd"}]
# functions whose value depends on the ID text and on md[key] for keys held by all / some / no entries
ARGUSERS = [{"name": "byIdMd"}, {"name": "byIdChar"}, {"name": "byMdKey", "key": "factor"},
            {"name": "byMdKey", "key": "depth"}, {"name": "byMdKey", "key": "grp"}, {"name": "byMdKey", "key": "nokey"}]
# functions that can never turn a non-zero value into zero
NONZEROING = ("square", "reverse", "byIdMd", "byIdChar")
KERNEL_ONLY = [{"name": "bcastSum"}, {"name": "dropLast"}]
# functions that only CARRY values (move, negate, double, compare, zero): exact in binary64 whatever the magnitude,
# so they may be run on tiny / huge values without leaving the model's exact arithmetic
CARRIERS = [{"name": "reverse"}, {"name": "zeroOdd"}, {"name": "zeroBelow", "k": "3"}, {"name": "zeroBelow", "k": "10"},
            {"name": "scale", "k": "-1"}, {"name": "scale", "k": "2"}, {"name": "scale", "k": "0"}]
# magnitudes far from ordinary counts: smallest subnormal, tiny concentrations, values just around the default
# absolute tolerance of numpy.isclose (1e-8), totals above 1e8, very large
WILD = [5e-324, 1e-309, 1e-300, 1e-12, 1.33e-9, 1e-8, 9.9e-9, 1.01e-8, 0.1, 1.0 / 3.0, 16777217.0, 1e8, 2.5e8, 3e9,
        9007199254740994.0, 1e12, 1e300]
# the subset on which float normalisation stays within 2^-40 of the exact quotient (no underflow, no subnormal
# quotient: smallest ratio about 1e-25)
NORM_WILD = [1e-12, 1.33e-9, 1e-8, 9.9e-9, 1.01e-8, 1e8, 2.5e8, 3e9, 1e12, 123456789.0]


def fn_tag(fn):
    return fn["name"] + ("(%s)" % fn["k"] if "k" in fn else "")


# ----------------------------------------------------------------------------- observation helpers
def cs_json(arr):
    """flat view of a scipy csr/csc matrix: major = the compressed axis"""
    fmt = arr.getformat()
    n_major = len(arr.indptr) - 1
    n_minor = arr.shape[1] if fmt == "csr" else arr.shape[0]
    return {"nMajor": int(n_major), "nMinor": int(n_minor), "indptr": [int(x) for x in arr.indptr],
            "indices": [int(x) for x in arr.indices], "data": [core.frac(x) for x in arr.data]}


def canon_md_entry(m):
    """metadata entries are defaultdict(lambda: None): `entry[key]` answers None for a key it does not hold — and
    stores the key while doing so.  A key holding None is therefore the same observation as an absent key."""
    return {k: v for k, v in core.canon_md_entry(m).items() if v != "null" and not k.startswith("c13_")}


def canon_md(md):
    return None if md is None else [canon_md_entry(m) for m in md]


def table_obs(t):
    o = core.table_obs(t)
    for k in ("omd", "smd"):
        if o[k] is not None:
            o[k] = [{kk: v for kk, v in e.items() if v != "null" and not kk.startswith("c13_")} for e in o[k]]
    return o


class Logger:
    def __init__(self, f):
        self.f = f
        self.log = []

    def __call__(self, v, id_, md):
        # a re-entrant function first reads the table (which may reorder the matrix in place: `v` is a view), then
        # computes: what it is applied to is what `v` shows when it computes
        pre = getattr(self.f, "pre", None)
        if pre is not None:
            pre()
        args = [core.frac(x) for x in v]
        ret = (self.f.core if pre is not None else self.f)(v, id_, md)
        self.log.append({"id": str(id_), "md": None if md is None else canon_md_entry(md), "args": args,
                         "ret": [core.frac(x) for x in np.asarray(ret, dtype=float).ravel()]})
        return ret


def asym(rows):
    n, m = len(rows), len(rows[0]) if rows else 0
    if n != m:
        return True
    return any(rows[i][j] != rows[j][i] for i in range(n) for j in range(m))


def nnz_of(rows):
    return sum(1 for r in rows for x in r if x != 0)


# ----------------------------------------------------------------------------- kernel level
def gen_kernel_case(rng, impl, fn=None, zeros=None, sort=None):
    n_major = rng.randint(0, 5)
    n_minor = rng.randint(0, 6)
    zeros = rng.random() < 0.4 if zeros is None else zeros
    sort = rng.random() < 0.4 if sort is None else sort
    wild = fn is None and rng.random() < 0.25  # tiny / huge stored values, value-carrying functions only
    if wild:
        fn = rng.choice(CARRIERS + [{"name": "dropLast"}])
    indptr, indices, data = [0], [], []
    for _ in range(n_major):
        k = rng.randint(0, n_minor)
        idx = rng.sample(range(n_minor), k)
        if sort:
            idx.sort()
        for j in idx:
            indices.append(j)
            if zeros and rng.random() < 0.3:
                data.append(0.0)
            elif wild and rng.random() < 0.5:
                data.append(rng.choice(WILD) * rng.choice([1.0, 1.0, -1.0]))
            else:
                data.append(core.gen_value(rng, rng.choice(["count", "smallcount", "dyadic", "neg"])))
        indptr.append(len(indices))
    ids = core.gen_ids(rng, n_major, "V")
    mds = core.gen_md(rng, ids)
    if fn is None:
        fn = rng.choice(ELEMENTWISE + VECTORWISE + VECTORWISE + KERNEL_ONLY)
    return {"level": "kernel", "impl": impl, "axisnum": rng.choice([0, 1]), "nMajor": n_major, "nMinor": n_minor,
            "indptr": indptr, "indices": indices, "data": [core.frac(x) for x in data], "ids": ids,
            "mds": mds, "fn": fn}


def check_kernel(ctx, impls, case, tags=()):
    import scipy.sparse as sp
    mods = impls[case["impl"]]
    data = np.array([float(core.unfrac(x)) for x in case["data"]], dtype=np.float64)
    indices = np.array(case["indices"], dtype=np.int32)
    indptr = np.array(case["indptr"], dtype=np.int32)
    nM, nm = case["nMajor"], case["nMinor"]
    if case["axisnum"] == 0:
        arr = sp.csr_matrix((data, indices, indptr), shape=(nM, nm))
    else:
        arr = sp.csc_matrix((data, indices, indptr), shape=(nm, nM))
    assert arr.indptr.dtype == np.int32 and list(arr.indices) == case["indices"]
    cs = cs_json(arr)
    mds = case["mds"]
    md_arg = None if mds is None else tuple(dict(m) for m in mds)
    lg = Logger(py_fn(case["fn"]))
    try:
        mods["_transform"]._transform(arr, np.array(case["ids"], dtype=object), md_arg, lg, case["axisnum"])
        after = [core.frac(x) for x in arr.data]
        arr.eliminate_zeros()
        obs = {"log": lg.log, "data": after, "elim": cs_json(arr)}
    except Exception as e:  # numpy refuses the assignment
        obs = {"error": core.err_name(e)}
    has_zero = any(x == "0" for x in case["data"])
    ctx.case(case, nontrivial=nM >= 1 and len(case["data"]) >= 2)
    r = ctx.driver.ask({"op": "kernel", "cs": cs, "ids": case["ids"], "mds": canon_md(mds), "fn": case["fn"],
                        "obs": obs})
    ctx.count("kernel:%s" % case["impl"])
    ctx.count("kernel:fn=%s" % case["fn"]["name"])
    ctx.count("kernel:stored-zero=%s" % has_zero)
    ctx.count("kernel:outcome=%s" % ("error" if "error" in obs else "ok"))
    tags = tuple(tags) + ("kernel", "impl=" + case["impl"], "fn=" + case["fn"]["name"])
    if not r["holds"]:
        ctx.fail(case, r["clause"], tags, detail={"obs": obs, "model": r["model"]})
    elif not r["agree"]:
        ctx.diverge(case, "kernel output differs from transformKernel/eliminateZeros", tags,
                    detail={"obs": obs, "model": r["model"]})
    return r


# ----------------------------------------------------------------------------- table level
def hetero_md(rng, ids):
    """one mapping-or-None per ID with DIFFERENT keys: some entries lack keys others have, some are empty or None"""
    out = []
    for k, _ in enumerate(ids):
        c = rng.random()
        if c < 0.2:
            out.append(None)
        elif c < 0.35:
            out.append({})
        else:
            e = {}
            if rng.random() < 0.6:
                e["factor"] = rng.randint(0, 4)
            if rng.random() < 0.6:
                e["depth"] = rng.choice([rng.randint(0, 5), True, 2.5])
            if rng.random() < 0.5:
                e["grp"] = rng.choice(["a", "b", 3])
            out.append(e)
    if all(not e for e in out):
        out[rng.randrange(len(out))] = {"factor": 3}
    return out


def reentrant(f, t, seed, allow_nnz, only=None):
    """a user function that reads the table being transformed while the transform runs (spike-in scaling, blank
    subtraction …): its VALUE is still f of its arguments, the reads are side-effect free from the user's view"""
    rr = random.Random(seed)
    obs, samp = [str(i) for i in t.ids(axis="observation")], [str(i) for i in t.ids()]
    kinds = ["data-obs", "data-samp", "cell", "iter-obs", "iter-samp", "sum", "metadata", "str"] + \
        (["nnz"] if allow_nnz else [])
    if only:
        kinds = list(only)
    else:
        kinds.append("suspended-iter")
    susp = {}

    def pre():
        for _ in range(rr.randint(1, 2)):
            k = rr.choice(kinds)
            if k == "sum" and not t.matrix_data.has_sorted_indices:
                # scipy's sum sorts the indices IN PLACE: correct, but the storage order the model predicts the call
                # log in is the one at kernel entry; another read is drawn instead
                k = "cell"
            if k == "data-obs":
                t.data(rr.choice(obs), axis="observation")
            elif k == "data-samp":
                t.data(rr.choice(samp), axis="sample")
            elif k == "cell":
                t.get_value_by_ids(rr.choice(obs), rr.choice(samp))
            elif k == "iter-obs":
                list(t.iter(axis="observation"))
            elif k == "iter-samp":
                list(t.iter(axis="sample"))
            elif k == "sum":
                t.sum(rr.choice(["sample", "observation", "whole"]))
            elif k == "metadata":
                t.metadata(axis=rr.choice(["sample", "observation"]))
            elif k == "str":
                str(t)
            elif k == "suspended-iter":
                # an iteration started earlier and resumed now, after other reads may have flipped the layout
                if "it" not in susp:
                    susp["it"] = t.iter(axis=rr.choice(["sample", "observation"]))
                try:
                    next(susp["it"])
                except StopIteration:
                    del susp["it"]
            else:
                int(t.nnz)

    def g(v, i, m):
        pre()
        return f(v, i, m)
    g.pre = pre
    g.core = f
    return g


SHARED_FMTS = ["csr", "csr", "csc", "coo", "lil", "dok", "bsr", "dia"]
SHARED_DTYPES = ["float64", "float64", "float32", "int64", "int32"]
GROUP_MD = {"observation": {"tree": ("newick", "(a,b);")}, "sample": {"batch": ("string", "q%s")}}


def build_shared(case, keep=None):
    """the receiver is built DIRECTLY from a scipy matrix object the caller keeps (any format / dtype), next to
    sibling tables built from the very same object; `keep` receives the caller's matrix, a private copy of it and the
    siblings, so that the check can demand none of them is touched by what happens to the receiver"""
    import copy
    import scipy.sparse as sp
    from biom import Table
    spec, sh = case["spec"], case["shared"]
    arr = np.array(spec["rows"], dtype=float).reshape(len(spec["obs"]), len(spec["samp"]))
    M = sp.csr_matrix(arr.astype(sh["dtype"])).asformat(sh["fmt"])
    M0 = M.copy()
    kw = dict(observation_metadata=copy.deepcopy(spec.get("omd")), sample_metadata=copy.deepcopy(spec.get("smd")),
              type=spec.get("type"))
    sibs = []
    if sh.get("sibling") in ("before", "both"):
        sibs.append(("sibling-same-matrix-before", Table(M, ["X" + i for i in spec["obs"]], list(spec["samp"]))))
    t = Table(M, spec["obs"], spec["samp"], observation_group_metadata=copy.deepcopy(GROUP_MD["observation"]),
              sample_group_metadata=copy.deepcopy(GROUP_MD["sample"]), **kw)
    if sh.get("sibling") in ("after", "both"):
        sibs.append(("sibling-same-matrix-after", Table(M, list(spec["obs"]), ["Y" + i for i in spec["samp"]])))
    if keep is not None:
        keep["caller"] = (M, M0)
        keep["siblings"] = [(n, b, table_obs(b)) for n, b in sibs]
    return t


def caller_untouched(M, M0):
    if M.getformat() != M0.getformat() or M.dtype != M0.dtype or M.shape != M0.shape:
        return False
    if not np.array_equal(M.toarray(), M0.toarray()):
        return False
    for name in ("data", "indices", "indptr", "row", "col", "offsets"):
        a, b = getattr(M, name, None), getattr(M0, name, None)
        if isinstance(a, np.ndarray) and a.dtype != object and not np.array_equal(a, b):
            return False
    return True


def build_case_table(case, keep=None):
    if "sparse" in case:
        # hand-made sparse input (may carry explicitly stored zeros)
        import scipy.sparse as sp
        from biom import Table
        s = case["sparse"]
        cls = sp.csr_matrix if s["fmt"] == "csr" else sp.csc_matrix
        m = cls((np.array([float(core.unfrac(x)) for x in s["data"]]), np.array(s["indices"], dtype=np.int32),
                 np.array(s["indptr"], dtype=np.int32)), shape=tuple(s["shape"]))
        return Table(m, case["spec"]["obs"], case["spec"]["samp"])
    if case.get("shared"):
        t = build_shared(case, keep)
    else:
        t = core.build(case["spec"], case["route"])
    if case.get("addmd"):
        # metadata added for SOME IDs only: the others get entries that hold no key
        t.add_metadata({k: dict(v) for k, v in case["addmd"]["md"].items()}, axis=case["addmd"]["axis"])
    return apply_hist(t, case.get("hist"))


HISTS = [None, None, "csc-transform", "csc-filter", "csr-transform", "rank-min-sample", "rank-ordinal-observation",
         "double-sample"]


def apply_hist(t, hist):
    """prior history through the public API: in-place sample-axis operations leave the matrix in CSC (the only
    way a table gets that layout: constructor, copy, transpose, sort_order all end in CSR)"""
    if hist == "csc-transform":
        t.transform(lambda v, i, m: v, axis="sample", inplace=True)
    elif hist == "csc-filter":
        t.filter(lambda v, i, m: True, axis="sample", inplace=True)
    elif hist == "csr-transform":
        t.transform(lambda v, i, m: v, axis="observation", inplace=True)
    elif hist == "norm-sample":
        # chains norm -> X: relative abundances of a vector totalling more than 1e8 fall below 1e-8
        t.norm(axis="sample", inplace=True)
    elif hist == "norm-observation":
        t.norm(axis="observation", inplace=True)
    elif hist == "rank-min-sample":
        t.rankdata(axis="sample", inplace=True, method="min")
    elif hist == "rank-ordinal-observation":
        t.rankdata(axis="observation", inplace=True, method="ordinal")
    elif hist == "double-sample":
        t.transform(lambda v, i, m: v * 2, axis="sample", inplace=True)
    return t


def view_tables(t, rng, which=None):
    """the content of `t` as seen through per-ID accessors, asked in random order: one table JSON per accessor"""
    obs_ids = [str(i) for i in t.ids(axis="observation")]
    samp_ids = [str(i) for i in t.ids()]
    frame = {"obs": obs_ids, "samp": samp_ids, "omd": canon_md(t.metadata(axis="observation")),
             "smd": canon_md(t.metadata(axis="sample")), "type": t.type}
    kinds = ["by-obs", "by-samp", "by-cell", "iter-obs", "iter-samp"]
    rng.shuffle(kinds)
    if which is not None:
        kinds = kinds[:which]
    out = []
    for k in kinds:
        if k == "by-obs":
            order = list(range(len(obs_ids)))
            rng.shuffle(order)
            rows = [None] * len(obs_ids)
            for i in order:
                rows[i] = [core.frac(x) for x in t.data(obs_ids[i], axis="observation", dense=True)]
        elif k == "by-samp":
            order = list(range(len(samp_ids)))
            rng.shuffle(order)
            cols = [None] * len(samp_ids)
            for j in order:
                cols[j] = [core.frac(x) for x in t.data(samp_ids[j], axis="sample", dense=True)]
            rows = [[cols[j][i] for j in range(len(samp_ids))] for i in range(len(obs_ids))]
        elif k == "by-cell":
            rows = [[core.frac(t.get_value_by_ids(o, s_)) for s_ in samp_ids] for o in obs_ids]
        elif k == "iter-obs":
            got = {str(i): [core.frac(x) for x in v] for v, i, _ in t.iter(dense=True, axis="observation")}
            rows = [got[o] for o in obs_ids]
        else:
            got = {str(i): [core.frac(x) for x in v] for v, i, _ in t.iter(dense=True, axis="sample")}
            rows = [[got[s_][i] for s_ in samp_ids] for i in range(len(obs_ids))]
        out.append(dict(frame, rows=rows, view=k))
    return out


def coherent_lookup(t):
    """the table still answers by-ID queries through its own lookups"""
    for axis in ("observation", "sample"):
        ids = list(t.ids(axis=axis))
        for pos, i in enumerate(ids):
            if not t.exists(i, axis=axis) or t.index(i, axis) != pos:
                return False
        for u in core.tricky_unknown_ids(ids)[:6]:
            if t.exists(u, axis=axis):
                return False
    return True


def make_bystanders(t, rng):
    """tables derived from `t` that stay alive while `t` (or the result) is changed in place"""
    obs, samp = list(t.ids(axis="observation")), list(t.ids())
    cands = [("copy", lambda: t.copy()),
             ("filter-copy", lambda: t.filter(lambda v, i, m: True, axis=rng.choice(["sample", "observation"]),
                                              inplace=False)),
             ("sort_order", lambda: t.sort_order(samp)),
             ("sort_order-obs", lambda: t.sort_order(obs, axis="observation")),
             ("transpose2", lambda: t.transpose().transpose()),
             ("transform-copy", lambda: t.transform(lambda v, i, m: v, axis=rng.choice(["sample", "observation"]),
                                                    inplace=False)),
             ("pa-copy", lambda: t.pa(inplace=False)),
             # relabelling: a new table around the receiver's own matrix object
             ("relabel-from-matrix_data", lambda: t.__class__(t.matrix_data, ["R" + str(i) for i in obs], list(samp))),
             ("update_ids-rotated", lambda: t.update_ids(dict(zip(samp, samp[1:] + samp[:1])), axis="sample",
                                                         strict=True, inplace=False))]
    rng.shuffle(cands)
    out = []
    for name, mk in cands[:rng.randint(1, 2)]:
        b = mk()
        out.append((name, b, table_obs(b)))
    return out


def md_writer(f):
    """a user function that WRITES into the metadata mapping it is handed (records something about the vector): the
    annotation belongs to the table whose vectors are transformed — the result — and to no other table"""
    def g(v, i, m):
        r = f(v, i, m)          # the value is computed from the entry as handed over; the notes are added afterwards
        if m is not None:
            m["c13_mark"] = 7
            m["c13_nest"] = {"a": {"n": len(v)}}
        return r
    return g


def marks_of(t):
    """per axis: how many metadata entries carry the writer's marker"""
    out = {}
    for axis in ("observation", "sample"):
        md = t.metadata(axis=axis)
        out[axis] = None if md is None else sum(1 for e in md if "c13_mark" in e or "c13_nest" in e)
    return out


def wrap_fn(f, how):
    """other shapes a user function comes in: partial application, callable object, bound method, a function that
    itself runs transforms on an unrelated table while the outer transform is running"""
    import functools
    if how == "partial":
        return functools.partial(lambda pad, v, i, m: f(v, i, m), "pad")
    if how == "object":
        class Fn(object):
            def __call__(self, v, i, m):
                return f(v, i, m)
        return Fn()
    if how == "method":
        class Holder(object):
            def run(self, v, i, m):
                return f(v, i, m)
        return Holder().run
    if how == "nested":
        from biom import Table

        def g(v, i, m):
            other = Table(np.array([[1.0, 2.0, 0.0], [0.0, 5.0, 7.0]]), ["p", "q"], ["u", "v", "w"])
            other.transform(lambda a, b, c: a * 3, axis="observation", inplace=True)
            other.norm(axis="sample", inplace=True)
            other.rankdata(axis="observation", method="min")
            return f(v, i, m)
        return g
    if how == "generator-list":
        return lambda v, i, m: list(x for x in np.asarray(f(v, i, m), dtype=float))
    return f


def invoke(case, t):
    """run the operation of a table-level case on table `t`; returns (result, fn json builder)"""
    op = case["op"]
    axis, inplace = case["axis"], case["inplace"]
    pos = case.get("call") == "positional"   # the docstring's spelling: t.transform(f, 'observation', False)
    # a flag computed from data is numpy.bool_, one read from a config is 0 / 1: truthiness decides, not identity
    flag = case.get("flag")
    if flag == "np":
        inplace = np.True_ if inplace else np.False_
    elif flag == "int":
        inplace = 1 if inplace else 0
    elif flag == "np-int":
        inplace = np.int64(1) if inplace else np.int64(0)
    if op == "transform":
        f = wrap_fn(py_fn(case["fn"]), case.get("wrap"))
        if case.get("mdwrite"):
            f = md_writer(f)
        if case.get("reenter") is not None:
            allow_nnz = (not inplace) or case["fn"]["name"] in NONZEROING or \
                (case["fn"]["name"] == "scale" and case["fn"]["k"] != "0") or bool(case.get("nnz-probe"))
            f = reentrant(f, t, case["reenter"], allow_nnz, only=["nnz"] if case.get("nnz-probe") else None)
        if pos:
            return t.transform(f, axis, inplace)
        return t.transform(f, axis=axis, inplace=inplace)
    if op == "norm":
        return t.norm(axis, inplace) if pos else t.norm(axis=axis, inplace=inplace)
    if op == "pa":
        return t.pa(inplace) if pos else t.pa(inplace=inplace)
    if op == "rankdata":
        if pos:
            return t.rankdata(axis, inplace, case["method"])
        return t.rankdata(axis=axis, inplace=inplace, method=case["method"])
    raise ValueError(op)


def spy_run(mods, thunk):
    """run thunk() with biom.table._transform replaced by a recording wrapper around mods' kernel"""
    cap = {"calls": 0}
    with kernels.use_kernels(mods):
        import biom.table as T
        real = T._transform

        def spy(arr, ids, md, function, axis):
            if cap.get("depth", 0) > 0:
                # a kernel call made by the user function itself (a transform of some other table): not the call
                # under observation
                cap["nested"] = cap.get("nested", 0) + 1
                return real(arr, ids, md, function, axis)
            cap["calls"] += 1
            cap["cs"] = cs_json(arr)
            cap["fmt"] = arr.getformat()
            cap["axisnum"] = int(axis)
            lg = Logger(function)
            cap["log"] = lg.log
            cap["depth"] = 1
            try:
                return real(arr, ids, md, lg, axis)
            finally:
                cap["depth"] = 0
        T._transform = spy
        res = thunk()
    return res, cap


def rank_rows(segments, method):
    import scipy.stats
    rows, seen = [], set()
    for id_, seg in segments:
        key = (id_, tuple(seg))
        if key in seen:
            continue
        seen.add(key)
        vals = np.array([float(core.unfrac(x)) for x in seg], dtype=float)
        rows.append({"id": id_, "args": list(seg), "ret": [core.frac(x) for x in scipy.stats.rankdata(vals, method=method)]})
    return rows


def vectors_of(tobs, axis):
    rows = tobs["rows"]
    if axis == "observation":
        return list(zip(tobs["obs"], rows))
    return [(s, [rows[i][j] for i in range(len(rows))]) for j, s in enumerate(tobs["samp"])]


def model_fn_and_check(case, before, cap):
    """the fn JSON the model runs, the specific clause to check, extra request fields"""
    op = case["op"]
    extra = {}
    if op == "transform":
        fn = case["fn"]
        check = "elem" if {k: v for k, v in fn.items() if k != "py"} in ELEMENTWISE else "generic"
    elif op == "norm":
        fn, check = {"name": "norm"}, "norm"
        extra["tol"] = TOL
    elif op == "pa":
        fn, check = {"name": "pa"}, "pa"
    else:
        cs = cap["cs"]
        ids = before["obs"] if case["axis"] == "observation" else before["samp"]
        segs = [(ids[i] if i < len(ids) else "?", cs["data"][cs["indptr"][i]:cs["indptr"][i + 1]])
                for i in range(cs["nMajor"])]
        fn = {"name": "table", "rows": rank_rows(segs, case["method"])}
        check = "rank"
        nzv = [("", [x for x in v if x != "0"]) for _, v in vectors_of(before, case["axis"])]
        extra["oracle"] = [{"args": r["args"], "ret": r["ret"]} for r in rank_rows(nzv, case["method"])]
    return fn, check, extra


def check_table(ctx, impls, case, tags=()):
    import biom.err
    mods = impls[case["impl"]]
    keep = {}
    t = build_case_table(case, keep)
    gmd_before = (repr(t.group_metadata("observation")), repr(t.group_metadata("sample")))
    stress = case.get("stress")
    srng = random.Random(stress) if stress is not None else None
    bystanders = []
    if srng is not None:
        # aliasing: tables derived from the receiver stay alive; identity-keyed caches: the accessors are read
        # before the call; layout: a few read-only calls leave the matrix in whatever layout they leave it
        bystanders = make_bystanders(t, srng)
        if srng.random() < 0.5:
            view_tables(t, srng, which=srng.randint(1, 3))
        ctx.count("table:poke=%s" % ",".join(core.poke_layout(t, srng)))
        if srng.random() < 0.7:
            # per-ID reads flip the matrix between CSR and CSC (a NEW matrix object each time); to meet a cache keyed
            # by object identity the last reads before the call must leave the layout the call will work on:
            # read along the axis of the call, then ask the accessors again without changing the layout
            ax_ids = list(t.ids(axis=case["axis"] if case["op"] != "pa" else "sample"))
            rd_axis = case["axis"] if case["op"] != "pa" else "sample"
            t.data(ax_ids[0], axis=rd_axis)
            int(t.nnz)
            for i in ax_ids:
                t.data(i, axis=rd_axis)
            list(t.iter(axis=rd_axis))
            ctx.count("table:settled-before-call")
    before = table_obs(t)
    facts = core.layout_facts(t)
    axis = case["axis"] if case["op"] != "pa" else "sample"
    profile = case.get("profile")
    import warnings
    try:
        with warnings.catch_warnings():
            if case.get("wfilter"):
                warnings.simplefilter(case["wfilter"])
            if profile:
                with biom.err.errstate(empty=profile):
                    res, cap = spy_run(mods, lambda: invoke(case, t))
            else:
                res, cap = spy_run(mods, lambda: invoke(case, t))
    except Exception as e:  # the property promises a result for every table of the domain
        ctx.case(case, nontrivial=True)
        ctx.fail(case, "raised:" + core.err_name(e), tuple(tags) + ("table", "impl=" + case["impl"], "op=" + case["op"],
                                                                    "axis=" + axis), detail={"exc": repr(e)})
        return None
    # by-ID clauses are evaluated on what is read right after the call, before any other accessor
    obs = {"log": cap.get("log", []), "result": table_obs(res), "selfAfter": table_obs(t),
           "sameObj": res is t, "storedZeros": core.layout_facts(res).get("stored_zeros", 0)}
    extra = {}
    if srng is not None:
        nnz_first = int(res.nnz)           # before any accessor replaces the matrix object
        same_axis_first = [core.frac(x) for i in res.ids(axis=axis) for x in res.data(i, axis=axis)]
        extra["viewsResult"] = view_tables(res, srng, which=3)
        extra["nnzResult"] = [nnz_first, int(res.nnz)]
        vecs = vectors_of(obs["result"], axis)
        if same_axis_first != [x for _, v in vecs for x in v]:
            ctx.fail(case, "accessor-data-stale", tuple(tags) + ("table", "stress", "impl=" + case["impl"],
                                                                 "op=" + case["op"], "axis=" + axis))
        if res is not t:
            extra["viewsSelf"] = view_tables(t, srng, which=2)
    r = ask_table(ctx, case, before, axis, case["inplace"], cap, obs, facts, tags, extra)
    if case.get("mdwrite"):
        # what the function wrote into the mappings it was handed sits on the RESULT's entries of the transformed
        # axis (one per ID) and nowhere else: not on the other axis, not on the receiver of a not-in-place call, not
        # on any other live table
        mtags = tuple(tags) + ("table", "md-writer", "impl=" + case["impl"], "op=" + case["op"], "axis=" + axis,
                               "inplace=%s" % case["inplace"])
        other_axis = "sample" if axis == "observation" else "observation"
        mres, mself = marks_of(res), marks_of(t)
        ctx.count("table:md-writer,md-on-axis=%s" % (mres[axis] is not None))
        if mres[axis] is not None and mres[axis] != len(res.ids(axis=axis)):
            ctx.fail(case, "md-write-missing-on-result", mtags, detail={"marks": mres})
        if mres[other_axis]:
            ctx.fail(case, "md-write-on-other-axis", mtags, detail={"marks": mres})
        if res is not t and any(v for v in mself.values() if v):
            ctx.fail(case, "md-write-reached-receiver", mtags, detail={"marks": mself})
        for name, b, _ in list(bystanders) + list(keep.get("siblings", [])):
            if any(v for v in marks_of(b).values() if v):
                ctx.fail(case, "md-write-reached-bystander", mtags + ("bystander=" + name,))
    if case.get("agree"):
        # the same call on an identically built table with the other in-place mode gives the same table (also for
        # order-sensitive functions on unsorted layouts: the copy keeps the storage order)
        twin = build_case_table(case)
        with kernels.use_kernels(mods):
            other = invoke(dict(case, inplace=not case["inplace"], flag=None), twin)
        ctx.count("table:inplace-vs-copy")
        if table_obs(other) != obs["result"]:
            ctx.fail(case, "inplace-vs-copy-differ", tuple(tags) + ("table", "impl=" + case["impl"], "op=" + case["op"],
                                                                    "axis=" + axis),
                     detail={"this": obs["result"], "other": table_obs(other)})
    if keep:
        # the caller's own scipy matrix and the sibling tables built from it belong to somebody else
        ktags = tuple(tags) + ("table", "shared-matrix", "impl=" + case["impl"], "op=" + case["op"], "axis=" + axis,
                               "fmt=" + case["shared"]["fmt"], "dtype=" + case["shared"]["dtype"])
        ctx.count("table:shared=%s/%s" % (case["shared"]["fmt"], case["shared"]["dtype"]))
        if not caller_untouched(*keep["caller"]):
            ctx.fail(case, "caller-matrix-changed", ktags, detail={"before": keep["caller"][1].toarray().tolist(),
                                                                   "after": keep["caller"][0].toarray().tolist()})
        for name, b, b_before in keep["siblings"]:
            if table_obs(b) != b_before or not coherent_lookup(b):
                ctx.fail(case, "bystander-changed", ktags + ("bystander=" + name,),
                         detail={"before": b_before, "after": table_obs(b)})
        if (repr(t.group_metadata("observation")), repr(t.group_metadata("sample"))) != gmd_before:
            ctx.fail(case, "group-metadata-changed", ktags)
    if srng is not None:
        ttags = tuple(tags) + ("table", "stress", "impl=" + case["impl"], "op=" + case["op"], "axis=" + axis)
        for name, b, b_before in bystanders:
            if table_obs(b) != b_before or not coherent_lookup(b):
                ctx.fail(case, "bystander-changed", ttags + ("bystander=" + name,),
                         detail={"before": b_before, "after": table_obs(b)})
        if not coherent_lookup(res) or not coherent_lookup(t):
            ctx.fail(case, "lookup-incoherent", ttags)
        if res is not t:
            # the other direction: changing the RESULT in place must not reach the receiver
            keep = table_obs(t)
            res.transform(lambda v, i, m: v * 2, axis=srng.choice(["sample", "observation"]), inplace=True)
            res.pa(inplace=True)
            if table_obs(t) != keep:
                ctx.fail(case, "result-aliases-receiver", ttags, detail={"before": keep, "after": table_obs(t)})
    return r


def check_refused(ctx, impls, case, tags=()):
    """calls that must be refused leave the receiver (and live derived tables) unchanged and coherent"""
    from biom.exception import UnknownAxisError
    mods = impls[case["impl"]]
    t = build_case_table(case)
    srng = random.Random(case.get("stress", 0))
    bystanders = make_bystanders(t, srng)
    before = table_obs(t)
    kind = case["refuse"]
    calls = []

    def counting(v, i, m):
        calls.append(str(i))
        return v
    want = {"bad-axis-transform": UnknownAxisError, "bad-axis-norm": UnknownAxisError,
            "bad-axis-rankdata": UnknownAxisError, "bad-method": ValueError, "short-return-copy": ValueError}[kind]
    raised = None
    try:
        with kernels.use_kernels(mods):
            if kind == "bad-axis-transform":
                t.transform(counting, axis=case["axis"], inplace=case["inplace"])
            elif kind == "bad-axis-norm":
                t.norm(axis=case["axis"], inplace=case["inplace"])
            elif kind == "bad-axis-rankdata":
                t.rankdata(axis=case["axis"], inplace=case["inplace"])
            elif kind == "bad-method":
                t.rankdata(axis=case["axis"], inplace=case["inplace"], method="no-such-method")
            else:
                t.transform(lambda v, i, m: v[:-1] if len(v) > 2 else v, axis=case["axis"], inplace=False)
    except Exception as e:
        raised = e
    ctx.case(case, nontrivial=True)
    ctx.count("refused:%s" % kind)
    ttags = tuple(tags) + ("refused", "impl=" + case["impl"], "kind=" + kind)
    has_long = any(sum(1 for x in v if x != "0") > 2 for _, v in vectors_of(before, case["axis"])) \
        if case["axis"] in ("sample", "observation") else False
    if kind == "short-return-copy" and not has_long:
        # no vector with three non-zero values (numpy broadcasts a single value): the call is legitimate
        if raised is not None:
            ctx.fail(case, "raised:" + core.err_name(raised), ttags, detail={"exc": repr(raised)})
    elif raised is None:
        ctx.fail(case, "not-refused", ttags)
    elif not isinstance(raised, want):
        ctx.fail(case, "refused-with:" + type(raised).__name__, ttags, detail={"exc": repr(raised)})
    if kind.startswith("bad-axis") and calls:
        ctx.fail(case, "function-called-before-refusal", ttags, detail={"calls": calls})
    if table_obs(t) != before or not coherent_lookup(t):
        ctx.fail(case, "refused-call-changed-receiver", ttags, detail={"before": before, "after": table_obs(t)})
    for name, b, b_before in bystanders:
        if table_obs(b) != b_before or not coherent_lookup(b):
            ctx.fail(case, "bystander-changed", ttags + ("bystander=" + name,))
    return None


def ask_table(ctx, case, before, axis, inplace, cap, obs, facts, tags, more=None):
    tags = tuple(tags) + ("table", "impl=" + case["impl"], "op=" + case["op"], "axis=" + axis,
                          "route=" + str(case.get("route")), "hist=" + str(case.get("hist")),
                          "values=" + str(case.get("wild") or "ordinary"))
    ctx.case(case, nontrivial=nnz_of(before["rows"]) >= 2 and asym(before["rows"]))
    ctx.count("table:%s" % case["impl"])
    ctx.count("table:op=%s" % (case["op"] + (":" + case["method"] if case["op"] == "rankdata" else "")))
    ctx.count("table:axis=%s,inplace=%s" % (axis, inplace))
    ctx.count("table:values=%s" % (case.get("wild") or "ordinary"))
    ctx.count("table:hist=%s" % case.get("hist"))
    ctx.count("table:layout-in=%s%s" % (facts.get("format"), "" if facts.get("sorted", True) else "-unsorted"))
    if cap["calls"] != 1:
        ctx.fail(case, "kernel-called-once", tags, detail={"calls": cap["calls"]})
        return None
    want_fmt = "csr" if axis == "observation" else "csc"
    ctx.count("table:kernel-got=%s%s" % (cap["fmt"], "(own arrays)" if facts.get("format") == cap["fmt"] else "(converted)"))
    fn, check, extra = model_fn_and_check(case, before, cap)
    if "fn" in case and case["op"] == "transform":
        ctx.count("table:fn=%s" % case["fn"]["name"])
    req = dict({"op": "transform", "t": before, "axis": axis, "inplace": inplace, "fn": fn, "cs": cap["cs"],
                "check": check, "obs": obs, "layout": cap["fmt"], "axisnum": cap["axisnum"],
                "wantLayout": want_fmt}, **extra)
    req.update(more or {})
    if case.get("stress") is not None:
        ctx.count("table:stress")
    if case.get("profile"):
        ctx.count("table:profile=%s" % case["profile"])
    if case.get("call"):
        ctx.count("table:call=%s" % case["call"])
    if case.get("mdmode"):
        ctx.count("table:md=%s" % case["mdmode"])
    if case.get("wrap"):
        ctx.count("table:wrap=%s" % case["wrap"])
    if case.get("flag"):
        ctx.count("table:flag=%s,inplace=%s" % (case["flag"], inplace))
    if case.get("wfilter"):
        ctx.count("table:warnings=%s" % case["wfilter"])
    if case.get("ids"):
        ctx.count("table:ids=%s" % case["ids"])
    if case.get("reenter") is not None:
        ctx.count("table:reentrant,inplace=%s" % inplace)
        tags = tags + ("reentrant",)
    if case.get("nnz-probe"):
        tags = tags + ("reentrant=nnz", "fn-zeroes", "inplace-own-arrays")
    r = ctx.driver.ask(req)
    if case.get("nnz-probe") and not r["holds"] and ctx.match_known(r["clause"], tags) is None:
        # candidate finding reported to the lead (not in known_findings.json yet): `Table.nnz` compacts the matrix the
        # kernel is walking when the function has already written a zero; recorded, not raised, until classified
        ctx.count("finding-candidate:reentrant-nnz-after-zeroing-inplace:reproduced(%s)" % r["clause"])
        return r
    if case.get("nnz-probe") and r["holds"]:
        ctx.count("finding-candidate:reentrant-nnz-after-zeroing-inplace:not-reproduced")
    if not r["holds"]:
        ctx.fail(case, r["clause"], tags, detail={"obs": obs, "cs": cap["cs"], "model": r["model"]})
    elif not r["contract"]:
        ctx.diverge(case, "the kernel was handed a matrix outside the theorems' layout contract", tags,
                    detail={"cs": cap["cs"], "layout": cap["fmt"], "axisnum": cap["axisnum"]})
    elif not r["agree"]:
        ctx.diverge(case, "observation differs from the model's", tags,
                    detail={"obs": obs, "cs": cap["cs"], "model": r["model"]})
    return r


def check_axisfree(ctx, impls, case, tags=()):
    """element-wise function: the same table whichever axis it is applied along, in place or not"""
    mods = impls[case["impl"]]
    results = []
    t0 = build_case_table(case)
    before = table_obs(t0)
    shared_f = py_fn(case["fn"])   # ONE function object serves all four calls
    with kernels.use_kernels(mods):
        for axis in ("sample", "observation"):
            for inplace in (True, False):
                t = build_case_table(case)
                if case["fn"]["name"] == "pa" and axis == "sample":
                    res = t.pa(inplace=inplace)
                else:
                    res = t.transform(shared_f, axis=axis, inplace=inplace)
                results.append(table_obs(res))
    ctx.case(case, nontrivial=nnz_of(before["rows"]) >= 2 and asym(before["rows"]))
    ctx.count("axisfree:%s" % case["impl"])
    r = ctx.driver.ask({"op": "axisfree", "t": before, "fn": case["fn"], "results": results})
    tags = tuple(tags) + ("axisfree", "impl=" + case["impl"], "fn=" + case["fn"]["name"])
    if not r["holds"]:
        ctx.fail(case, r["clause"], tags, detail={"results": results})
    elif not r["agree"]:
        ctx.diverge(case, "element-wise result differs from the cell-wise model", tags, detail={"results": results})
    return r


def check_cli(ctx, impls, case, tags=()):
    """`biom normalize-table` in-process on a file; the spy sees the kernel call made by the command"""
    from click.testing import CliRunner
    import biom.cli
    from biom.cli.table_normalizer import normalize_table
    from biom import load_table
    from biom.util import biom_open
    mods = impls[case["impl"]]
    os.makedirs(TMP, exist_ok=True)
    inp, out = os.path.join(TMP, "in.biom"), os.path.join(TMP, "out.biom")
    if case.get("samepath") and not case.get("refuse"):
        out = inp
    try:
        t = core.build(case["spec"], case["route"])
        if case["fmt"] == "json":
            with open(inp, "w") as fh:
                fh.write(t.to_json("c13"))
        else:
            with biom_open(inp, "w") as fh:
                t.to_hdf5(fh, "c13")
        loaded = load_table(inp)
        before = table_obs(loaded)
        facts = core.layout_facts(loaded)
        spell = case.get("spell")
        if spell == "long":
            args = ["--input-fp", inp, "--output-fp", out,
                    "--relative-abund" if case["op"] == "norm" else "--presence-absence", "--axis", case["axis"]]
        elif spell == "default-axis":   # -a left out: the sample axis
            args = ["-o", out, "-r" if case["op"] == "norm" else "-p", "-i", inp]
        else:
            args = ["-i", inp, "-o", out, "-r" if case["op"] == "norm" else "-p", "-a", case["axis"]]
        if case.get("refuse") == "both":
            args = ["-i", inp, "-o", out, "-r", "-p", "-a", case["axis"]]
        elif case.get("refuse") == "neither":
            args = ["-i", inp, "-o", out, "-a", case["axis"]]
        elif case.get("refuse") == "bad-axis":
            args = ["-i", inp, "-o", out, "-r", "-a", "whole"]
        in_bytes = open(inp, "rb").read()
        # the sub-command object is invoked directly: the GROUP's on-close hook re-opens fd 1 and, inside
        # CliRunner's isolation, ends up closing the process's real stdout; fd 1 is protected as well
        saved_fd = os.dup(1)
        try:
            res, cap = spy_run(mods, lambda: CliRunner().invoke(normalize_table, args))
        finally:
            os.dup2(saved_fd, 1)
            os.close(saved_fd)
        if out != inp and open(inp, "rb").read() != in_bytes:
            ctx.fail(case, "cli-input-file-changed", tuple(tags) + ("cli", "impl=" + case["impl"]))
        if case.get("refuse"):
            ctx.case(case, nontrivial=True)
            ctx.count("cli:refused:%s" % case["refuse"])
            if res.exit_code == 0:
                ctx.fail(case, "cli-not-refused", tuple(tags) + ("cli", "refuse=" + case["refuse"]),
                         detail={"output": str(res.output)[-300:]})
            if os.path.exists(out):
                ctx.fail(case, "cli-refused-but-wrote-output", tuple(tags) + ("cli", "refuse=" + case["refuse"]))
            if cap["calls"] != 0:
                ctx.fail(case, "cli-refused-but-transformed", tuple(tags) + ("cli", "refuse=" + case["refuse"]))
            return None
        if res.exit_code != 0:
            ctx.fail(case, "cli-exit", tuple(tags) + ("cli",), detail={"output": str(res.output)[-500:], "exc": repr(res.exception)})
            ctx.case(case, nontrivial=True)
            return None
        result = load_table(out)
        robs = table_obs(result)
        api = table_obs(invoke(dict(case, inplace=False), loaded))
    finally:
        shutil.rmtree(TMP, ignore_errors=True)
    axis = case["axis"] if case["op"] == "norm" else "sample"
    obs = {"log": cap.get("log", []), "result": robs, "selfAfter": robs, "sameObj": True,
           "storedZeros": core.layout_facts(result).get("stored_zeros", 0)}
    ctx.count("cli:%s:%s:%s" % (case["op"], case["fmt"], case.get("spell") or "short"))
    r = ask_table(ctx, case, before, axis, True, cap, obs, facts, tuple(tags) + ("cli",))
    if robs != api:
        ctx.fail(case, "cli-equals-api", tuple(tags) + ("cli", "impl=" + case["impl"]), detail={"cli": robs, "api": api})
    return r


# ----------------------------------------------------------------------------- generation
def gen_table_spec(rng, nonneg=False, big=False, wild=None):
    classes = ("count", "smallcount", "dyadic") if nonneg else ("count", "smallcount", "dyadic", "neg")
    hi = 8 if big else 6
    # the property's domain is the C01 domain: 1..N observations x 1..M samples (tables with an empty axis are
    # C05's subject: their matrix is 0x0 whatever the IDs say, and per-ID operations refuse to answer)
    spec = core.gen_spec(rng, max_n=hi, max_m=hi + 1, min_n=1, min_m=1, classes=classes,
                         density=rng.choice([0.2, 0.4, 0.6, 0.8, 1.0]))
    if wild:
        pool = NORM_WILD if wild == "norm" else WILD
        rows = spec["rows"]
        for r in rows:
            for j, x in enumerate(r):
                if x != 0 and rng.random() < 0.4:
                    r[j] = rng.choice(pool) * (-1.0 if (not nonneg and wild != "norm" and rng.random() < 0.15) else 1.0)
        # a vector whose total exceeds 1e8 and that also holds a singleton (on a row and on a column)
        n, m = len(rows), len(rows[0])
        if m >= 2:
            i = rng.randrange(n)
            a, b = rng.sample(range(m), 2)
            rows[i][a], rows[i][b] = rng.choice([1e8 + 1, 2.5e8, 3e9, 1e12]), 1.0
        if n >= 2:
            j = rng.randrange(m)
            a, b = rng.sample(range(n), 2)
            rows[a][j], rows[b][j] = rng.choice([1e8 + 1, 2.5e8, 3e9, 1e12]), 1.0
    return spec


def decimalise(rng, spec, axis):
    """relative abundances as they come out of a text export: every vector of `axis` holds decimal fractions (6-9
    places, not dyadic) whose total is a chosen number up to rounding — exactly-ish 1, within 1e-5 / 1e-9 of 1 without
    being 1, or far from 1"""
    rows = [list(r) for r in spec["rows"]]
    n, m = len(rows), len(rows[0])
    for j in range(m if axis == "sample" else n):
        cells = [(i, j) for i in range(n) if rows[i][j]] if axis == "sample" else \
            [(j, i) for i in range(m) if rows[j][i]]
        if not cells:
            continue
        w = [rng.randint(1, 50) for _ in cells]
        total = float(sum(w))
        T = rng.choice([1 - 3e-6, 1 + 2e-6, 0.99999, 1.00001, 1.0, 1 - 1e-9, 0.999, 0.5, 100.0, 1e-5])
        d = rng.choice([6, 6, 7, 9])
        for (a, b), wi in zip(cells, w):
            rows[a][b] = max(round(wi / total * T, d), 10.0 ** -d)
    return dict(spec, rows=rows)


def gen_wild_case(rng, impl):
    """tiny / huge magnitudes: only operations whose float result is exact (pa, ranks, value-carrying transforms),
    norm on the subset that stays within its tolerance, and norm -> X chains"""
    op = rng.choice(["pa", "pa", "rankdata", "transform", "norm"])
    chain = op != "norm" and rng.random() < 0.45
    kind = "norm" if (op == "norm" or chain) else "all"
    case = {"level": "table", "impl": impl, "op": op, "wild": kind,
            "spec": gen_table_spec(rng, nonneg=(kind == "norm"), wild=kind), "route": rng.choice(core.ROUTES),
            "hist": rng.choice(["norm-sample", "norm-observation"]) if chain else rng.choice(HISTS),
            "axis": rng.choice(["sample", "observation"]), "inplace": rng.choice([True, False])}
    if op == "transform":
        case["fn"] = rng.choice(CARRIERS)
    if op == "rankdata":
        case["method"] = rng.choice(RANK_METHODS)
    if op == "norm" and rng.random() < 0.4:
        # whole table scaled by a power of two into the subnormal range / towards overflow: totals are subnormal
        # (their reciprocal is not a float) or huge, yet every quotient is an ordinary number and sums stay exact
        scale = rng.choice([2.0 ** -1074, 2.0 ** -1062, 2.0 ** -1030, 2.0 ** 1000])
        spec = gen_table_spec(rng, nonneg=True)
        spec["rows"] = [[(max(1.0, float(round(x))) * scale if x else 0.0) for x in r] for r in spec["rows"]]
        case["spec"], case["wild"], case["hist"] = spec, "scaled", rng.choice(HISTS[:5])
    elif op == "norm" and rng.random() < 0.6:
        case["spec"] = decimalise(rng, gen_table_spec(rng, nonneg=True), case["axis"])
        case["wild"], case["hist"] = "decimal", rng.choice(HISTS[:5])
    return case


def gen_table_case(rng, impl, op=None):
    op = op or rng.choice(["transform", "transform", "transform", "norm", "pa", "rankdata", "rankdata"])
    case = {"level": "table", "impl": impl, "op": op, "spec": gen_table_spec(rng, nonneg=(op == "norm")),
            "route": rng.choice(core.ROUTES), "hist": rng.choice(HISTS),
            "axis": rng.choice(["sample", "observation"]), "inplace": rng.choice([True, False])}
    if op == "transform":
        case["fn"] = rng.choice(ELEMENTWISE + VECTORWISE + VECTORWISE)
    if op == "rankdata":
        case["method"] = rng.choice(RANK_METHODS)
    return case


def tricky_ids(rng, spec):
    """IDs live in fixed-width arrays: one ID of an axis gets a trailing blank / newline, becomes much longer than
    all others, or gets non-ASCII text whose UTF-8 length exceeds its character count"""
    spec = dict(spec)
    key = rng.choice(["obs", "samp"])
    ids = list(spec[key])
    k = rng.randrange(len(ids))
    how = rng.choice(["blank", "newline", "long", "utf8", "prefix", "nfc-nfd", "nasty", "nasty", "across-axes"])
    if how == "nfc-nfd" and len(ids) >= 2:
        # canonically equivalent spellings are DISTINCT IDs
        a, b = core.twin_ids(rng, 1)
        j = (k + 1) % len(ids)
        ids[k], ids[j] = a, b
    elif how == "nasty":
        ids[k] = rng.choice(core.NASTY_TEXTS)
    elif how == "across-axes":
        other = spec["samp" if key == "obs" else "obs"]
        ids[k] = rng.choice(list(other))      # the same text names a vector on each axis
    elif how == "blank":
        ids[k] = ids[k] + " "
    elif how == "newline":
        ids[k] = ids[k] + "\n"
    elif how == "long":
        ids[k] = ids[k] + "_" + "L" * 70
    elif how == "utf8":
        ids[k] = ids[k] + "é日本µ" * 6
    elif how == "prefix":
        ids[k] = ids[(k + 1) % len(ids)] + "x"   # an extension of a neighbour's ID
    if len(set(ids)) == len(ids):
        spec[key] = ids
    return spec, how


def decorate(rng, case):
    """the stressors of the hardening pass, drawn independently for every table-level case"""
    if rng.random() < 0.3:
        case["stress"] = rng.randrange(1 << 30)   # bystanders, pre-reads, layout poke, accessor views
    if rng.random() < 0.15:
        case["profile"] = rng.choice(["raise", "warn", "call"])
    if rng.random() < 0.15:
        case["call"] = "positional"
    if case["op"] == "transform" and case["fn"]["name"] == "scale" and rng.random() < 0.5:
        case["fn"] = dict(case["fn"], py=rng.choice(["inplace", "list", "tuple"]))
    if rng.random() < 0.2:
        case["spec"], how = tricky_ids(rng, case["spec"])
        case["ids"] = how
    ordinary = "wild" not in case
    key = "omd" if case["axis"] == "observation" else "smd"
    ids = case["spec"]["obs" if case["axis"] == "observation" else "samp"]
    uses_args = False
    if case["op"] == "transform" and ordinary and rng.random() < 0.35:
        case["fn"] = rng.choice(ARGUSERS)   # the value depends on the ID text / on md[key]
        uses_args = True
    if uses_args or rng.random() < 0.1:
        mode = rng.choice(["hetero", "hetero", "addmd", "addmd-on-none", "as-generated"])
        if mode == "hetero":
            case["spec"] = dict(case["spec"], **{key: hetero_md(rng, ids)})
            if rng.random() < 0.3:
                other = "smd" if key == "omd" else "omd"
                case["spec"][other] = hetero_md(rng, case["spec"]["samp" if other == "smd" else "obs"])
        elif mode.startswith("addmd"):
            if mode == "addmd-on-none":
                case["spec"] = dict(case["spec"], **{key: None})
            some = [i for i in ids if rng.random() < 0.5] or [ids[0]]
            case["addmd"] = {"axis": case["axis"],
                             "md": {i: rng.choice([{"factor": rng.randint(0, 4)}, {"factor": 2, "grp": "z"},
                                                   {"depth": rng.randint(1, 3)}]) for i in some}}
        case["mdmode"] = mode
    if case["op"] == "transform" and rng.random() < 0.3:
        case["reenter"] = rng.randrange(1 << 30)   # the function reads the receiver while the transform runs
    if rng.random() < 0.2:
        # built directly from a matrix the caller keeps, next to sibling tables built from the same object
        case["shared"] = {"fmt": rng.choice(SHARED_FMTS), "dtype": "float64" if not ordinary else rng.choice(SHARED_DTYPES),
                          "sibling": rng.choice(["before", "after", "both", None])}
        case["route"] = "shared"
        if rng.random() < 0.6:
            case["hist"] = rng.choice([None, "csr-transform"])   # stay in the layout the constructor leaves
    if case["op"] == "transform" and rng.random() < 0.2:
        case["wrap"] = rng.choice(["partial", "object", "method", "nested", "generator-list"])
    if rng.random() < 0.1:
        case["wfilter"] = rng.choice(["ignore", "always", "error"])
    if rng.random() < 0.3:
        case["flag"] = rng.choice(["np", "int", "np-int"])   # numpy.False_/True_, 0/1 instead of False/True
    if case["op"] == "transform" and rng.random() < 0.25:
        case["mdwrite"] = True
        if case["spec"].get(key) is None and not case.get("addmd") and rng.random() < 0.8:
            case["spec"] = dict(case["spec"], **{key: hetero_md(rng, ids)})
    if case["op"] == "transform" and "stress" not in case and rng.random() < 0.2:
        case["agree"] = True
    return case


def gen_refused_case(rng, impl):
    kind = rng.choice(["bad-axis-transform", "bad-axis-norm", "bad-axis-rankdata", "bad-method", "short-return-copy"])
    case = {"level": "refused", "impl": impl, "refuse": kind, "spec": gen_table_spec(rng, nonneg=True),
            "route": rng.choice(core.ROUTES), "hist": rng.choice(HISTS), "inplace": rng.choice([True, False]),
            "stress": rng.randrange(1 << 30)}
    if kind.startswith("bad-axis"):
        case["axis"] = rng.choice(["samples", "Sample", "whole", "obs", "", "observation ", "0"])
    else:
        case["axis"] = rng.choice(["sample", "observation"])
    return case


FIXED_SPEC = {"obs": ["o1", "o2"], "samp": ["s1", "s2", "s3"], "rows": [[3.0, 0.0, 5.0], [0.0, 2.0, 0.0]],
              "omd": None, "smd": None, "type": None}


def fixed_corpus(impl_names):
    """the repaired defect first: sparse input with an explicitly stored zero + rankdata (the zero cell
    must stay 0); then the same through the stored-zeros route, norm/pa on it, a tie-heavy vector"""
    out = []
    for impl in impl_names:
        for fmt, indptr, indices, data in (
                ("csr", [0, 3, 4], [0, 1, 2, 1], ["3", "0", "5", "2"]),
                ("csc", [0, 2, 3, 4], [0, 1, 1, 0], ["3", "0", "2", "5"])):
            for axis in ("observation", "sample"):
                for method in RANK_METHODS:
                    for inplace in (True, False):
                        out.append({"level": "table", "impl": impl, "op": "rankdata", "spec": FIXED_SPEC, "route": None,
                                    "sparse": {"fmt": fmt, "shape": [2, 3], "indptr": indptr, "indices": indices,
                                               "data": data},
                                    "axis": axis, "inplace": inplace, "method": method})
        ties = {"obs": ["a", "b", "c", "d"], "samp": ["x", "y", "z"],
                "rows": [[5.0, 0.0, 5.0], [5.0, 2.0, 0.0], [1.0, 2.0, 0.0], [0.0, 2.0, 7.0]],
                "omd": [{"k": 1}, {"k": 2}, {"k": 3}, {"k": 4}], "smd": None, "type": "OTU table"}
        for route in ("csr_zeros", "csr_unsorted", "csc"):
            for axis in ("observation", "sample"):
                for method in RANK_METHODS:
                    out.append({"level": "table", "impl": impl, "op": "rankdata", "spec": ties, "route": route,
                                "axis": axis, "inplace": True, "method": method})
                out.append({"level": "table", "impl": impl, "op": "norm", "spec": ties, "route": route, "axis": axis,
                            "inplace": False})
                out.append({"level": "table", "impl": impl, "op": "pa", "spec": ties, "route": route, "axis": axis,
                            "inplace": True})
        # magnitudes around and far below numpy.isclose's absolute tolerance: non-zero is non-zero (pa must write 1,
        # ranks must be positive), directly and after a normalisation of vectors totalling more than 1e8
        tiny = {"obs": ["a", "b", "c"], "samp": ["x", "y", "z", "w"],
                "rows": [[1.33e-9, 0.0, 5.0, 1e-8], [9.9e-9, 2.0, 0.0, 0.0], [5e-324, 1e-300, 1e-12, -1.33e-9]],
                "omd": None, "smd": [{"k": 1}, {"k": 2}, {"k": 3}, {"k": 4}], "type": None}
        chain = {"obs": ["a", "b", "c"], "samp": ["x", "y", "z"],
                 "rows": [[3e8, 1.0, 0.0], [0.0, 2.5e8, 1.0], [1.0, 0.0, 7.0]], "omd": None, "smd": None, "type": None}
        for inplace in (True, False):
            for axis in ("sample", "observation"):
                for spec, hists in ((tiny, (None, "csc-transform")), (chain, ("norm-sample", "norm-observation"))):
                    for hist in hists:
                        base = {"level": "table", "impl": impl, "spec": spec, "route": "dense", "hist": hist,
                                "axis": axis, "inplace": inplace, "wild": "fixed"}
                        out.append(dict(base, op="pa"))
                        out.append(dict(base, op="rankdata", method="average"))
                        out.append(dict(base, op="transform", fn={"name": "reverse"}))
                out.append({"level": "table", "impl": impl, "op": "norm", "spec": chain, "route": "csc", "hist": None,
                            "axis": axis, "inplace": inplace, "wild": "fixed"})
        # the function uses its metadata argument (a key held by one entry only, via ctor and via add_metadata) and
        # reads the table it is transforming along the other axis (spike-in scaling / blank subtraction)
        sq = {"obs": ["SPIKE", "O2", "O3"], "samp": ["S1", "S2", "BLANK"], "rows": [[5.0, 0.0, 2.0], [0.0, 3.0, 4.0],
              [1.0, 6.0, 0.0]], "omd": None, "smd": None, "type": None}
        for axis in ("sample", "observation"):
            ids = sq["samp"] if axis == "sample" else sq["obs"]
            key = "smd" if axis == "sample" else "omd"
            for inplace in (True, False):
                base = {"level": "table", "impl": impl, "op": "transform", "route": "dense", "axis": axis,
                        "inplace": inplace}
                out.append(dict(base, spec=sq, hist=None, fn={"name": "byMdKey", "key": "factor"},
                                addmd={"axis": axis, "md": {ids[1]: {"factor": 4}}}))
                out.append(dict(base, spec=dict(sq, **{key: [{}, {"factor": 4}, None]}), hist="csc-transform",
                                fn={"name": "byMdKey", "key": "factor"}))
                for hist in (None, "csc-transform"):
                    for k, fn in enumerate(({"name": "scale", "k": "2"}, {"name": "zeroOdd"}, {"name": "reverse"})):
                        out.append(dict(base, spec=sq, hist=hist, fn=fn, reenter=1000 + k))
            # candidate finding: nnz read inside an in-place transform after the function has written a zero
            out.append({"level": "table", "impl": impl, "op": "transform", "route": "dense", "axis": axis,
                        "inplace": True, "spec": sq, "hist": "csc-transform" if axis == "sample" else None,
                        "fn": {"name": "zeroOdd"}, "reenter": 7, "nnz-probe": True})
        # kernel level: a stored zero is handed to the function (NoStoredZeros is needed below the API)
        out.append({"level": "kernel", "impl": impl, "axisnum": 0, "nMajor": 2, "nMinor": 3, "indptr": [0, 3, 4],
                    "indices": [0, 1, 2, 1], "data": ["3", "0", "5", "2"], "ids": ["a", "b"], "mds": None,
                    "fn": {"name": "addOne"}})
        out.append({"level": "kernel", "impl": impl, "axisnum": 1, "nMajor": 2, "nMinor": 3, "indptr": [0, 3, 4],
                    "indices": [2, 0, 1, 1], "data": ["3", "0", "5", "2"], "ids": ["a", "b"],
                    "mds": [{"k": "v"}, {}], "fn": {"name": "dropLast"}})
    return out


def dispatch(ctx, impls, case, tags=()):
    if case["impl"] not in impls:
        ctx.notes.append("implementation %s unavailable, case skipped" % case["impl"])
        return None
    lvl = case["level"]
    fn = {"kernel": check_kernel, "table": check_table, "axisfree": check_axisfree, "cli": check_cli,
          "refused": check_refused}[lvl]
    try:
        return fn(ctx, impls, case, tags)
    except RuntimeError:
        raise  # driver trouble is infrastructure, not an observation
    except Exception as e:
        # the real code raised outside the places where an exception is an expected observation (e.g. while the
        # prior history — itself a transform — was applied): the property promises a result for every table
        ctx.case(case, nontrivial=True)
        ctx.fail(case, "raised:" + core.err_name(e), tuple(tags) + (lvl, "impl=" + case["impl"]),
                 detail={"exc": repr(e)})
        return None


def load_impls(ctx):
    impls = {}
    for name, mods in kernels.kernel_impls():
        if mods is None:
            ctx.fail({"impl": name}, "pyx-render", ("impl=" + name,), kind="diverge")
            continue
        impls[name] = mods
    return impls


def run(ctx):
    impls = load_impls(ctx)
    names = list(impls)
    rng = ctx.rng
    ctx.rule = ("kernel: random flat compressed arrays (0-5 vectors x 0-6 minor positions, indices sorted or not, "
                "stored zeros or not, metadata or none) x named function x both kernel implementations; "
                "table: core.gen_spec tables up to 6x7 (8x9 thorough) x every core.build route x axis x inplace x "
                "{element-wise, vector-wise, norm, pa, 5 rank methods} x both implementations; axis-free: element-wise "
                "function along both axes, in place or not; cli: normalize-table on JSON/HDF5 files; every third table case "
                "draws tiny/huge magnitudes (5e-324 .. 1e300, totals above 1e8 with a singleton) under exact operations "
                "and norm -> X chains; stressors per case: live derived tables, accessor pre-reads and post-views, layout "
                "pokes, tricky ID text, positional calls, mutating/list-returning functions, error profiles, 64+ ID axes; "
                "refused calls. non-trivial = "
                "kernel: at least one vector and two stored values; table: at least two non-zero cells and a grid "
                "that is not its own transpose. distinct = distinct case content")
    ctx.trusted = ["scipy tocsr/tocsc/eliminate_zeros and scipy.stats.rankdata are external: the matrix handed to the "
                   "kernel is recorded and the theorems' layout contract is checked on it; ranks are an input function",
                   "harness/kernels.py rendering of the .pyx files as the second kernel implementation"]
    ctx.assumptions = ["float rounding is not modelled: values are small integers / dyadic fractions whose products and "
                       "sums are exact; norm is compared with the exact rational within 2^-40 relative"]
    for case in fixed_corpus(names):
        dispatch(ctx, impls, case, ("fixed-corpus",))
    quick = ctx.quick()
    nw = max(1, getattr(ctx, "worker", (0, 1))[1])  # thorough totals are split over the worker processes
    n_kernel = 700 if quick else 64000 // nw
    n_table = 950 if quick else 76000 // nw
    n_axis = 100 if quick else 6000 // nw
    n_cli = 20 if quick else 800 // nw
    # systematic kernel sweep: every named function x stored zeros x index order, on both implementations
    for impl in names:
        for fn in ELEMENTWISE + VECTORWISE + KERNEL_ONLY:
            for zeros in (False, True):
                for sort in (False, True):
                    dispatch(ctx, impls, gen_kernel_case(rng, impl, fn, zeros, sort), ("systematic",))
    for _ in range(n_kernel):
        for impl in names:
            dispatch(ctx, impls, gen_kernel_case(rng, impl))
    # systematic table sweep: every route x axis x op on one asymmetric table per implementation
    for impl in names:
        for route in core.ROUTES + ["dense+csc-transform", "csr_unsorted+csc-filter", "coo+csr-transform"]:
            route, _, hist = route.partition("+")
            for axis in ("sample", "observation"):
                spec = gen_table_spec(rng, nonneg=True)
                ops = [("norm", {}), ("pa", {})] + [("rankdata", {"method": m}) for m in RANK_METHODS] + \
                      [("transform", {"fn": f}) for f in (ELEMENTWISE[0], ELEMENTWISE[6], ELEMENTWISE[7]) + tuple(VECTORWISE)]
                for op, kw in ops:
                    dispatch(ctx, impls, dict({"level": "table", "impl": impl, "op": op, "spec": spec,
                                                  "route": route, "hist": hist or None, "axis": axis,
                                                  "inplace": rng.choice([True, False])}, **kw), ("systematic",))
    # size thresholds: a few tables with 64+ IDs on the transformed or on the other axis; every op along both axes,
    # in place or not, mostly in the layout the call works on (own arrays), so that size-gated shortcuts show
    for k in range(2 if quick else 8):
        wide_axis = rng.choice(["sample", "observation"])
        spec = core.wide_spec(rng, axis=wide_axis, classes=("count", "smallcount", "dyadic"), md=rng.random() < 0.5,
                              n_axis=rng.choice([520, 600]) if k == 1 else None, other=2 if k == 1 else None)
        for axis in ("sample", "observation"):
            for inplace in (True, False):
                for op, kw in (("pa", {}), ("norm", {}), ("rankdata", {"method": rng.choice(RANK_METHODS)}),
                               ("transform", {"fn": rng.choice(VECTORWISE + ELEMENTWISE[6:8])})):
                    if k == 1 and op == "norm" and axis != wide_axis:
                        continue   # the proportionality clause is quadratic in the vector length (500+ here)
                    own = rng.random() < 0.7
                    case = {"level": "table", "op": op, "spec": spec, "route": rng.choice(core.ROUTES),
                            "hist": ("csc-transform" if axis == "sample" else "csr-transform") if own
                            else rng.choice(HISTS[:5]),
                            "axis": axis, "inplace": inplace, "wide": wide_axis}
                    case.update(kw)
                    if rng.random() < (0.4 if k != 1 else 0.1):
                        case["stress"] = rng.randrange(1 << 30)
                    if ctx.mine(k):
                        for impl in names:
                            dispatch(ctx, impls, dict(case, impl=impl), ("wide",))
    for k in range(40 if quick else 1600 // nw):
        case = gen_refused_case(rng, names[0])
        for impl in names:
            dispatch(ctx, impls, dict(case, impl=impl))
    for k in range(n_table):
        case = gen_wild_case(rng, names[0]) if k % 3 == 2 else gen_table_case(rng, names[0])
        decorate(rng, case)
        if not quick and "wild" not in case and rng.random() < 0.2:
            case["spec"] = gen_table_spec(rng, nonneg=(case["op"] == "norm"), big=True)
        for impl in names:
            dispatch(ctx, impls, dict(case, impl=impl))
    for _ in range(n_axis):
        if rng.random() < 0.4:
            case = {"level": "axisfree", "spec": gen_table_spec(rng, wild="all"), "route": rng.choice(core.ROUTES),
                    "hist": rng.choice(HISTS), "wild": "all",
                    "fn": rng.choice([{"name": "pa"}, {"name": "pa"}] + [f for f in CARRIERS if f in ELEMENTWISE])}
        else:
            case = {"level": "axisfree", "spec": gen_table_spec(rng), "route": rng.choice(core.ROUTES),
                    "hist": rng.choice(HISTS), "fn": rng.choice(ELEMENTWISE + [{"name": "pa"}])}
        for impl in names:
            dispatch(ctx, impls, dict(case, impl=impl))
    for k in range(n_cli):
        case = {"level": "cli", "op": rng.choice(["norm", "pa"]),
                "spec": gen_table_spec(rng, nonneg=True, wild="norm" if k % 2 else None),
                "route": rng.choice(core.ROUTES), "axis": rng.choice(["sample", "observation"]),
                "fmt": rng.choice(["json", "hdf5"]), "inplace": True}
        case["spell"] = rng.choice([None, "long", "default-axis"])
        if case["spell"] == "default-axis":
            case["axis"] = "sample"
        if case["op"] == "norm" and k % 4 == 1:
            case["spec"] = decimalise(rng, gen_table_spec(rng, nonneg=True), case["axis"])
        if k % 3 == 0:
            case["samepath"] = True    # -o names the input file
        if k % 5 == 4:
            case["refuse"] = rng.choice(["both", "neither", "bad-axis"])
        for impl in names:
            dispatch(ctx, impls, dict(case, impl=impl))
    shutil.rmtree(TMP, ignore_errors=True)


def replay(ctx, rec):
    impls = load_impls(ctx)
    dispatch(ctx, impls, rec["case"], ("replay",))
    shutil.rmtree(TMP, ignore_errors=True)
