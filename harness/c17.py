"""C17 — all accepted construction inputs agree; malformed input is always rejected.

Every case is a JSON description from which BOTH the Python input of the real code and the request
to the Lean driver are built (so a replay file rebuilds the exact input).  The driver decides with
its own decidable predicate whether the payload is an accepted encoding of the grid, evaluates the
property's predicate on what the real constructor / importer returned, and runs the model on the
same payload.
"""
import copy
import io
import itertools
import os
from fractions import Fraction

from . import core

SCRATCH = "/tmp/C17"
LAYOUTS = ["csr", "csc", "coo", "lil", "dok", "bsr"]


# ----------------------------------------------------------------------------- python side
def fl(x):
    """payload number (int or "p/q" text) -> python float"""
    return float(Fraction(x)) if isinstance(x, str) else float(x)


def num(x, dtype):
    v = fl(x)
    if dtype == "int":
        return int(v)
    if dtype == "bool":
        return bool(v)
    return v


def np_dtype(dtype):
    import numpy as np
    return {"int": np.int64, "bool": np.bool_, "int32": np.int32, "float32": np.float32}.get(dtype, np.float64)


def build_sparse(p):
    """scipy matrix of a given layout/variant with the dense content p['rows']"""
    import numpy as np
    import scipy.sparse as sp
    n, m = p["nR"], p["nC"]
    dt = np_dtype(p.get("dtype", "float"))
    arr = np.array([[fl(v) for v in r] for r in p["rows"]], dtype=float).reshape(n, m).astype(dt)
    layout = p.get("layout", "csr")
    variant = p.get("variant", "plain")
    ctor = getattr(sp, layout + "_matrix")
    if variant == "plain":
        return ctor(arr)
    if variant == "unsorted":
        # entries of every major vector stored in reverse order
        mat = sp.csr_matrix(arr) if layout == "csr" else sp.csc_matrix(arr)
        for i in range(len(mat.indptr) - 1):
            s, e = mat.indptr[i], mat.indptr[i + 1]
            mat.indices[s:e] = mat.indices[s:e][::-1].copy()
            mat.data[s:e] = mat.data[s:e][::-1].copy()
        mat.has_sorted_indices = False
        return mat
    if variant in ("zeros", "dups"):
        rows, cols, vals = [], [], []
        for i in range(n):
            for j in range(m):
                v = arr[i, j]
                if variant == "dups" and v != 0:
                    rows += [i, i]; cols += [j, j]; vals += [v - 0.5, 0.5]
                elif v != 0 or (i + 2 * j) % 3 != 1:
                    rows.append(i); cols.append(j); vals.append(v)
        coo = sp.coo_matrix((np.array(vals, dtype=float if variant == "dups" else dt),
                             (np.array(rows, dtype=int), np.array(cols, dtype=int))), shape=(n, m))
        if layout == "coo":
            # reversed storage order as well
            coo = sp.coo_matrix((coo.data[::-1].copy(), (coo.row[::-1].copy(), coo.col[::-1].copy())), shape=(n, m))
            return coo
        if layout == "csr":
            return sp.csr_matrix((coo.data, (coo.row, coo.col)), shape=(n, m)) if variant == "dups" else \
                _stored_zero_compressed(arr, "csr")
        if layout == "csc":
            return _stored_zero_compressed(arr, "csc")
        return ctor(coo)
    raise ValueError(variant)


def _stored_zero_compressed(arr, layout):
    """csr/csc holding an explicit zero wherever (i+2j)%3 != 1"""
    import numpy as np
    import scipy.sparse as sp
    a = arr if layout == "csr" else arr.T
    indptr, indices, data = [0], [], []
    for i in range(a.shape[0]):
        for j in range(a.shape[1]):
            ii, jj = (i, j) if layout == "csr" else (j, i)
            if a[i, j] != 0 or (ii + 2 * jj) % 3 != 1:
                indices.append(j); data.append(a[i, j])
        indptr.append(len(indices))
    cls = sp.csr_matrix if layout == "csr" else sp.csc_matrix
    shape = arr.shape
    return cls((np.array(data, dtype=arr.dtype), np.array(indices, dtype=np.int32), np.array(indptr, dtype=np.int32)),
               shape=shape)


def materialise(d):
    """payload -> the Python object handed to Table(...)"""
    import numpy as np
    form = d["form"]
    dt = d.get("dtype", "float")
    if form == "vec":
        return np.array([num(v, dt) for v in d["v"]], dtype=np_dtype(dt))
    if form == "arr":
        return np.array([[num(v, dt) for v in r] for r in d["rows"]], dtype=np_dtype(dt)).reshape(d["nR"], d["nC"])
    if form == "emptyList":
        return []
    if form == "listArr":
        dts = d.get("row_dtypes") or [dt] * len(d["rows"])
        return [np.array([num(v, rd) for v in r], dtype=np_dtype(rd)) for r, rd in zip(d["rows"], dts)]
    if form == "listList":
        if d.get("triples"):
            return [[int(fl(r[0])), int(fl(r[1])), num(r[2], dt)] if len(r) == 3 else [num(v, dt) for v in r]
                    for r in d["ls"]]
        return [[num(v, dt) for v in r] for r in d["ls"]]
    if form == "dict":
        return {(e[0], e[1]): num(e[2], dt) for e in d["d"]}
    if form == "listDict":
        return [{(e[0], e[1]): num(e[2], dt) for e in dd} for dd in d["ds"]]
    if form == "listSparse":
        return [build_sparse(mm) for mm in d["ms"]]
    if form == "sparse":
        return build_sparse(d)
    if form == "unknown":
        return {"tuples": [(0, 0, 1.0)], "str": "abc", "int": 7, "set": {1, 2}}[d.get("py", "tuples")]
    raise ValueError(form)


def lean_data(d):
    """strip the python-only hints"""
    keep = {"form", "v", "nR", "nC", "rows", "ds", "ms", "d", "ls"}
    out = {k: v for k, v in d.items() if k in keep}
    if d["form"] == "listSparse":
        out["ms"] = [{k: v for k, v in mm.items() if k in ("nR", "nC", "rows")} for mm in d["ms"]]
    return out


def lean_md(md):
    if md is None:
        return None
    return [core.canon_md_entry(e) if isinstance(e, dict) else e for e in md]


def observe(f):
    from biom import Table
    try:
        t = f()
    except Exception as e:  # noqa
        return None, {"error": core.err_name(e)}
    if not isinstance(t, Table):
        return None, {"error": "Other"}
    try:
        return t, {"ok": core.table_obs(t)}
    except Exception as e:  # noqa
        # a produced table that cannot even be read exactly (non-finite cell, broken matrix): no usable table
        return None, {"error": "Unobservable:" + type(e).__name__}


def build_args(inp, variant=None):
    """the Python objects of one constructor call; `variant` picks how IDs / metadata / keywords are passed"""
    import numpy as np
    v = variant or {}
    data = materialise(inp["data"])
    obs, samp = list(inp["obs"]), list(inp["samp"])
    how = v.get("ids", "list")
    if how == "tuple":
        obs, samp = tuple(obs), tuple(samp)
    elif how == "ndarray":
        obs, samp = np.array(obs, dtype=str), np.array(samp, dtype=str)
    elif how == "object":
        obs, samp = np.array(obs, dtype=object), np.array(samp, dtype=object)
    omd, smd = copy.deepcopy(inp.get("omd")), copy.deepcopy(inp.get("smd"))
    if v.get("md") == "tuple":
        omd = None if omd is None else tuple(omd)
        smd = None if smd is None else tuple(smd)
    elif v.get("md") == "ndarray":
        def as_obj(md):
            if md is None:
                return None
            a = np.empty(len(md), dtype=object)
            for i, e in enumerate(md):
                a[i] = e
            return a
        omd, smd = as_obj(omd), as_obj(smd)
    if v.get("share"):
        # ONE mutable object handed over for both axes where the two arguments are equal anyway
        if list(inp["obs"]) == list(inp["samp"]):
            samp = obs
        if inp.get("omd") is not None and inp.get("omd") == inp.get("smd"):
            smd = omd
    # flags that are truthy / falsy without being True / False
    flag = {"np": (np.True_, np.False_), "int": (1, 0)}.get(v.get("flag"), (True, False))
    kw = {}
    if inp.get("dense"):
        kw["input_is_dense"] = flag[0]
    elif v.get("dense_false"):
        kw["input_is_dense"] = flag[1]
    if v.get("kw"):
        gmd = None if v["kw"] == 1 else {"tree": ("newick", "(a:0.1,b:0.2);")}
        kw.update(table_id="tid-%s" % v["kw"], type=None, create_date="2020-01-02T03:04:05",
                  generated_by="verif", observation_group_metadata=gmd, sample_group_metadata=gmd, validate=flag[0])
    return {"data": data, "obs": obs, "samp": samp, "omd": omd, "smd": smd, "kw": kw, "md_kw": bool(v.get("md_kw")),
            "all_kw": bool(v.get("all_kw"))}


def values_of(x):
    """value-level snapshot of an argument (dense content of matrices; stored layout is not a value)"""
    import numpy as np
    import scipy.sparse as sp
    if sp.issparse(x):
        return ["sp", list(x.shape), x.toarray().tolist()]
    if isinstance(x, np.ndarray):
        return ["nd", list(x.shape), x.tolist()]
    if isinstance(x, dict):
        return {repr(k): values_of(v) for k, v in x.items()}
    if isinstance(x, (list, tuple)):
        return [values_of(e) for e in x]
    return x


def args_values(args):
    return values_of([args["data"], args["obs"], args["samp"], args["omd"], args["smd"]])


class profile_ctx:
    """run a call under a non-default error profile; warnings and printed messages are swallowed"""

    def __init__(self, profile):
        self.profile = profile

    def __enter__(self):
        if not self.profile:
            return self
        import warnings
        import biom.err as E
        self.E = E
        self.cm = E.errstate(**{k: r for k, r in self.profile})   # explicit kinds; `all` is expanded by the caller
        self.cm.__enter__()
        self.w = warnings.catch_warnings()
        self.w.__enter__()
        warnings.simplefilter("ignore")
        self.old = E.stdout
        E.stdout = io.StringIO()
        return self

    def __exit__(self, *exc):
        if not self.profile:
            return False
        self.E.stdout = self.old
        self.w.__exit__(*exc)
        self.cm.__exit__(None, None, None)
        return False


def call_table(args):
    from biom import Table
    if args.get("all_kw"):
        return Table(data=args["data"], sample_ids=args["samp"], observation_ids=args["obs"],
                     sample_metadata=args["smd"], observation_metadata=args["omd"], **args["kw"])
    if args["md_kw"]:
        return Table(args["data"], args["obs"], args["samp"], observation_metadata=args["omd"],
                     sample_metadata=args["smd"], **args["kw"])
    return Table(args["data"], args["obs"], args["samp"], args["omd"], args["smd"], **args["kw"])


def construct_real(inp, variant=None):
    """returns (table or None, observation, caller's values untouched?)"""
    args = build_args(inp, variant)
    before = args_values(args)
    with profile_ctx((variant or {}).get("profile")):
        t, res = observe(lambda: call_table(args))
    return t, res, args_values(args) == before


def describe(inp):
    d = inp["data"]
    s = d["form"]
    if d["form"] == "sparse":
        s += ":" + d.get("layout", "csr") + ":" + d.get("variant", "plain")
    if d["form"] == "listList":
        s += ":dense" if inp.get("dense") else ":triples"
    if d.get("dtype", "float") != "float":
        s += ":" + d["dtype"]
    if "sub" in d:
        s += ":" + d["sub"]
    return s


def nontrivial_grid(grid):
    return len(grid) * len(grid[0] if grid else []) >= 2 and any(v not in (0, "0") for r in grid for v in r)


def run_construct(ctx, case, tags=(), table_out=None):
    """one constructor call: real code, predicate, model"""
    inp = case["input"]
    variant = case.get("variant")
    ctx.journal(case)
    t, res, kept = construct_real(inp, variant)
    if table_out is not None:
        table_out.append(t)
    req = {"op": "construct", "grid": case["grid"], "n": case["n"], "m": case["m"], "result": res,
           "input_kept": kept, "profile": (variant or {}).get("profile") or [],
           "input": {"data": lean_data(inp["data"]), "obs": inp["obs"], "samp": inp["samp"],
                     "omd": lean_md(inp.get("omd")), "smd": lean_md(inp.get("smd")), "dense": bool(inp.get("dense"))}}
    ctx.case({k: case.get(k) for k in ("op", "input", "grid", "variant")}, nontrivial=nontrivial_grid(case["grid"]))
    r = ctx.driver.ask(req)
    tags = list(tags) + list(case.get("tags", [])) + [describe(inp)]
    if variant:
        tags += ["%s=%s" % (k, v) for k, v in sorted(variant.items()) if v]
        for k, v in variant.items():
            if v:
                ctx.count("variant:%s=%s" % (k, "on" if k in ("profile", "kw") else v))
    outcome = "table" if "ok" in res else res["error"]
    ctx.count("construct:%s" % ("accepted" if outcome == "table" else outcome))
    if r["clause"] == "not-an-encoding":
        ctx.diverge(case, "harness produced a payload the Lean predicate does not accept as an encoding", tags)
        return r
    if not r["model_holds"]:
        ctx.diverge(case, "theorem model_holds contradicted by the driver", tags, detail={"model": r["model"]})
    if not r["holds"]:
        ctx.fail(case, r["clause"], tags, detail={"real": res, "model": r["model"]})
    elif not r["agree"]:
        ctx.diverge(case, "constructor result differs from the model", tags, detail={"real": res, "model": r["model"]})
    return r


INPLACE_OPS = ["transform_obs", "transform_samp", "norm_obs", "norm_samp", "pa", "update_ids_obs", "update_ids_samp",
               "add_md_obs", "add_md_samp", "filter_obs", "filter_samp"]


def apply_inplace(t, op):
    """an in-place operation of the public API on table `t`"""
    def halve(v, i, m):
        return v / 2.0
    if op == "transform_obs":
        t.transform(halve, axis="observation", inplace=True)
    elif op == "transform_samp":
        t.transform(halve, axis="sample", inplace=True)
    elif op == "norm_obs":
        t.norm(axis="observation", inplace=True)
    elif op == "norm_samp":
        t.norm(axis="sample", inplace=True)
    elif op == "pa":
        t.pa(inplace=True)
    elif op in ("update_ids_obs", "update_ids_samp"):
        ax = "observation" if op.endswith("obs") else "sample"
        t.update_ids({i: str(i) + "_renamed_to_a_much_longer_identifier" for i in t.ids(axis=ax)}, axis=ax, inplace=True)
    elif op in ("add_md_obs", "add_md_samp"):
        ax = "observation" if op.endswith("obs") else "sample"
        t.add_metadata({i: {"added": "x", "grp": "overwritten"} for i in t.ids(axis=ax)}, axis=ax)
    elif op in ("filter_obs", "filter_samp"):
        ax = "observation" if op.endswith("obs") else "sample"
        t.filter([t.ids(axis=ax)[0]], axis=ax, inplace=True)
    else:
        raise ValueError(op)


def look(t, obs, samp, what):
    """one look at a table: by position (IDs, matrix) and cell by cell through its own ID lookups"""
    try:
        st = {"what": what, "table": core.table_obs(t)}
    except Exception:  # noqa
        # unreadable (e.g. a non-finite cell): shown as a table that holds nothing of what was described
        return {"what": what + ":unobservable", "table": {"obs": [], "samp": [], "rows": [], "omd": None, "smd": None,
                                                          "type": None}, "byid": None}
    try:
        st["byid"] = [[core.frac(t.get_value_by_ids(o, s)) for s in samp] for o in obs]
    except Exception:  # noqa
        st["byid"] = None
    return st


def run_independent(ctx, case, tags=()):
    """two tables from ONE set of argument objects; in-place operations on the first must leave the second (and
    the caller's values) as they were.  What the caller does to its own objects afterwards is only counted."""
    inp = case["input"]
    variant = case.get("variant")
    rng = __import__("random").Random(case.get("rseed", 0))
    ctx.journal(case)
    args = build_args(inp, variant)
    before = args_values(args)
    try:
        t1 = call_table(args)
        t2 = call_table(args)
    except Exception as e:  # noqa
        ctx.case({k: case.get(k) for k in ("op", "input", "grid", "variant", "ops")}, nontrivial=True)
        ctx.fail(case, "forms_accept", list(tags) + [describe(inp), core.err_name(e)])
        return
    stages = [look(t2, inp["obs"], inp["samp"], "after-construction")]
    kept = [args_values(args) == before]
    for op in case["ops"]:
        core.poke_layout(t1, rng)
        try:
            apply_inplace(t1, op)
            what = "sibling-inplace:" + op
        except Exception as e:  # noqa
            what = "sibling-inplace-raised:%s:%s" % (op, core.err_name(e))
        stages.append(look(t2, inp["obs"], inp["samp"], what))
        kept.append(args_values(args) == before)
        ctx.count("independent:" + what.split(":")[0] + ":" + op)
        core.poke_layout(t2, rng)
    req = {"op": "independent", "grid": case["grid"], "stages": stages, "input_kept": kept,
           "input": {"data": lean_data(inp["data"]), "obs": inp["obs"], "samp": inp["samp"],
                     "omd": lean_md(inp.get("omd")), "smd": lean_md(inp.get("smd")), "dense": bool(inp.get("dense"))}}
    ctx.case({k: case.get(k) for k in ("op", "input", "grid", "variant", "ops")}, nontrivial=nontrivial_grid(case["grid"]))
    r = ctx.driver.ask(req)
    tags = list(tags) + [describe(inp)] + list(case["ops"])
    if not r["model_holds"]:
        ctx.diverge(case, "theorem independent_model contradicted by the driver", tags)
    if not r["holds"]:
        bad = [st["what"] for st in stages]
        ctx.fail(case, r["clause"], tags, detail={"stages": bad, "input_kept": kept, "last": stages[-1]})
    elif not r["agree"]:
        ctx.diverge(case, "a later look at the table differs from the model", tags, detail={"model": r["model"]})
    # outside the property (counted only): the caller overwrites its own objects after the construction
    overwrite_after(ctx, args, t2, inp)


def overwrite_after(ctx, args, t, inp):
    import numpy as np
    import scipy.sparse as sp
    want = core.table_obs(t)
    d = args["data"]
    try:
        if isinstance(d, np.ndarray):
            d[...] = 7
        elif sp.issparse(d) and hasattr(d, "data") and isinstance(d.data, np.ndarray) and d.data.dtype != object:
            d.data[...] = 7
        elif isinstance(d, list) and d and isinstance(d[0], list) and d[0]:
            d[0][-1] = 7
        elif isinstance(d, dict) and d:
            d[next(iter(d))] = 7
        for ids in (args["obs"], args["samp"]):
            if isinstance(ids, np.ndarray) and len(ids):
                ids[0] = "zz"
        for md in (args["omd"], args["smd"]):
            if isinstance(md, list) and md and isinstance(md[0], dict):
                md[0]["grp"] = "changed by the caller"
    except Exception:  # noqa
        return
    now = core.table_obs(t)
    ctx.count("caller-overwrites-afterwards:table-%s" % ("unchanged" if now == want else "follows-the-caller"))


def run_decode(ctx, case, tags=()):
    """inputs outside the property's domain (empty ID lists, out-of-range coordinates, ragged input,
    unknown types): only the model/code agreement is checked"""
    inp = case["input"]
    variant = case.get("variant")
    ctx.journal(case)
    t, res, kept = construct_real(inp, variant)
    req = {"op": "decode", "result": res, "profile": (variant or {}).get("profile") or [],
           "input": {"data": lean_data(inp["data"]), "obs": inp["obs"], "samp": inp["samp"],
                     "omd": lean_md(inp.get("omd")), "smd": lean_md(inp.get("smd")), "dense": bool(inp.get("dense"))}}
    ctx.case({k: case.get(k) for k in ("op", "input", "variant")}, nontrivial=False)
    r = ctx.driver.ask(req)
    ctx.count("decode:%s" % ("table" if "ok" in res else res["error"]))
    if not kept:
        ctx.fail(case, "input_untouched", list(tags) + [describe(inp)], detail={"real": res})
    if not r["agree"]:
        ctx.diverge(case, "constructor result differs from the model (outside the property's domain)",
                    list(tags) + [describe(inp)], detail={"real": res, "model": r["model"]})
    return r


# ----------------------------------------------------------------------------- encodings of a grid
def split_value(rng, v):
    """v as a sum of 1..3 parts that add exactly in binary64 (v is a small dyadic)"""
    k = rng.choice([1, 1, 2, 3])
    parts = []
    rest = Fraction(v)
    for _ in range(k - 1):
        p = Fraction(rng.randint(-8, 8), rng.choice([1, 2, 4]))
        parts.append(p)
        rest -= p
    parts.append(rest)
    return parts


def gen_triples(rng, G, exact):
    """coordinate triples of the Fraction grid G: duplicates that add up, explicit zeros, any order"""
    ts = []
    for i, row in enumerate(G):
        for j, v in enumerate(row):
            if v != 0:
                for p in (split_value(rng, v) if exact else [v]):
                    ts.append([i, j, p])
            elif rng.random() < 0.3:
                if exact and rng.random() < 0.4:
                    p = Fraction(rng.randint(1, 5), rng.choice([1, 2]))
                    ts += [[i, j, p], [i, j, -p]]
                else:
                    ts.append([i, j, Fraction(0)])
    rng.shuffle(ts)
    return ts


def gen_dict(rng, G):
    es = []
    for i, row in enumerate(G):
        for j, v in enumerate(row):
            if v != 0 or rng.random() < 0.3:
                es.append([i, j, v])
    rng.shuffle(es)
    return es


def fr(v):
    return core.frac(v)


def payload_rows(G):
    return [[fr(v) for v in r] for r in G]


def encodings(rng, G, exact, full=True):
    """list of (data payload, dense flag) describing the Fraction grid G (n,m >= 1)"""
    n, m = len(G), len(G[0])
    rows = payload_rows(G)
    integral = all(v.denominator == 1 and abs(v) < 2 ** 40 for r in G for v in r)
    boolean = all(v in (0, 1) for r in G for v in r)
    out = []
    out.append(({"form": "arr", "nR": n, "nC": m, "rows": rows}, False))
    if all(v == 0 for r in G for v in r):
        out.append(({"form": "emptyList"}, False))   # no entries at all: the all-zero grid
    if integral:
        out.append(({"form": "arr", "nR": n, "nC": m, "rows": rows, "dtype": "int"}, False))
        out.append(({"form": "listList", "ls": rows, "dtype": "int"}, True))
        out.append(({"form": "listArr", "rows": rows, "dtype": "int"}, False))
    if boolean:
        out.append(({"form": "arr", "nR": n, "nC": m, "rows": rows, "dtype": "bool"}, False))
        out.append(({"form": "listArr", "rows": rows, "dtype": "bool"}, False))
        out.append(({"form": "sparse", "nR": n, "nC": m, "rows": rows, "layout": "csr", "dtype": "bool"}, False))
        out.append(({"form": "listList", "ls": rows, "dtype": "bool"}, True))
    if n == 1:
        out.append(({"form": "vec", "v": rows[0]}, False))
    out.append(({"form": "listArr", "rows": rows}, False))
    out.append(({"form": "listList", "ls": rows}, True))
    ts = gen_triples(rng, G, exact)
    if ts:
        out.append(({"form": "listList", "triples": True, "ls": [[t[0], t[1], fr(t[2])] for t in ts]}, False))
        if integral:
            ts2 = gen_triples(rng, G, exact and all(abs(v) < 2 ** 20 for r in G for v in r))
            if ts2 and all(t[2].denominator == 1 for t in ts2):
                out.append(({"form": "listList", "triples": True, "dtype": "int",
                             "ls": [[t[0], t[1], fr(t[2])] for t in ts2]}, False))
    out.append(({"form": "dict", "d": [[e[0], e[1], fr(e[2])] for e in gen_dict(rng, G)]}, False))
    # row dictionaries {(0, j): v}; some dictionary must name the last column
    ds = []
    for i in range(n):
        ds.append([[0, j, fr(G[i][j])] for j in range(m) if G[i][j] != 0 or rng.random() < 0.3])
    if not any(e[1] == m - 1 for d in ds for e in d):
        ds[rng.randrange(n)].append([0, m - 1, "0"])
    for d in ds:
        rng.shuffle(d)
    out.append(({"form": "listDict", "ds": ds, "sub": "rows"}, False))
    if n >= 2:
        ds = []
        for j in range(m):
            ds.append([[i, 0, fr(G[i][j])] for i in range(n) if G[i][j] != 0 or rng.random() < 0.3])
        if not any(e[0] == n - 1 for d in ds for e in d):
            ds[rng.randrange(m)].append([n - 1, 0, "0"])
        for d in ds:
            rng.shuffle(d)
        out.append(({"form": "listDict", "ds": ds, "sub": "cols"}, False))
    # lists whose elements differ in layout / dtype: whatever the code learns from element 0 (the dispatch, a fast
    # path guard) need not hold for the others.  dok first is left out: dok_matrix is a dict subclass, so such a
    # list is dispatched as a list of dicts (heterogeneous lists are outside the domain)
    def row_dtype(i, r):
        ok_int = all(v.denominator == 1 and abs(v) < 2 ** 40 for v in G[i])
        ok_bool = all(v in (0, 1) for v in G[i])
        c = [None] + (["int", "int32"] if ok_int else []) + (["bool"] if ok_bool else []) + \
            (["float32"] if all(abs(v) < 2 ** 20 and v.denominator in (1, 2, 4) for v in G[i]) else [])
        return rng.choice(c)

    def sparse_row(i, layout):
        e = {"nR": 1, "nC": m, "rows": [rows[i]], "layout": layout}
        dtp = row_dtype(i, rows[i])
        if dtp and rng.random() < 0.4:
            e["dtype"] = dtp
        return e
    first = rng.choice(["csr", "csc", "coo", "lil", "bsr"])
    out.append(({"form": "listSparse", "sub": "rows",
                 "ms": [sparse_row(i, first if i == 0 else rng.choice(LAYOUTS)) for i in range(n)]}, False))
    if n >= 2:
        # every layout takes the first place in turn, each later row has a different one
        k = rng.randrange(5)
        firsts = ["csr", "csc", "coo", "lil", "bsr"]
        for f in ([firsts[k], "csr"] if full else [rng.choice([firsts[k], "csr"])]):
            others = [l for l in LAYOUTS if l != f]
            off = rng.randrange(len(others))
            out.append(({"form": "listSparse", "sub": "rows-mixed",
                         "ms": [sparse_row(i, f if i == 0 else others[(i + off) % len(others)]) for i in range(n)]}, False))
        cut = sorted(rng.sample(range(1, n), rng.randint(1, min(2, n - 1))))
        blocks = [rows[a:b] for a, b in zip([0] + cut, cut + [n])]
        bl = rng.sample(["csr", "csc", "coo", "lil", "bsr"], min(len(blocks), 5))
        out.append(({"form": "listSparse", "sub": "blocks",
                     "ms": [{"nR": len(b), "nC": m, "rows": b, "layout": bl[i % len(bl)]}
                            for i, b in enumerate(blocks)]}, False))
        rd = [row_dtype(i, rows[i]) or "float" for i in range(n)]
        if len(set(rd)) > 1:
            out.append(({"form": "listArr", "rows": rows, "row_dtypes": rd, "sub": "mixed-dtypes"}, False))
    # scipy layouts
    variants = [(lay, "plain") for lay in LAYOUTS] + [("csr", "unsorted"), ("csc", "unsorted"),
                                                       ("csr", "zeros"), ("csc", "zeros"), ("coo", "zeros"),
                                                       ("lil", "zeros"), ("dok", "zeros"), ("bsr", "zeros")]
    if exact:
        variants += [("coo", "dups"), ("csr", "dups")]
    if not full:
        variants = rng.sample(variants, 5)
    for lay, var in variants:
        out.append(({"form": "sparse", "nR": n, "nC": m, "rows": rows, "layout": lay, "variant": var}, False))
    if integral and full:
        out.append(({"form": "sparse", "nR": n, "nC": m, "rows": rows, "layout": "csc", "dtype": "int32"}, False))
    return out


def gen_fraction_grid(rng, n, m, classes, density=None):
    g = core.gen_grid(rng, n, m, density, classes)
    return [[Fraction(v) for v in r] for r in g]


MD_KEYS = ["grp", "na/me", "depth"]


def gen_good_md(rng, k):
    """None, or one mapping-or-None per ID"""
    c = rng.random()
    if c < 0.35:
        return None
    if c < 0.45:
        return [None] * k
    if c < 0.55:
        return [{} for _ in range(k)]
    if c < 0.62:
        return [rng.choice([None, {}]) for _ in range(k)]
    md = []
    for i in range(k):
        if rng.random() < 0.2:
            md.append(rng.choice([None, {}]))
        else:
            md.append({"grp": rng.choice("abc"), "depth": rng.randint(0, 5)} if rng.random() < 0.7 else
                      {"taxonomy": ["k__A", "p__%s" % rng.choice("xyz")]})
    return md


NON_MAPPINGS = ["q", "", [1], [], 0, 3.5, ["a", "b"], False]


def corrupt_md(rng, k, how):
    """metadata that is NOT one mapping-or-null per ID (k = number of IDs, k >= 1)"""
    if how == "short":
        kk = rng.randint(0, k - 1)
    elif how == "long":
        kk = k + rng.randint(1, 2)
    else:
        kk = k
    style = rng.choice(["dicts", "none", "empty", "mixed"])
    md = []
    for i in range(kk):
        if style == "dicts":
            md.append({"grp": "a"})
        elif style == "none":
            md.append(None)
        elif style == "empty":
            md.append({})
        else:
            md.append(rng.choice([None, {}, {"grp": "b"}]))
    if how == "nonmap":
        bad = rng.choice(NON_MAPPINGS)
        pos = rng.sample(range(kk), rng.randint(1, kk))
        falsy_all = rng.random() < 0.3
        for p in pos:
            md[p] = copy.deepcopy(bad)
        if falsy_all:
            md = [copy.deepcopy(rng.choice(["", [], 0, None, {}])) for _ in range(kk)]
            md[rng.randrange(kk)] = copy.deepcopy(rng.choice(["", [], 0, False]))
    return md


def corrupt_ids(rng, ids, how, prefix):
    ids = list(ids)
    if how == "dup":
        if len(ids) < 2:
            return ids + [ids[0]], True   # also changes the count
        i, j = rng.sample(range(len(ids)), 2)
        ids[j] = ids[i]
        if rng.random() < 0.3 and len(ids) > 2:
            k = rng.choice([x for x in range(len(ids)) if x not in (i, j)])
            ids[k] = ids[i]
        return ids, False
    if how == "few":
        drop = rng.randint(1, min(2, len(ids)))
        for _ in range(drop):
            ids.pop(rng.randrange(len(ids)))
        return ids, True
    if how == "many":
        for k in range(rng.randint(1, 2)):
            ids.insert(rng.randrange(len(ids) + 1), "%sextra%d" % (prefix, k))
        return ids, True
    raise ValueError(how)


# ----------------------------------------------------------------------------- adjacency
def adj_text(v):
    f = Fraction(v)
    if f.denominator == 1:
        return str(f.numerator)
    return repr(float(f))


def run_adjacency(ctx, case, tags=()):
    from biom import Table
    lines = case["lines"]
    mode = case.get("mode", "list")
    if mode == "list":
        arg = list(lines)
    elif mode == "list_nl":
        arg = [l + "\n" for l in lines]
    elif mode == "tuple":
        arg = tuple(lines)
    elif mode == "str":
        arg = "\n".join(lines)
    elif mode == "str_nl":
        arg = "\n".join(lines) + "\n"
    else:
        arg = io.StringIO("\n".join(lines) + "\n")
    t, res = observe(lambda: Table.from_adjacency(arg))
    req_lines = []
    for l in lines:
        f = l.split("\t")
        numv = None
        if len(f) >= 3:
            try:
                numv = core.frac(float(f[2]))
            except ValueError:
                numv = None
        req_lines.append({"f": f, "num": numv})
    ctx.case({"op": "adjacency", "lines": lines, "mode": mode}, nontrivial=len(lines) >= 2)
    r = ctx.driver.ask({"op": "adjacency", "lines": req_lines, "result": res})
    ctx.count("adjacency:%s" % ("table" if "ok" in res else res["error"]))
    _verdict(ctx, case, r, res, tags)
    return r


def _verdict(ctx, case, r, res, tags):
    if not r["model_holds"]:
        ctx.diverge(case, "theorem contradicted by the driver (predicate false on the model's own result)", tags,
                    detail={"model": r["model"]})
    if not r["holds"]:
        ctx.fail(case, r["clause"], tags, detail={"real": res, "model": r["model"]})
    elif not r["agree"]:
        ctx.diverge(case, "result differs from the model", tags, detail={"real": res, "model": r["model"]})


def gen_adjacency(rng, odd, wide=False):
    obs_pool = ["a", "b", "c", "d", "B", "aa"] + (["é1", "o 1", "x/y", "日本", "Z", "10", "2", "a ", "a.", "A", "#a",
                                                    "e\u0301", "a" * 30, "caf\u00e9", "cafe\u0301", "50%", "%(id)s",
                                                    "\"quoted\" start", "{brace}", "back\\slash", "s1"] if odd else [])
    samp_pool = ["s1", "s2", "s3", "S1", "s10"] + (["µ", "t|u", "s 2", "#s", "s1 ", " s1", "s", "s1" * 12] if odd else [])
    no = rng.randint(1, 4)
    ns = rng.randint(1, 4)
    obs = rng.sample(obs_pool, no)
    samp = rng.sample(samp_pool, ns)
    k = rng.randint(1, 10)
    if wide:
        # many distinct names on one axis, listed in no particular order
        obs = ["o%d" % i for i in range(rng.choice([64, 70, 100]))]
        rng.shuffle(obs)
        k = len(obs) + rng.randint(0, 20)
    lines = []
    for _ in range(k):
        c = rng.random()
        if c < 0.15:
            v = Fraction(0)
        elif c < 0.6:
            v = Fraction(rng.randint(1, 9))
        elif c < 0.8:
            v = Fraction(rng.randint(-20, 20), rng.choice([2, 4, 8]))
        else:
            v = Fraction(-rng.randint(1, 5))
        o = obs[len(lines)] if wide and len(lines) < len(obs) else rng.choice(obs)
        lines.append("%s\t%s\t%s" % (o, rng.choice(samp), adj_text(v)))
    if rng.random() < 0.5:
        lines.insert(0, "#OTU ID\tSampleID\tvalue")
    return lines


def corrupt_adjacency(rng, lines):
    lines = list(lines)
    how = rng.choice(["comment", "fields2", "fields4", "nonnum", "header_only", "empty", "bad_first", "header_twice"])
    if how == "comment":
        lines.insert(rng.randrange(len(lines) + 1), "# a comment line")
    elif how == "fields2":
        lines.insert(rng.randrange(len(lines) + 1), "a\ts1")
    elif how == "fields4":
        lines.insert(rng.randrange(len(lines) + 1), "a\ts1\t1\textra")
    elif how == "nonnum":
        lines.insert(rng.randrange(len(lines) + 1), "a\ts1\tmany")
    elif how == "header_only":
        lines = ["#OTU ID\tSampleID\tvalue"]
    elif how == "empty":
        lines = []
    elif how == "bad_first":
        lines.insert(0, "#OTU\tSample\tcount")
    elif how == "header_twice":
        lines = ["#OTU ID\tSampleID\tvalue", "#OTU ID\tSampleID\tvalue"] + [l for l in lines if not l.startswith("#OTU ID")]
    return lines, how


# ----------------------------------------------------------------------------- uc
def uc_fields(line):
    s = line.strip()
    return s.split("\t") if s else []


def run_uc(ctx, case, tags=(), cli=False):
    from biom.parse import parse_uc
    from biom.cli.uc_processor import _from_uc
    text = "".join(l + "\n" for l in case["lines"])
    fasta = case.get("fasta")
    ftext = None if fasta is None else "".join(l + "\n" for l in fasta)
    if cli:
        t, res = observe(lambda: uc_cli(text, ftext))
    elif fasta is None and case.get("api", "parse_uc") == "parse_uc":
        src = io.StringIO(text) if case.get("src", "handle") == "handle" else [l + "\n" for l in case["lines"]]
        t, res = observe(lambda: parse_uc(src))
    else:
        t, res = observe(lambda: _from_uc(io.StringIO(text), None if ftext is None else io.StringIO(ftext)))
    req = {"op": "uc", "lines": [uc_fields(l) for l in case["lines"]], "fasta": fasta, "result": res}
    ctx.case({"op": "uc", "lines": case["lines"], "fasta": fasta, "cli": cli}, nontrivial=len(case["lines"]) >= 2)
    r = ctx.driver.ask(req)
    ctx.count("uc%s:%s" % ("-cli" if cli else "", "table" if "ok" in res else res["error"]))
    _verdict(ctx, case, r, res, list(tags) + (["cli"] if cli else []))
    return r


def uc_cli(text, ftext):
    """`biom from-uc` in-process; the written file is read back with load_table"""
    from click.testing import CliRunner
    import biom
    import biom.cli
    os.makedirs(SCRATCH, exist_ok=True)
    inp = os.path.join(SCRATCH, "in_%d.uc" % os.getpid())
    out = os.path.join(SCRATCH, "out_%d.biom" % os.getpid())
    rep = os.path.join(SCRATCH, "rep_%d.fna" % os.getpid())
    open(inp, "w").write(text)
    if os.path.exists(out):
        os.remove(out)
    args = ["from-uc", "-i", inp, "-o", out]
    if ftext is not None:
        open(rep, "w").write(ftext)
        args += ["--rep-set-fp", rep]
    # biom.cli re-opens fd 1 when the command group closes; under CliRunner that object is dropped at
    # once, which would close the process' stdout: keep a duplicate and put it back
    saved = os.dup(1)
    try:
        r = CliRunner().invoke(biom.cli.cli, args)
    finally:
        os.dup2(saved, 1)
        os.close(saved)
    try:
        if r.exception is not None and not isinstance(r.exception, SystemExit):
            raise r.exception
        if r.exit_code != 0:
            raise RuntimeError("from-uc exit code %s" % r.exit_code)
        return biom.load_table(out)
    finally:
        for p in (inp, out, rep):
            if os.path.exists(p):
                os.remove(p)


UC_SAMPLES = ["f1", "f2", "f3_a", "x", "S.1", "f1_b", "caf\u00e9", "cafe\u0301", "50%", "%(id)s", "\"q", "{b}", "f1_"]


def gen_uc(rng, wide=False):
    seeds = []   # seed labels seen so far
    lines = []
    k = rng.randint(1, 12) if not wide else rng.choice([130, 160, 200])
    ctr = [0]

    def qlabel():
        ctr[0] += 1
        return "%s_%d" % (rng.choice(UC_SAMPLES), rng.choice([ctr[0], 7]))

    def pad(ty, q, tgt):
        extra_q = q + (" some description" if rng.random() < 0.2 else "")
        return "\t".join([ty, str(rng.randint(0, 3)), "133", "*" if ty != "H" else "99.0", "*" if ty != "H" else "+",
                          "*", "*", "*" if ty != "H" else "133M", extra_q, tgt])
    for _ in range(k):
        c = rng.random() * (0.6 if wide else 1.0)   # wide: many seeds
        if c < 0.3 or not seeds:
            q = qlabel()
            ty = "S" if rng.random() < 0.75 else "L"
            if ty == "L":
                q = rng.choice(["r_seq%d" % rng.randint(1, 3), "libseed", q])
            lines.append(pad(ty, q, "*"))
            seeds.append(q)
        elif c < 0.8:
            lines.append(pad("H", qlabel(), rng.choice(seeds) + (" desc" if rng.random() < 0.1 else "")))
        elif c < 0.87:
            lines.append(pad("N", qlabel(), "*"))
        elif c < 0.92:
            lines.append(pad("C", rng.choice(seeds), "*"))
        elif c < 0.96:
            lines.append("# a comment")
        else:
            lines.append(rng.choice(["", "   "]))
    if rng.random() < 0.3:
        lines.insert(0, "# uclust --input seqs.fna")
    return lines, seeds


def corrupt_uc(rng, lines):
    lines = list(lines)
    how = rng.choice(["no_underscore", "short", "empty_label"])
    if how == "no_underscore":
        lines.insert(rng.randrange(len(lines) + 1), "\t".join(["H", "0", "1", "9", "+", "*", "*", "1M", "query7", "f1_1"]))
    elif how == "short":
        lines.insert(rng.randrange(len(lines) + 1), "\t".join(["S", "0", "1", "*", "*", "*", "*", "*", "f1_3"]))
    else:
        lines.insert(rng.randrange(len(lines) + 1), "\t".join(["H", "0", "1", "9", "+", "*", "*", "1M", "f2_9", " "]) + "\tz")
    return lines, how


def gen_fasta(rng, seeds, how):
    seeds = list(dict.fromkeys(seeds))
    lines = []
    for i, s in enumerate(seeds):
        label = "otu%d" % i
        if how == "long_labels":
            # labels longer than every seed label, of different lengths (IDs live in fixed-width arrays)
            label = "%s_relabelled_%s" % (s, "x" * (5 + 7 * i))
        lines.append(">%s %s%s" % (label, s, " extra words" if rng.random() < 0.3 else ""))
        lines.append("ACGT" * rng.randint(1, 3))
    if how == "missing" and seeds:
        i = rng.randrange(len(seeds))
        del lines[2 * i:2 * i + 2]
    elif how == "dup" and len(seeds) >= 2:
        lines[2] = ">otu0 %s" % seeds[1]
    elif how == "later_wins" and seeds:
        lines.append(">final %s" % seeds[0])
        lines.append("AC")
    elif how == "one_token":
        lines.insert(rng.randrange(len(lines) + 1), ">lonely")
    elif how == "empty":
        lines = ["ACGT", "; no header line at all"]
    elif how == "unrelated":
        lines.insert(0, ">other unrelated_9")
        lines.insert(1, "; a comment")
    return lines


# ----------------------------------------------------------------------------- the run
FIXED_MD = [[None], [None, None, None], [{}], ["", ""], [[], []], [0, 0]]


def fixed_corpus(ctx):
    """the inputs on which the unrepaired constructor violated the property (fixes 2f4be2d2, d021aa72)"""
    ones = [["1", "1"], ["1", "1"]]
    for md in FIXED_MD:
        for axis in ("omd", "smd"):
            inp = {"data": {"form": "arr", "nR": 2, "nC": 2, "rows": ones}, "obs": ["a", "b"], "samp": ["x", "y"],
                   "omd": None, "smd": None}
            inp[axis] = md
            run_construct(ctx, {"op": "construct", "input": inp, "grid": ones, "n": 2, "m": 2}, ("fixed", "md-all-falsy"))
    for ls, obs in (([["1", "2"], ["0", "0"]], ["a"]), ([["1", "2"]], ["a", "b"]), ([["1", "2"], ["3", "0"]], ["a"])):
        inp = {"data": {"form": "listList", "ls": ls}, "dense": True, "obs": obs, "samp": ["x", "y"]}
        run_construct(ctx, {"op": "construct", "input": inp, "grid": ls, "n": len(ls), "m": 2},
                      ("fixed", "nested-dense-shape"))


EMPTY_REACTIONS = ["raise", "warn", "print", "call"]


def gen_variant(rng, plain=0.45):
    """how the arguments are passed: ID containers, metadata container / keywords, rarely used keywords, and a
    profile that differs from the default one in the reaction to `empty` only (irrelevant for non-empty tables)"""
    if rng.random() < plain:
        return None
    v = {"ids": rng.choice(["list", "tuple", "ndarray", "object"]), "md": rng.choice(["list", "tuple", "ndarray"]),
         "md_kw": rng.random() < 0.3, "kw": rng.choice([0, 0, 1, 2]), "dense_false": rng.random() < 0.2,
         "all_kw": rng.random() < 0.15, "flag": rng.choice([None, "np", "int"]), "share": rng.random() < 0.5}
    if rng.random() < 0.3:
        v["profile"] = [["empty", rng.choice(EMPTY_REACTIONS)]]
    return v


def tricky_ids(rng, k, prefix):
    """distinct IDs that look alike: extensions, prefixes, case variants, blanks, trailing newline, combining
    characters, one much longer than the others (IDs live in fixed-width arrays)"""
    base = [prefix + x for x in ("a", "A", "a ", " a", "aa", "a\n", "a.", "é", "e\u0301", "a" * 40, "a\t", "ab", "b")]
    # canonically equivalent spellings (NFC / NFD) are DISTINCT IDs; format characters, quotes, line separators
    twins = [prefix + x for x in core.twin_ids(rng, 2)]
    nasty = [prefix + x for x in rng.sample(core.NASTY_TEXTS, 4)] + [x for x in rng.sample(core.NASTY_TEXTS, 2)]
    pool = list(dict.fromkeys(base + core.tricky_unknown_ids(base[:3])))
    rng.shuffle(pool)
    pool = list(dict.fromkeys(twins + nasty + pool)) if k >= 4 else pool
    out = pool[:k]
    i = 0
    while len(out) < k:
        out.append("%s%d" % (prefix, i))
        i += 1
    return out


def forms_group(ctx, rng, n, m, classes, full, with_md=True, alphabet="mixed", wide=False):
    exact = all(c in ("count", "smallcount", "dyadic", "neg") for c in classes)
    G = gen_fraction_grid(rng, n, m, classes)
    if alphabet == "tricky":
        obs, samp = tricky_ids(rng, n, "O"), tricky_ids(rng, m, "S")
    elif alphabet == "shared":
        # the same names on both axes (the same list when the axes have equal length)
        both = tricky_ids(rng, max(n, m), "X") if rng.random() < 0.5 else core.gen_ids(rng, max(n, m), "X")
        obs, samp = both[:n], both[:m]
    elif wide:
        obs, samp = ["O%d" % i for i in range(n)], ["S%d" % i for i in range(m)]
        rng.shuffle(obs); rng.shuffle(samp)   # arguments in non-axis order
    else:
        obs = core.gen_ids(rng, n, "O", alphabet)
        samp = core.gen_ids(rng, m, "S", alphabet)
    omd = gen_good_md(rng, n) if with_md else None
    smd = gen_good_md(rng, m) if with_md else None
    if with_md and n == m and rng.random() < 0.4:
        smd = copy.deepcopy(omd)   # equal arguments; the `share` variant hands over ONE object for both
    tables = []
    encs = encodings(rng, G, exact, full)
    if wide:
        encs = [e for e in encs if e[0]["form"] != "sparse" or e[0].get("variant", "plain") in ("plain", "unsorted")]
        encs = rng.sample(encs, min(9, len(encs)))
    for data, dense in encs:
        inp = {"data": data, "obs": obs, "samp": samp, "omd": omd, "smd": smd, "dense": dense}
        case = {"op": "construct", "input": inp, "grid": payload_rows(G), "n": n, "m": m, "variant": gen_variant(rng)}
        out = []
        run_construct(ctx, case, ("forms",) + (("wide",) if wide else ()), table_out=out)
        tables.append((describe(inp), out[0]))
        ctx.count("form=" + describe(inp))
    # two tables from one object, in-place operations on one of them: always the float64 CSR (the layout the
    # constructor could adopt without copying) and a few other forms
    indep = [e for e in encs if e[0]["form"] == "sparse" and e[0].get("layout") == "csr" and "dtype" not in e[0]][:2]
    indep += rng.sample(encs, min(2 if not wide else 1, len(encs)))
    for data, dense in indep:
        inp = {"data": data, "obs": obs, "samp": samp, "omd": omd, "smd": smd, "dense": dense}
        ops = rng.sample(INPLACE_OPS[:-2], rng.randint(1, 3)) + rng.sample(INPLACE_OPS[-2:], rng.randint(0, 1))
        v = gen_variant(rng, plain=0.3)
        if v:
            v.pop("profile", None)
        run_independent(ctx, {"op": "independent", "input": inp, "grid": payload_rows(G), "n": n, "m": m, "ops": ops,
                              "variant": v, "rseed": rng.randrange(10 ** 6)}, ("independent",))
    # all pairwise equal, whatever layout earlier reads left behind
    good = [(d, t) for d, t in tables if t is not None]
    for _, t in good:
        if rng.random() < 0.5:
            core.poke_layout(t, rng)
    eqs, bad = [], []
    for (da, a), (db, b) in itertools.combinations(good, 2):
        e = bool(a == b) and bool(b == a) and not bool(a != b)
        eqs.append(e)
        if not e:
            bad.append([da, db])
    gcase = {"op": "group", "grid": payload_rows(G), "obs": obs, "samp": samp, "omd": omd, "smd": smd,
             "forms": [d for d, _ in good], "unequal": bad[:5]}
    ctx.case(gcase, nontrivial=nontrivial_grid(gcase["grid"]))
    r = ctx.driver.ask({"op": "group", "eqs": eqs})
    ctx.count("group-pairs", len(eqs))
    if not r["holds"]:
        ctx.fail(gcase, r["clause"], ["forms"] + [x for p in bad[:3] for x in p])
    return G, obs, samp, encs


MALFORMATIONS = ["dup_obs", "dup_samp", "few_obs", "many_obs", "few_samp", "many_samp",
                 "omd_short", "omd_long", "omd_nonmap", "smd_short", "smd_long", "smd_nonmap"]


def far_dup(ids):
    ids = list(ids)
    if len(ids) >= 3:
        ids[-1] = ids[0]
    return ids


OTHER_PROFILES = [[["obsdup", "ignore"]], [["sampdup", "warn"]], [["obssize", "ignore"], ["sampsize", "ignore"]],
                  [["obsmdsize", "print"]], [["sampmdsize", "call"]], [["all", "ignore"]], [["all", "warn"]],
                  [["empty", "raise"], ["obsdup", "ignore"]]]


def expand_profile(profile):
    """`all=` sets every kind (the model takes explicit kinds)"""
    out = []
    for k, r in profile:
        if k == "all":
            out += [[kk, r] for kk in ("empty", "obsdup", "obsmdsize", "obssize", "sampdup", "sampmdsize", "sampsize")]
        else:
            out.append([k, r])
    return out


def malformed_case(ctx, rng, G, obs, samp, data, dense, kinds, far=False):
    """apply the malformations of `kinds` to a valid (grid, encoding, ids) triple"""
    n, m = len(G), len(G[0])
    obs2, samp2 = list(obs), list(samp)
    for k in kinds:
        if k == "dup_obs":
            obs2 = far_dup(obs2) if far and len(obs2) >= 3 else corrupt_ids(rng, obs2, "dup", "O")[0]
        elif k == "dup_samp":
            samp2 = far_dup(samp2) if far and len(samp2) >= 3 else corrupt_ids(rng, samp2, "dup", "S")[0]
        elif k in ("few_obs", "many_obs"):
            obs2, _ = corrupt_ids(rng, obs2, k.split("_")[0], "O")
        elif k in ("few_samp", "many_samp"):
            samp2, _ = corrupt_ids(rng, samp2, k.split("_")[0], "S")
    omd = smd = None
    for k in kinds:
        if k.startswith("omd_") and obs2:
            omd = corrupt_md(rng, len(obs2), k.split("_")[1])
        if k.startswith("smd_") and samp2:
            smd = corrupt_md(rng, len(samp2), k.split("_")[1])
    if omd is None and rng.random() < 0.3 and obs2:
        omd = gen_good_md(rng, len(obs2))
    if smd is None and rng.random() < 0.3 and samp2:
        smd = gen_good_md(rng, len(samp2))
    inp = {"data": data, "obs": obs2, "samp": samp2, "omd": omd, "smd": smd, "dense": dense}
    coordinate = data["form"] in ("dict", "emptyList") or (data["form"] == "listList" and not dense)
    if coordinate and (len(obs2) != n or len(samp2) != m):
        # a coordinate form has no shape of its own: only the model/code agreement is checked
        run_decode(ctx, {"op": "decode", "input": inp}, ("malformed",) + tuple(kinds))
        return
    if not obs2 or not samp2:
        run_decode(ctx, {"op": "decode", "input": inp}, ("malformed", "empty-ids") + tuple(kinds))
        return
    if rng.random() < 0.12:
        # a profile that changes the reaction to the fired kinds is outside the property (it speaks about the
        # default profile): model/code agreement only
        prof = rng.choice(OTHER_PROFILES)
        run_decode(ctx, {"op": "decode", "input": inp, "variant": {"profile": expand_profile(prof), "shown": prof}},
                   ("malformed", "other-profile") + tuple(kinds))
        ctx.count("other-profile")
        return
    case = {"op": "construct", "input": inp, "grid": payload_rows(G), "n": n, "m": m, "variant": gen_variant(rng, 0.6)}
    tags = ["malformed"] + list(kinds)
    for md in (omd, smd):
        if md is not None and all(not e for e in md):
            tags.append("md-all-falsy")
    if data["form"] == "listList" and dense and (len(obs2) != n or len(samp2) != m):
        tags.append("nested-dense-shape")
    run_construct(ctx, case, tags)
    for k in kinds:
        ctx.count("malformation=" + k)


def outside_domain(ctx, rng):
    """agreement of model and code where the property demands nothing"""
    one = {"form": "arr", "nR": 2, "nC": 2, "rows": [["1", "0"], ["0", "2"]]}
    cases = [
        {"data": one, "obs": [], "samp": ["x", "y"]},
        {"data": one, "obs": ["a", "b"], "samp": []},
        {"data": one, "obs": [], "samp": []},
        {"data": one, "obs": [], "samp": ["x", "x"], "omd": [{"k": 1}]},
        {"data": {"form": "emptyList"}, "obs": [], "samp": []},
        {"data": {"form": "emptyList"}, "obs": [], "samp": ["x"]},
        {"data": {"form": "emptyList"}, "obs": ["a"], "samp": ["x"]},
        {"data": {"form": "vec", "v": []}, "obs": [], "samp": []},
        {"data": {"form": "vec", "v": []}, "obs": ["a"], "samp": []},
        {"data": {"form": "vec", "v": ["1", "2"]}, "obs": ["a", "b"], "samp": ["x"]},
        {"data": {"form": "arr", "nR": 0, "nC": 1, "rows": []}, "obs": [], "samp": ["x"]},
        {"data": {"form": "arr", "nR": 1, "nC": 0, "rows": [[]]}, "obs": ["a"], "samp": []},
        {"data": {"form": "arr", "nR": 0, "nC": 2, "rows": []}, "obs": [], "samp": ["x", "y"]},
        {"data": {"form": "arr", "nR": 2, "nC": 0, "rows": [[], []]}, "obs": ["a", "b"], "samp": []},
        {"data": {"form": "arr", "nR": 2, "nC": 0, "rows": [[], []]}, "obs": ["a", "b"], "samp": ["x"]},
        {"data": {"form": "dict", "d": []}, "obs": ["a"], "samp": ["x"]},
        {"data": {"form": "dict", "d": []}, "obs": [], "samp": ["x"]},
        {"data": {"form": "dict", "d": [[2, 0, "1"]]}, "obs": ["a", "b"], "samp": ["x"]},
        {"data": {"form": "dict", "d": [[0, 3, "1"]]}, "obs": ["a", "b"], "samp": ["x"]},
        {"data": {"form": "listList", "triples": True, "ls": [[2, 0, "1"]]}, "obs": ["a", "b"], "samp": ["x"]},
        {"data": {"form": "listList", "triples": True, "ls": [[0, 0, "1"], [0, 1]]}, "obs": ["a"], "samp": ["x", "y"]},
        {"data": {"form": "listList", "triples": True, "ls": [[0, 0, "1", "4"]]}, "obs": ["a"], "samp": ["x", "y"]},
        {"data": {"form": "listList", "ls": [["1", "2"], ["3"]]}, "dense": True, "obs": ["a", "b"], "samp": ["x", "y"]},
        {"data": {"form": "listList", "ls": [[]]}, "dense": True, "obs": ["a"], "samp": []},
        {"data": {"form": "listList", "ls": [["1", "2"]]}, "dense": True, "obs": [], "samp": ["x", "y"]},
        {"data": {"form": "listArr", "rows": [["1", "2"], ["3"]]}, "obs": ["a", "b"], "samp": ["x", "y"]},
        {"data": {"form": "listArr", "rows": [[], []]}, "obs": ["a", "b"], "samp": []},
        {"data": {"form": "listDict", "ds": [[], []]}, "obs": ["a", "b"], "samp": ["x"]},
        {"data": {"form": "listDict", "ds": [[[0, 0, "1"], [0, 1, "2"]], [[1, 0, "3"]], [[2, 1, "5"]]]},
         "obs": ["a", "b", "c"], "samp": ["x", "y"]},
        {"data": {"form": "listDict", "ds": [[[0, 0, "1"]], [[0, 0, "3"]]]}, "obs": ["a", "b"], "samp": ["x", "y"]},
        {"data": {"form": "listDict", "ds": [[[0, 0, "1"], [2, 0, "2"]], [[1, 0, "3"]], [[1, 0, "3"]], [[1, 0, "3"]]]},
         "obs": ["a", "b", "c"], "samp": ["w", "x", "y", "z"]},
        {"data": {"form": "listDict", "ds": [[[0, 0, "1"]], [[0, 0, "3"]]]}, "obs": ["a"], "samp": ["x", "y"]},
        {"data": {"form": "listSparse", "ms": [{"nR": 3, "nC": 1, "rows": [["1"], ["2"], ["0"]]},
                                                {"nR": 3, "nC": 1, "rows": [["0"], ["3"], ["4"]]}]},
         "obs": ["a", "b", "c"], "samp": ["x", "y"]},
        {"data": {"form": "listSparse", "ms": [{"nR": 1, "nC": 2, "rows": [["1", "2"]]},
                                                {"nR": 1, "nC": 3, "rows": [["0", "3", "4"]]}]},
         "obs": ["a", "b"], "samp": ["x", "y"]},
        {"data": {"form": "unknown", "py": "tuples"}, "obs": ["a"], "samp": ["x"]},
        {"data": {"form": "unknown", "py": "str"}, "obs": ["a"], "samp": ["x"]},
        {"data": {"form": "unknown", "py": "int"}, "obs": [], "samp": []},
        {"data": {"form": "unknown", "py": "set"}, "obs": ["a"], "samp": ["x"]},
    ]
    for inp in cases:
        inp.setdefault("omd", None)
        inp.setdefault("smd", None)
        run_decode(ctx, {"op": "decode", "input": inp}, ("outside-domain",))


def run(ctx):
    rng = ctx.rng
    quick = ctx.quick()
    nw = max(1, getattr(ctx, "worker", (0, 1))[1])   # thorough runs are sharded: each worker does 1/nw of the totals
    os.makedirs(SCRATCH, exist_ok=True)
    ctx.rule = ("constructor: random grids (1..5 x 1..5 quick, up to 8x8 thorough; value classes count/dyadic/neg/"
                "big/tiny/bits; 0/1 grids for bool) x every accepted input form (ndarray float/int/bool, 1-D vector, "
                "list of arrays, nested dense lists, [r,c,v] triples with duplicates that add up and explicit zeros, "
                "coordinate dict, row and column dictionaries, lists of sparse rows / row blocks, scipy "
                "csr/csc/coo/lil/dok/bsr incl. unsorted indices, stored zeros, duplicate coo entries) with random "
                "well-formed metadata, all tables compared pairwise with ==; malformed stream: every non-empty "
                "subset of up to 3 of the 12 malformations (duplicate IDs, too few/many IDs, metadata too short/"
                "long/non-mapping, per axis) applied to every form; adjacency and uc documents over small ID "
                "alphabets with/without header, comments, blank lines, malformed lines, fasta renaming, the "
                "from-uc command. hardening: argument variants (ID/metadata containers, rarely used keywords, empty-only profiles), "
                "look-alike and long IDs, wide tables (>= 64 IDs), two tables from one argument object with in-place "
                "operations on one of them, caller's values untouched after every call, layouts poked before ==. "
                "non-trivial = grid with >= 2 cells and a non-zero value / document with >= 2 "
                "lines; distinct = distinct case description")
    ctx.trusted = ["scipy/numpy conversions (coo->csr sums duplicates, tocsr/astype/vstack keep the dense content), "
                   "float() and str.split/strip are parameters with the contracts recorded in BiomModel/C17.lean",
                   "the dense content of a caller-supplied scipy matrix is read with toarray() before it is handed "
                   "to Table()"]
    # `import biom` itself builds a table (biom.example_table, 2x3 with metadata) through the constructor:
    # a constructor that refuses it is a violation, not an infrastructure failure
    try:
        import biom  # noqa
    except Exception as e:  # noqa
        case = {"op": "import", "what": "import biom builds example_table = Table([[0,1,2],[3,4,5]], "
                                        "['O1','O2'], ['S1','S2','S3'], metadata...)"}
        ctx.case(case, nontrivial=True)
        ctx.fail(case, "forms_accept", ["import-biom", core.err_name(e)], detail={"exception": repr(e)})
        return
    fixed_corpus(ctx)
    outside_domain(ctx, rng)

    # ---- accepted forms agree
    shapes = [(1, 1), (1, 3), (3, 1), (2, 2), (2, 3), (3, 2), (4, 3), (3, 5), (5, 5), (1, 5), (5, 1), (4, 4)]
    class_sets = [("count",), ("smallcount",), ("count", "dyadic", "neg"), ("dyadic",), ("neg",),
                  ("big", "tiny"), ("bits",), ("count", "big", "bits")]
    n_groups = 60 if quick else max(60, 1600 // nw)
    kept = []
    for g in range(n_groups):
        if g < len(shapes):
            n, m = shapes[g]
        else:
            hi = 5 if quick else 8
            n, m = rng.randint(1, hi), rng.randint(1, hi)
        classes = class_sets[g % len(class_sets)]
        if g % 5 == 4:
            classes = ("smallcount",)   # grids of 0/1/2/3: bool and int dtypes apply often
        full = (g % 3 == 0) or not quick
        alphabet = "tricky" if g % 6 == 5 else ("shared" if g % 6 == 2 else ("mixed" if g % 2 else "ascii"))
        G, obs, samp, encs = forms_group(ctx, rng, n, m, classes, full, alphabet=alphabet)
        kept.append((G, obs, samp, encs))
    # a few large cases (fast paths depending on sizes such as 64 IDs on an axis)
    for g in range(2 if quick else max(2, 48 // nw)):
        wide_n = rng.choice([64, 70, 100, 130]) if g else rng.choice([513, 520, 600])   # sizes above 512 too
        other = rng.choice([2, 3, 4])
        n, m = (other, wide_n) if g % 2 == 0 else (wide_n, other)
        G, obs, samp, encs = forms_group(ctx, rng, n, m, ("smallcount",) if g % 2 else ("count", "dyadic"), False,
                                         with_md=(g % 3 == 0), wide=True)
        # a duplicate far away from its twin, a missing / surplus ID, metadata one entry short: per form
        for data, dense in rng.sample(encs, min(4, len(encs))):
            for kinds in (("dup_obs",), ("dup_samp",), ("few_samp",), ("many_obs",), ("omd_short",), ("smd_long",)):
                malformed_case(ctx, rng, G, obs, samp, data, dense, kinds, far=True)
    # 0/1 grids so that the bool dtype forms are exercised
    for g in range(6 if quick else max(6, 400 // nw)):
        n, m = rng.randint(1, 4), rng.randint(1, 4)
        G = [[Fraction(rng.choice([0, 1])) for _ in range(m)] for _ in range(n)]
        obs = core.gen_ids(rng, n, "O")
        samp = core.gen_ids(rng, m, "S")
        tables = []
        for data, dense in encodings(rng, G, True, False):
            inp = {"data": data, "obs": obs, "samp": samp, "omd": None, "smd": None, "dense": dense}
            run_construct(ctx, {"op": "construct", "input": inp, "grid": payload_rows(G), "n": n, "m": m}, ("forms", "bool"))
            ctx.count("form=" + describe(inp))

    # ---- malformed input is rejected
    singles = [(k,) for k in MALFORMATIONS]
    pairs = list(itertools.combinations(MALFORMATIONS, 2))
    triples = list(itertools.combinations(MALFORMATIONS, 3))

    def compatible(kinds):
        # one ID corruption per axis and one metadata corruption per axis
        for ax in ("obs", "samp"):
            if sum(1 for k in kinds if k.endswith(ax) and not k.startswith(("omd", "smd"))) > 1:
                return False
        return sum(1 for k in kinds if k.startswith("omd")) <= 1 and sum(1 for k in kinds if k.startswith("smd")) <= 1
    pairs = [p for p in pairs if compatible(p)]
    triples = [p for p in triples if compatible(p)]
    budget = 3000 if quick else max(3000, 80000 // nw)
    done = 0
    it = 0
    def lenient_block_left_by_exception():
        # what went wrong earlier in the process must not matter: a caller's lenient scoped profile left by an exception of
        # the caller's own (and handled there) is over — malformed input is rejected again afterwards
        import biom.err as E
        try:
            with E.errstate(obsdup="ignore", sampdup="ignore", obssize="ignore", sampsize="ignore",
                            obsmdsize="ignore", sampmdsize="ignore"):
                raise RuntimeError("caller's own failure inside a lenient block")
        except RuntimeError:
            pass
        ctx.count("prelude=lenient-block-left-by-exception")
    while done < budget:
        G, obs, samp, encs = kept[it % len(kept)]
        it += 1
        if it % 3 == 1:
            lenient_block_left_by_exception()
        # every form of this grid gets every single malformation; pairs/triples are sampled
        for data, dense in (encs if it <= 3 or not quick else rng.sample(encs, min(6, len(encs)))):
            combos = list(singles) if it <= 6 else rng.sample(singles, 4)
            combos += rng.sample(pairs, 3) + rng.sample(triples, 1)
            for kinds in combos:
                malformed_case(ctx, rng, G, obs, samp, data, dense, kinds)
                done += 1
        if it > 4 * len(kept):
            break

    # ---- adjacency
    fixed_adj = [["a\tb\t1", "a\tc\t2", "d\tc\t3", "a\tb\t4"],
                 ["#OTU ID\tSampleID\tvalue", "a\tb\t1", "a\tc\t2", "d\tc\t3", "a\tb\t4"],
                 ["a\tb\t1", "a\tb\t-1", "c\td\t1"], ["a\tb\t0", "c\td\t1"], ["a\tb\t1e3", "a\tc\t.5"],
                 ["B\ts1\t1", "a\tS1\t2", "aa\ts10\t3", "b\ts2\t4"]]
    for lines in fixed_adj:
        for mode in ("list", "list_nl", "tuple", "str", "str_nl", "file"):
            run_adjacency(ctx, {"op": "adjacency", "lines": lines, "mode": mode}, ("adjacency", "fixed"))
    for i in range(700 if quick else max(700, 32000 // nw)):
        lines = gen_adjacency(rng, odd=(i % 3 == 0), wide=(i % 233 == 7))
        mode = rng.choice(["list", "list_nl", "tuple", "str", "str_nl", "file"])
        tags = ["adjacency"]
        if i % 5 == 0:
            lines, how = corrupt_adjacency(rng, lines)
            tags.append(how)
            if mode in ("str", "str_nl", "file") and not lines:
                mode = "list"
        run_adjacency(ctx, {"op": "adjacency", "lines": lines, "mode": mode}, tags)

    # ---- uc
    for lines, fasta in ((["# nothing but a comment"], ["ACGT"]), ([], []), (["# c"], None),
                         (["S\t0\t1\t*\t*\t*\t*\t*\tf1_1\t*"], ["ACGT"]),
                         (["L\t0\t1\t*\t*\t*\t*\t*\tlib9\t*"], [">otu lib9"])):
        run_uc(ctx, {"op": "uc", "lines": lines, "fasta": fasta, "api": "_from_uc"}, ("uc", "fixed"))
    for i in range(700 if quick else max(700, 32000 // nw)):
        lines, seeds = gen_uc(rng, wide=(i % 233 == 11))
        tags = ["uc"]
        fasta = None
        c = i % 10
        if c in (3, 4, 5, 6):
            how = ["all", "missing", "dup", "later_wins", "one_token", "unrelated", "empty", "long_labels"][rng.randrange(8)] if c != 3 else "all"
            fasta = gen_fasta(rng, seeds, how)
            tags.append("fasta-" + how)
        if c == 7:
            lines, how = corrupt_uc(rng, lines)
            tags.append(how)
        case = {"op": "uc", "lines": lines, "fasta": fasta, "api": "parse_uc" if i % 2 else "_from_uc",
                "src": "list" if i % 4 == 1 else "handle"}
        run_uc(ctx, case, tags, cli=False)
        if i % (12 if quick else 40) == 0:
            run_uc(ctx, case, tags, cli=True)


def replay(ctx, rec):
    case = rec["case"]
    op = case.get("op")
    if "malformed" in rec.get("tags", []):
        # the malformed stream runs after a lenient scoped profile left by an exception (see run): same here
        import biom.err as E
        try:
            with E.errstate(obsdup="ignore", sampdup="ignore", obssize="ignore", sampsize="ignore",
                            obsmdsize="ignore", sampmdsize="ignore"):
                raise RuntimeError("caller's own failure inside a lenient block")
        except RuntimeError:
            pass
    if op == "import":
        try:
            import biom  # noqa
        except Exception as e:  # noqa
            ctx.fail(case, "forms_accept", ["import-biom", core.err_name(e)], detail={"exception": repr(e)})
        return
    if op == "construct":
        run_construct(ctx, case, ("replay",))
    elif op == "decode":
        run_decode(ctx, case, ("replay",))
    elif op == "independent":
        run_independent(ctx, case, ("replay",))
    elif op == "adjacency":
        run_adjacency(ctx, case, ("replay",))
    elif op == "uc":
        run_uc(ctx, case, ("replay",), cli="cli" in rec.get("tags", []))
    elif op == "group":
        # rebuild every accepted form of the recorded grid and compare again
        G = [[Fraction(v) for v in r] for r in case["grid"]]
        tables = []
        for data, dense in encodings(ctx.rng, G, False, True):
            inp = {"data": data, "obs": case["obs"], "samp": case["samp"], "omd": case.get("omd"),
                   "smd": case.get("smd"), "dense": dense}
            out = []
            run_construct(ctx, {"op": "construct", "input": inp, "grid": case["grid"], "n": len(G), "m": len(G[0])},
                          ("replay",), table_out=out)
            tables.append(out[0])
        good = [t for t in tables if t is not None]
        eqs = [bool(a == b) and bool(b == a) and not bool(a != b) for a, b in itertools.combinations(good, 2)]
        r = ctx.driver.ask({"op": "group", "eqs": eqs})
        if not r["holds"]:
            ctx.fail(case, r["clause"], ["replay"])
