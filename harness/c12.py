"""C12 — subsampling draws exactly n counts per vector, never inventing any.

Kernel level: `biom.subsample(arr, n, with_replacement, rng)` of BOTH kernel implementations (compiled
binary, rendering of the current .pyx) is driven with a SCRIPTED generator whose `.choice` returns
positions chosen by the harness; the Lean model (`kernelWithout` = walk with its four counters)
must return the same vector, and Lean evaluates the kernel predicate on the implementation's vector.
For small vectors EVERY n-subset of positions is fed through (each unit of entry j must be kept in
exactly C(T-1, n-1) of them, i.e. entry j collects counts[j]*C(T-1,n-1) over all subsets).

Table level: `Table.subsample` with real seeds under both implementations; the generator's answers
and the sparse layout handed to the kernel are RECORDED at the call boundary and given to the Lean
model; Lean evaluates `holds` on the implementation's own result and compares with the model."""
import itertools
import math
import unicodedata

import numpy as np

from . import core
from . import kernels


# ----------------------------------------------------------------------------- generators (rng objects)
class ScriptRng:
    """what the kernel is given instead of a numpy Generator: answers are scripted"""

    def __init__(self, choices=(), multis=()):
        self.choices = [list(c) for c in choices]
        self.multis = [list(m) for m in multis]
        self.calls = []

    def choice(self, a, size=None, replace=True, p=None, axis=0, shuffle=True):
        self.calls.append(("choice", int(a), int(size), bool(replace), bool(shuffle)))
        if not self.choices:
            raise RuntimeError("script exhausted")
        return np.array(self.choices.pop(0), dtype=np.int64)

    def multinomial(self, n, pvals, size=None):
        self.calls.append(("multinomial", int(n), len(pvals)))
        if len(pvals) == 0:
            # numpy's own reaction to an empty probability vector
            return np.random.default_rng(0).multinomial(n, pvals)
        if not self.multis:
            raise RuntimeError("script exhausted")
        return np.array(self.multis.pop(0), dtype=np.int64)


class RecRng:
    """a real numpy Generator whose answers are recorded"""

    def __init__(self, gen):
        self.gen = gen
        self.choices, self.multis, self.shuffled, self.calls = [], [], None, []

    def choice(self, a, size=None, replace=True, p=None, axis=0, shuffle=True):
        out = self.gen.choice(a, size, replace=replace, p=p, axis=axis, shuffle=shuffle)
        self.calls.append(("choice", int(a), int(size), bool(replace)))
        self.choices.append([int(x) for x in out])      # copied before the kernel sorts it in place
        return out

    def multinomial(self, n, pvals, size=None):
        self.calls.append(("multinomial", int(n), [float(x) for x in pvals]))
        out = self.gen.multinomial(n, pvals, size)
        self.multis.append([int(x) for x in out])
        return out

    def shuffle(self, x, axis=0):
        self.gen.shuffle(x, axis=axis)
        self.shuffled = [str(i) for i in x]

    def __getattr__(self, name):
        return getattr(self.gen, name)


class record_default_rng:
    """np.random.default_rng(seed) hands out recording generators while the block runs"""

    def __enter__(self):
        self.orig = np.random.default_rng
        self.made = []

        def make(seed=None):
            r = RecRng(self.orig(seed))
            self.made.append(r)
            return r
        np.random.default_rng = make
        return self

    def __exit__(self, *a):
        np.random.default_rng = self.orig
        return False


# ----------------------------------------------------------------------------- kernel level
def make_csr(vecs):
    import scipy.sparse as sp
    data = np.array([float(x) for v in vecs for x in v], dtype=np.float64)
    indptr = np.zeros(len(vecs) + 1, dtype=np.int32)
    for i, v in enumerate(vecs):
        indptr[i + 1] = indptr[i] + len(v)
    width = max([len(v) for v in vecs] + [1])
    indices = np.array([j for v in vecs for j in range(len(v))], dtype=np.int32)
    return sp.csr_matrix((data, indices, indptr), shape=(len(vecs), width))


def run_kernel(mods, vecs, n, mode, rng_script):
    m = make_csr(vecs)
    rng = ScriptRng(rng_script.get("choices", ()), rng_script.get("multis", ()))
    try:
        with np.errstate(all="ignore"):
            mods["_subsample"].subsample(m, n, mode == "with", rng)
    except RuntimeError:
        # the generator was asked more often than the script provides (the model says `other` too)
        return {"error": "Other"}, rng.calls
    except Exception as e:
        return {"error": core.err_name(e)}, rng.calls
    out = []
    for i in range(len(vecs)):
        out.append([core.frac(x) for x in m.data[m.indptr[i]:m.indptr[i + 1]]])
    return {"ok": out}, rng.calls


def kernel_case(ctx, impls, vecs, n, mode, script, tags=(), nontrivial=True, expect_pre=None):
    """one scripted kernel call under every implementation; returns the implementations' answers"""
    case = {"op": "kernel", "vecs": vecs, "n": n, "mode": mode, "rng": script}
    ctx.case(case, nontrivial=nontrivial)
    answers = []
    asked = {}
    for name, mods in impls:
        got, calls = run_kernel(mods, vecs, n, mode, script)
        key = repr(got)
        if key not in asked:
            asked[key] = ctx.driver.ask(dict(case, got=got))
        r = asked[key]
        full = dict(case, got=got, impl=name)
        t = list(tags) + [name, "kernel", mode]
        if not r["model_holds"]:
            ctx.diverge(full, "kernel theorem contradicted by the driver", t)
        if expect_pre is not None and r["pre"] != expect_pre:
            ctx.diverge(full, "generator contract flag differs from what the harness scripted", t)
        if not r["holds"]:
            ctx.fail(full, "kernel:" + str(r["clause"]), t, detail={"model": r["model"]})
        elif not r["agree"]:
            ctx.diverge(full, "kernel result differs from the model", t, detail={"model": r["model"]})
        # the generator must be asked for n positions below the vector's total, without replacement
        if mode == "without":
            want = [("choice", sum(v), n, False, False) for v in vecs if sum(v) >= n]
            if "ok" in got and calls != want:
                ctx.diverge(full, "rng.choice call sequence", t, detail={"calls": calls, "want": want})
        answers.append(got)
    return answers


def scramble(rng, subset):
    s = list(subset)
    rng.shuffle(s)
    return s


def exhaustive(ctx, impls, counts):
    """every n-subset of the T positions, every n in 1..T"""
    T = sum(counts)
    for n in range(1, T + 1):
        acc = [[0] * len(counts) for _ in impls]
        k = 0
        for subset in itertools.combinations(range(T), n):
            k += 1
            ans = kernel_case(ctx, impls, [counts], n, "without", {"choices": [scramble(ctx.rng, subset)]},
                              ("exhaustive",), expect_pre=True)
            for a, got in zip(acc, ans):
                if "ok" in got:
                    for j, x in enumerate(got["ok"][0]):
                        a[j] += int(core.unfrac(x))
        want = [c * math.comb(T - 1, n - 1) for c in counts]
        for (name, _), a in zip(impls, acc):
            ctx.count("exhaustive-vector-n")
            if a != want:
                ctx.fail({"op": "kernel-exhaustive", "counts": counts, "n": n, "impl": name},
                         "each-unit-kept-in-C(T-1,n-1)-subsets", ["kernel", "exhaustive", name],
                         detail={"collected": a, "want": want})


SMALL_VECTORS = [[1], [2], [3], [1, 1], [2, 1], [1, 2], [0, 2], [2, 0], [3, 2], [1, 0, 1], [2, 2, 1], [1, 3, 1],
                 [0, 1, 0, 2], [3, 0, 2], [1, 1, 1, 1], [2, 0, 0, 3], [4, 2], [1, 2, 3], [3, 0, 2, 2],
                 [2, 3, 1, 2], [5, 3], [1, 1, 2, 0, 2, 2]]


def gen_counts(rng, length=None, big=None):
    if length is None:
        length = rng.choice([1, 1, 2, 3, 4, 6, 9, 15, 30])
    if big is None:
        big = rng.random() < 0.3
    v = []
    for _ in range(length):
        c = rng.random()
        if c < 0.2:
            v.append(0)
        elif big and c < 0.6:
            v.append(rng.choice([10 ** 9, 10 ** 9 - 1, rng.randint(10 ** 6, 10 ** 9), 2 ** 30]))
        else:
            v.append(rng.choice([1, 1, 2, 3, 5, rng.randint(1, 60)]))
    return v


def random_kernel(ctx, impls):
    rng = ctx.rng
    nrows = rng.choice([1, 1, 1, 2, 3, 5])
    vecs = [gen_counts(rng) if rng.random() < 0.9 else [] for _ in range(nrows)]
    totals = [sum(v) for v in vecs]
    pos = [t for t in totals if t > 0]
    c = rng.random()
    if not pos:
        n = rng.randint(1, 3)
    elif c < 0.25:
        n = rng.choice(pos)                      # a total equal to n
    elif c < 0.35:
        n = rng.choice(pos) + 1                  # just above one of the totals
    elif c < 0.45:
        n = max(1, rng.choice(pos) - 1)
    else:
        n = rng.randint(1, max(1, min(max(pos), 150)))
    n = min(n, 400)
    choices = []
    for v, t in zip(vecs, totals):
        if t >= n:
            choices.append(rng.sample(range(t), n))
    kernel_case(ctx, impls, vecs, n, "without", {"choices": choices}, ("random",),
                nontrivial=any(t >= n for t in totals), expect_pre=True)
    ctx.count("kernel-random rows=%d retained=%d big=%s" % (min(nrows, 3), min(sum(t >= n for t in totals), 3),
                                                           any(x >= 10 ** 6 for v in vecs for x in v)))


def contract_breaking_kernel(ctx, impls):
    """scripts a real generator never produces: the model must still say what the kernel does"""
    for vecs, n, chosen in ([[3, 0, 2, 4]], 2, [8, 9]), ([[3, 0, 2, 4]], 2, [9, 12]), ([[2, 3]], 3, [0, 1]), \
            ([[2, 3]], 2, [0, 1, 4]), ([[2, 3]], 2, [1, 1]), ([[2, 3]], 2, [4, 4]), ([[1, 1, 1]], 2, [5, 0]), \
            ([[2], [1, 2]], 2, [2, 0]), ([[0, 0, 2]], 2, [0, 7]):
        kernel_case(ctx, impls, vecs, n, "without", {"choices": [chosen]}, ("contract-breaking",),
                    nontrivial=True, expect_pre=False)
        ctx.count("kernel-contract-breaking")


def with_replacement_kernel(ctx, impls, k):
    rng = ctx.rng
    for _ in range(k):
        nrows = rng.choice([1, 2, 3])
        vecs = [gen_counts(rng, rng.choice([1, 2, 3, 5]), big=False) for _ in range(nrows)]
        vecs = [[max(x, 1) if rng.random() < 0.7 else x for x in v] for v in vecs]
        if rng.random() < 0.15:
            vecs[rng.randrange(nrows)] = []
        n = rng.randint(1, 12)
        multis = []
        ok = True
        for v in vecs:
            if not v:
                ok = False
                break
            supp = [j for j, x in enumerate(v) if x > 0]
            m = [0] * len(v)
            if supp:
                for _ in range(n):
                    m[rng.choice(supp)] += 1
            multis.append(m)
        kernel_case(ctx, impls, vecs, n, "with", {"multis": multis}, ("with-replacement",), nontrivial=True)
        ctx.count("kernel-with-replacement empty-vector=%s" % (not ok))


def unbiased_means(ctx, impls, seeds):
    """real numpy Generator, fixed seeds: the mean count kept per entry against the exact expectation
    n*c/T (hypergeometric without replacement, multinomial with), within 5 standard errors"""
    k = -1
    for counts, n in (([3, 2, 1], 2), ([1, 4, 0, 2], 3), ([5, 5], 4), ([2, 1, 1, 1, 1], 3)):
        T = sum(counts)
        for name, mods in impls:
            for mode in ("without", "with"):
                k += 1
                if not ctx.mine(k):
                    continue
                acc = [0.0] * len(counts)
                for seed in range(seeds):
                    m = make_csr([counts])
                    with np.errstate(all="ignore"):
                        mods["_subsample"].subsample(m, n, mode == "with", np.random.default_rng(seed))
                    for j, x in enumerate(m.data):
                        acc[j] += x
                worst = 0.0
                for j, c in enumerate(counts):
                    p = c / T
                    mean = n * p
                    var = n * p * (1 - p) * ((T - n) / (T - 1) if mode == "without" else 1.0)
                    se = math.sqrt(var / seeds) if var > 0 else 0.0
                    dev = abs(acc[j] / seeds - mean)
                    z = dev / se if se > 0 else (0.0 if dev == 0 else float("inf"))
                    worst = max(worst, z)
                ctx.case({"op": "unbiased", "counts": counts, "n": n, "mode": mode, "impl": name, "seeds": seeds})
                ctx.count("unbiased-means within 5 se" if worst <= 5 else "unbiased-means OUTSIDE 5 se")
                if worst > 5:
                    ctx.fail({"op": "unbiased", "counts": counts, "n": n, "mode": mode, "impl": name, "seeds": seeds},
                             "kept-mean-matches-expectation", ["kernel", "statistical", name, mode],
                             detail={"z": worst, "means": [a / seeds for a in acc]})


# ----------------------------------------------------------------------------- table level
def other_axis(axis):
    return "observation" if axis == "sample" else "sample"


def view(t, axis):
    shape = t.matrix_data.shape
    dense = t.matrix_data.toarray() if shape[0] * shape[1] > 0 else np.zeros(shape)
    if axis == "sample":
        dense = dense.T
    ids = [str(i) for i in t.ids(axis=axis)]
    oids = [str(i) for i in t.ids(axis=other_axis(axis))]
    vecs = [[core.frac(x) for x in dense[i]] for i in range(len(ids))] if dense.shape[0] == len(ids) else \
        [["-1"] * len(oids) for _ in ids]
    return {"ids": ids, "oids": oids, "vecs": vecs}


class Spy:
    """the kernel as biom.table calls it; keeps the layout it was handed"""

    def __init__(self, fn):
        self.fn = fn
        self.lay = None
        self.args = None
        self.bad = False

    def __call__(self, arr, n, with_replacement, rng):
        lay = []
        for i in range(len(arr.indptr) - 1):
            s, e = int(arr.indptr[i]), int(arr.indptr[i + 1])
            vals = []
            for x in arr.data[s:e]:
                ok = float(x) == int(x) and x >= 0
                self.bad = self.bad or not ok
                vals.append(int(x) if ok else 0)
            lay.append([[int(j) for j in arr.indices[s:e]], vals])
        self.lay = lay
        self.args = (int(n), bool(with_replacement), arr.getformat())
        return self.fn(arr, n, with_replacement, rng)


CSC_HISTORIES = ["filter-samp", "transform-samp", "data-samp", "iter-samp", "subsampled-obs", "used-doubled-samp"]
CSR_HISTORIES = ["fresh", "filter-obs", "transform-obs", "data-obs", "iter-obs", "subsampled-samp", "used-doubled-obs",
                 "used-renamed-samp", "used-renamed-obs"]


def apply_history(t, h):
    """bring the input into the sparse layout a prior use leaves behind (public operations only);
    the *-samp histories leave the matrix CSC, the others CSR"""
    if h == "fresh":
        return t
    ax = "sample" if h.endswith("-samp") else "observation"
    kind = h.rsplit("-", 1)[0]
    if kind == "filter":
        t.filter(lambda v, i, m: True, axis=ax, inplace=True)
    elif kind == "transform":
        t.transform(lambda v, i, m: v, axis=ax, inplace=True)
    elif kind == "data":
        if len(t.ids(axis=ax)):
            t.data(t.ids(axis=ax)[0], axis=ax)
    elif kind == "iter":
        list(t.iter(axis=ax))
    elif kind in ("used-doubled", "used-renamed"):
        # the table has already been subsampled (every mode), THEN changed in place keeping the same matrix /
        # ID-array / metadata objects: the call under test is judged against the CURRENT content
        t.subsample(1, axis=ax, seed=0)
        t.subsample(1, axis=ax, by_id=True, seed=0)
        t.subsample(1, axis=ax, with_replacement=True, seed=0)
        if kind == "used-doubled":
            t.transform(lambda v, i, m: v * 2, axis=ax, inplace=True)
        else:
            ids = [str(i) for i in t.ids(axis=ax)]
            longest = max([len(i) for i in ids] + [1])
            # new IDs longer than every existing one (fixed-width ID arrays), one ending in a blank
            t.update_ids({i: i + "_" * (longest + 3) + (" " if k == 0 else "") for k, i in enumerate(ids)},
                         axis=ax, inplace=True)
    elif kind == "subsampled":
        # the input is itself the result of an earlier subsample (all IDs drawn, so the counts stay)
        t = t.subsample(len(t.ids(axis=ax)), axis=ax, by_id=True, seed=0)
    else:
        raise ValueError(h)
    return t


class StopRun(Exception):
    """the input table was modified by the call: the library wrote through an alias, the process may be
    memory-unsafe from here on; the run stops with the violation recorded"""


def input_modified(ctx, full, tg, detail):
    ctx.fail(full, "input-unchanged", tg, detail=detail)
    ctx.journal(full)          # should the interpreter die while shutting down, this is the case reported
    raise StopRun()


def sound(t):
    """the table's matrix is structurally valid and fits its ID lists (checked BEFORE any dense read: an
    aliased in-place kernel/filter can leave the caller's matrix with out-of-range indices)"""
    try:
        m = t.matrix_data
        if tuple(m.shape) != (len(t.ids(axis="observation")), len(t.ids())):
            return False
        if m.shape[0] * m.shape[1] > 0:
            m.check_format(full_check=True)
            if len(m.data) != len(m.indices) or int(m.indptr[-1]) != len(m.data):
                return False
        return True
    except Exception:
        return False


def call_recorded(mods, axis, fn):
    """run fn() (which returns a table) with the kernel spied and the generator recorded;
    returns (result-or-error json, layout seen by the kernel, generator answers, result table, calls, kernel args)"""
    import biom.table as T
    with kernels.use_kernels(mods):
        spy = Spy(T.subsample)
        T.subsample = spy
        with record_default_rng() as rec:
            try:
                r = fn()
                if not sound(r):
                    raise IndexError("the returned table's matrix is structurally invalid")
                res = {"ok": view(r, axis)}
            except Exception as e:
                r = None
                res = {"error": core.err_name(e)}
    g = rec.made[0] if rec.made else None
    rng = {"choices": g.choices if g else [], "multis": g.multis if g else [],
           "shuffled": (g.shuffled or []) if g else []}
    return res, spy.lay, rng, r, (g.calls if g else []), spy.args


def judge(ctx, case, name, t, before, before_full, outcome, n, axis, mode, tg, profile=None):
    """Lean evaluates `holds` on the implementation's result (and on the input afterwards) and compares
    with the model; side checks on the kernel and generator calls.  Returns (full case, result table)."""
    res, lay, rng, r, calls, kargs = outcome
    if not sound(t):
        full = dict(case, impl=name, result=res)
        input_modified(ctx, full, tg + ["input-matrix-corrupted"],
                       "after the call the input's matrix is structurally invalid or no longer fits its ID lists")
    after = view(t, axis)
    totals_axis = [sum(int(core.unfrac(x)) for x in v) for v in before["vecs"]]
    if "error" in res:
        tg = tg + ["raised:" + res["error"]]
    req = {"op": "table", "t": before, "n": n, "mode": mode, "rng": rng, "lay": lay or [],
           "obs": {"result": res, "after": after}}
    full = dict(case, impl=name, request=req)
    resp = ctx.driver.ask(req)
    after_full = core.table_obs(t)
    if after_full != before_full:
        what = [k for k in before_full if before_full[k] != after_full.get(k)]
        input_modified(ctx, full, tg, {"differs": what, "layout-before-call": case.get("layout")})
    if not resp["model_holds"] and resp["pre"]:
        ctx.diverge(full, "theorem model_holds contradicted by the driver", tg)
    model_empty = "ok" in resp["model"] and (not resp["model"]["ok"]["ids"] or not resp["model"]["ok"]["oids"])
    input_empty = not before["ids"] or not before["oids"]
    if profile == "raise" and (model_empty or input_empty):
        # the caller asked for empty tables to be refused (biom.err empty='raise'): the refusal is the configured
        # reaction; the input must still be what it was
        if res.get("error") == "TableException" and resp["clause"] != "input-unchanged":
            ctx.count("empty result refused under errstate(empty='raise')")
        elif "ok" in res:
            ctx.diverge(full, "an empty result was returned although the error profile says empty='raise'", tg)
        else:
            ctx.fail(full, resp["clause"], tg, detail={"model": resp["model"]})
    elif not resp["holds"]:
        ctx.fail(full, resp["clause"], tg, detail={"model": resp["model"]})
    else:
        if not resp["pre"]:
            ctx.diverge(full, "layout handed to the kernel / generator answers break the recorded contract", tg,
                        detail={"lay": lay, "rng": rng})
        elif not resp["agree"]:
            ctx.diverge(full, "result differs from the model", tg, detail={"model": resp["model"]})
    # what the kernel was asked, and what the generator was asked
    if mode != "byid" and kargs is not None:
        want_fmt = "csr" if axis == "observation" else "csc"
        if kargs != (n, mode == "with", want_fmt):
            ctx.diverge(full, "kernel call arguments", tg, detail={"args": kargs})
    if mode == "with" and "ok" in res:
        want_m = [("multinomial", n) for x in totals_axis if x > 0]
        got_m = [(c[0], c[1]) for c in calls]
        if got_m != want_m or (lay is not None and len(lay) != len(want_m)):
            ctx.diverge(full, "rng.multinomial call sequence / vectors reaching the kernel", tg,
                        detail={"calls": got_m, "want": want_m, "lay": lay})
    if mode == "without" and "ok" in res:
        want = [("choice", x, n, False) for x in totals_axis if x >= n]
        if calls != want:
            ctx.diverge(full, "rng.choice call sequence", tg, detail={"calls": calls, "want": want})
    # metadata travels with the IDs
    if r is not None:
        o1 = core.table_obs(r)
        for ax, key, idk in (("observation", "omd", "obs"), ("sample", "smd", "samp")):
            if before_full[key] is not None and len(o1[idk]) > 0:
                by_id = dict(zip(before_full[idk], before_full[key]))
                if o1[key] is None or any(by_id.get(i) != m for i, m in zip(o1[idk], o1[key])):
                    ctx.diverge(full, "metadata of a retained ID differs from the input's", tg)
    return full, res


SEED_KINDS = ["int", "int", "int", "zero", "npint", "generator"]


def gen_extras(rng):
    """rarely used spellings of the arguments, a non-default error profile, bystander tables, layout pokes"""
    return {"seedkind": rng.choice(SEED_KINDS), "npn": rng.random() < 0.15, "positional": rng.random() < 0.15,
            "profile": rng.choice([None, None, None, "raise", "warn", "call"]),
            "bystanders": rng.random() < 0.3, "poke": rng.randrange(10 ** 6) if rng.random() < 0.3 else None,
            # flags that are falsy-but-not-False / truthy-but-not-True; a generator object used for two calls
            "flags": rng.choice(["bool", "bool", "np", "int"]), "reuse_generator": rng.random() < 0.5}


def seed_object(kind, seed):
    if kind == "zero":
        return 0
    if kind == "npint":
        return np.int64(seed)
    if kind == "generator":
        return np.random.default_rng(seed)
    return seed


def do_subsample(t, n, axis, mode, seedobj, extras):
    import warnings
    import biom.err as E
    nn = np.int64(n) if extras.get("npn") else n
    conv = {"np": np.bool_, "int": int}.get(extras.get("flags"), bool)
    f_id, f_wr = conv(mode == "byid"), conv(mode == "with")
    with warnings.catch_warnings():
        # under the default profile the call has no reason to warn: a warning is an error then
        warnings.simplefilter("ignore" if extras.get("profile") else "error")
        def call():
            if extras.get("positional"):
                return t.subsample(nn, axis, f_id, f_wr, seedobj)
            return t.subsample(nn, axis=axis, by_id=f_id, with_replacement=f_wr, seed=seedobj)
        if extras.get("profile"):
            with E.errstate(empty=extras["profile"]):
                return call()
        return call()


def derive_bystanders(t0, axis):
    """tables derived from the source that stay alive during the call"""
    out = {"transpose": t0.transpose(),
           "sort_order": t0.sort_order(list(reversed(t0.ids(axis=axis))), axis=axis),
           "filter-copy": t0.filter(lambda v, i, m: True, axis=axis, inplace=False),
           "copy": t0.copy()}
    return {k: (b, core.table_obs(b)) for k, b in out.items()}


def check_bystanders(ctx, full, tg, bys, rng):
    for k, (b, obs0) in bys.items():
        if not sound(b) or core.table_obs(b) != obs0:
            input_modified(ctx, full, tg + ["bystander=" + k], "a table derived from the input changed")
        # still answers by-ID queries through its own lookups
        if obs0["obs"] and obs0["samp"]:
            i, j = rng.randrange(len(obs0["obs"])), rng.randrange(len(obs0["samp"]))
            v = b.get_value_by_ids(obs0["obs"][i], obs0["samp"][j])
            if core.frac(v) != obs0["rows"][i][j] or not b.exists(obs0["obs"][i], axis="observation"):
                ctx.fail(full, "input-unchanged", tg + ["bystander=" + k, "by-id-lookup"],
                         detail="a derived table no longer answers by-ID queries with its own content")


def table_case(ctx, impls, spec, route, n, axis, mode, seed, tags=(), histories=None, extras=None):
    """one Table.subsample call, with the input brought into BOTH sparse layouts by a prior use"""
    import random
    import biom.err as E
    if histories is None:
        histories = [ctx.rng.choice(CSC_HISTORIES), ctx.rng.choice(CSR_HISTORIES)]
    if extras is None:
        extras = {"seedkind": "int"}
    if extras.get("seedkind") == "zero":
        seed = 0
    case0 = {"spec": core.spec_obs(spec), "route": route, "n": n, "axis": axis, "mode": mode, "seed": seed,
             "histories": list(histories), "extras": extras}
    totals_axis = [sum(r) for r in (spec["rows"] if axis == "observation" else zip(*spec["rows"]))]
    ctx.case(case0, nontrivial=any(t > 0 for t in totals_axis))
    profile = extras.get("profile")
    for h in histories:
        for name, mods in impls:
            t0 = core.build(spec, route)
            bys = derive_bystanders(t0, axis) if extras.get("bystanders") else {}
            t = apply_history(t0, h)
            if t is not t0:
                bys["history-source"] = (t0, core.table_obs(t0))
            poked = core.poke_layout(t, random.Random(extras["poke"])) if extras.get("poke") is not None else []
            layout = t.matrix_data.getformat()
            case = dict(case0, history=h, layout=layout, poked=poked)
            before = view(t, axis)
            before_full = core.table_obs(t)
            err_before = dict(E.geterr())
            seedobj = seed_object(extras.get("seedkind"), seed)
            outcome = call_recorded(mods, axis, lambda: do_subsample(t, n, axis, mode, seedobj, extras))
            tg = list(tags) + [name, "table", mode, "axis=" + axis, "route=" + route, "history=" + h,
                               "layout=" + layout, "seed=" + str(extras.get("seedkind"))] + \
                (["profile=" + profile] if profile else [])
            full, res = judge(ctx, case, name, t, before, before_full, outcome, n, axis, mode, tg, profile)
            if dict(E.geterr()) != err_before:
                ctx.diverge(full, "the error profile is not what it was before the call", tg)
                E.seterr(**err_before)
            r = outcome[3]
            if extras.get("seedkind") == "generator" and extras.get("reuse_generator") and r is not None:
                # the same Generator object handed to a second call: it goes on where the first stopped; the
                # draw is judged with what it answered this time
                outcome2 = call_recorded(mods, axis, lambda: do_subsample(t, n, axis, mode, seedobj, extras))
                judge(ctx, dict(case, second_call_same_generator=True), name, t, before, before_full, outcome2, n,
                      axis, mode, tg + ["generator-reused"], profile)
                ctx.count("generator object re-used for a second call")
            if bys:
                check_bystanders(ctx, full, tg, bys, ctx.rng)
            # same seed, spelled as a plain int keyword => the same table
            if r is not None:
                # (the same table in the same state: same history, same reads before the call)
                t2 = apply_history(core.build(spec, route), h)
                if extras.get("poke") is not None:
                    core.poke_layout(t2, random.Random(extras["poke"]))
                with kernels.use_kernels(mods):
                    r2 = do_subsample(t2, n, axis, mode, seed, {"profile": None})
                o1, o2 = core.table_obs(r), core.table_obs(r2)
                if o1 != o2:
                    ctx.fail(full, "same-seed-same-result", tg, detail={"first": o1, "second": o2})
                if len(ctx._late) < 16:
                    ctx._late.append((spec, route, h, extras.get("poke"), n, axis, mode, seed, name, mods, o1, full, tg))
            # in-place changes of the RESULT must not reach the input or any table derived from it
            if r is not None and extras.get("bystanders") and r.shape[0] and r.shape[1]:
                r.transform(lambda v, i, m: v * 3, axis=axis, inplace=True)
                r.update_ids({i: str(i) + "_renamed_after_the_call" for i in r.ids(axis=axis)}, axis=axis, inplace=True)
                if not sound(t) or core.table_obs(t) != before_full:
                    input_modified(ctx, full, tg + ["result-aliases-input"],
                                   "changing the returned table in place changed the input")
                check_bystanders(ctx, full, tg + ["result-aliases-input"], bys, ctx.rng)
                ctx.count("bystanders and result mutation checked")
            ctx.count("input layout=%s axis=%s mode=%s" % (layout, axis[:4], mode))
            ctx.count("history=" + h)
            ctx.count("seed spelling=%s" % extras.get("seedkind"))
            if profile:
                ctx.count("error profile empty=%s" % profile)
            if "ok" in res:
                ctx.count("table mode=%s axis=%s kept=%s dropped-other=%s" % (
                    mode, axis[:4], "all" if len(res["ok"]["ids"]) == len(before["ids"]) else
                    ("none" if not res["ok"]["ids"] else "some"),
                    len(res["ok"]["oids"]) < len(before["oids"])))
            else:
                ctx.count("table mode=%s raised %s" % (mode, res["error"]))


def late_recheck(ctx):
    """process-level state: the first calls of the run, repeated at its end, must give what they gave"""
    import random
    for spec, route, h, poke, n, axis, mode, seed, name, mods, o1, full, tg in ctx._late:
        t = apply_history(core.build(spec, route), h)
        if poke is not None:
            core.poke_layout(t, random.Random(poke))
        with kernels.use_kernels(mods):
            o2 = core.table_obs(do_subsample(t, n, axis, mode, seed, {"profile": None}))
        ctx.count("late re-check of an early call")
        if o1 != o2:
            ctx.fail(full, "same-seed-same-result", tg + ["late-recheck"], detail={"first": o1, "late": o2})


def child_main():
    """run by hash_seed_recheck in a child interpreter with another PYTHONHASHSEED: prints the results of the calls"""
    import json
    import random
    import sys
    jobs = json.load(sys.stdin)
    impls = dict(kernels.kernel_impls())
    out = []
    for j in jobs:
        t = apply_history(core.build(j["spec"], j["route"]), j["h"])
        if j["poke"] is not None:
            core.poke_layout(t, random.Random(j["poke"]))
        with kernels.use_kernels(impls[j["impl"]]):
            out.append(core.table_obs(do_subsample(t, j["n"], j["axis"], j["mode"], j["seed"], {"profile": None})))
    sys.stdout.write("RESULTS" + json.dumps(out))


def hash_seed_recheck(ctx):
    """results must not depend on PYTHONHASHSEED (set iteration order): the early calls of the run again, in child
    interpreters started with other hash seeds"""
    import json
    import os
    import subprocess
    import sys
    jobs = [{"spec": spec, "route": route, "h": h, "poke": poke, "n": n, "axis": axis, "mode": mode, "seed": seed,
             "impl": name} for spec, route, h, poke, n, axis, mode, seed, name, mods, o1, full, tg in ctx._late]
    if not jobs:
        return
    for hs in ("1", "4242"):
        env = dict(os.environ, PYTHONHASHSEED=hs, PYTHONPATH=core.ROOT + os.pathsep + core.REPO)
        p = subprocess.run([sys.executable, "-c", "from harness import c12; c12.child_main()"], input=json.dumps(jobs),
                           capture_output=True, text=True, env=env, cwd=core.ROOT)
        if p.returncode != 0 or "RESULTS" not in p.stdout:
            ctx.diverge({"op": "hash-seed-child", "hashseed": hs}, "child interpreter failed", ["table", "hashseed"],
                        detail=p.stderr[-800:])
            continue
        got = json.loads(p.stdout.split("RESULTS", 1)[1])
        for (spec, route, h, poke, n, axis, mode, seed, name, mods, o1, full, tg), o2 in zip(ctx._late, got):
            ctx.count("early call repeated under PYTHONHASHSEED=%s" % hs)
            if json.loads(json.dumps(o1)) != o2:
                ctx.fail(full, "same-seed-same-result", tg + ["hashseed=" + hs], detail={"first": o1, "child": o2})


def refused_calls(ctx, impls, spec, route, axis, history):
    """documented refusals (n < 0; by_id together with with_replacement) leave the input unchanged and coherent"""
    for name, mods in impls:
        t = apply_history(core.build(spec, route), history)
        before_full = core.table_obs(t)
        for kw in (dict(n=-1, axis=axis), dict(n=1, axis=axis, by_id=True, with_replacement=True),
                   dict(n=-3, axis=axis, by_id=True)):
            case = {"op": "refused", "spec": core.spec_obs(spec), "route": route, "history": history, "kw": kw,
                    "impl": name}
            ctx.case(case)
            tg = [name, "table", "refused-call", "axis=" + axis]
            try:
                with kernels.use_kernels(mods):
                    t.subsample(**kw)
                ctx.diverge(case, "a documented refusal did not raise", tg)
            except ValueError:
                ctx.count("refused call raises ValueError")
            except Exception as e:
                ctx.diverge(case, "a documented refusal raised %s" % type(e).__name__, tg)
            if not sound(t) or core.table_obs(t) != before_full:
                input_modified(ctx, case, tg, "a refused call changed the input")
            ids = [str(i) for i in t.ids(axis=axis)]
            if ids and (not t.exists(ids[0], axis=axis) or t.index(ids[-1], axis=axis) != len(ids) - 1
                        or any(t.exists(u, axis=axis) for u in core.tricky_unknown_ids(ids))):
                ctx.fail(case, "input-unchanged", tg + ["index-coherence"],
                         detail="after a refused call the input's own index/exists answers are wrong")


def generator_case(ctx, impls, spec, route, n, axis, by_id, pulls, history, tags=()):
    """biom.util.generate_subsamples(table, n, axis, by_id): every table pulled from the generator must
    satisfy the same predicate as Table.subsample, and the caller's table must be what it was after each pull"""
    from biom.util import generate_subsamples
    mode = "byid" if by_id else "without"
    case0 = {"op": "generate_subsamples", "spec": core.spec_obs(spec), "route": route, "n": n, "axis": axis,
             "by_id": by_id, "pulls": pulls, "history": history}
    totals_axis = [sum(r) for r in (spec["rows"] if axis == "observation" else zip(*spec["rows"]))]
    ctx.case(case0, nontrivial=any(t > 0 for t in totals_axis))
    for name, mods in impls:
        t = apply_history(core.build(spec, route), history)
        layout = t.matrix_data.getformat()
        before = view(t, axis)
        before_full = core.table_obs(t)
        gen = generate_subsamples(t, n, axis, by_id)
        tg = list(tags) + [name, "generate_subsamples", mode, "axis=" + axis, "route=" + route,
                           "history=" + history, "layout=" + layout]
        for k in range(pulls):
            case = dict(case0, pull=k, layout=layout)
            outcome = call_recorded(mods, axis, lambda: next(gen))
            # the predicate is evaluated against the ORIGINAL input every time: a pull must not have changed it
            judge(ctx, case, name, t, before, before_full, outcome, n, axis, mode, tg + ["pull=%d" % k])
            ctx.count("generate_subsamples by_id=%s axis=%s pull=%d" % (by_id, axis[:4], k))


def gen_count_spec(rng, max_n=6, max_m=6):
    spec = core.gen_spec(rng, max_n=max_n, max_m=max_m, classes=("count", "smallcount", "smallcount"), md=True)
    rows = spec["rows"]
    n, m = len(rows), len(rows[0])
    c = rng.random()
    if c < 0.15:                      # single-entry vectors
        for i in range(n):
            j = rng.randrange(m)
            rows[i] = [rows[i][j] if k == j else 0.0 for k in range(m)]
    elif c < 0.25 and rng.random() < 0.5:
        k = float(rng.randint(1, 4))  # every vector the same total on one axis
        for i in range(n):
            rows[i] = [0.0] * m
            rows[i][rng.randrange(m)] = k
    elif c < 0.30:
        big = float(rng.choice([10 ** 9, 10 ** 6]))
        rows[rng.randrange(n)][rng.randrange(m)] = big
    return spec


def share_names(rng, spec):
    """the two axes are separate namespaces: the same ID text may name a vector on BOTH axes (co-occurrence /
    adjacency style tables, square tables indexed by the same names), at different positions"""
    obs, samp = spec["obs"], spec["samp"]
    style = rng.choice(["some", "some", "all", "swapped-prefix"])
    if style == "swapped-prefix":
        # every name of one axis looks like a name of the other axis
        spec["obs"], spec["samp"] = ["S" + o[1:] if o[:1] == "O" else o for o in obs], \
            ["O" + x[1:] if x[:1] == "S" else x for x in samp]
        if len(set(spec["obs"])) != len(obs) or len(set(spec["samp"])) != len(samp):
            spec["obs"], spec["samp"] = obs, samp
        return spec
    k = min(len(obs), len(samp)) if style == "all" else rng.randint(1, min(len(obs), len(samp)))
    src = rng.sample(range(len(obs)), k)
    dst = rng.sample(range(len(samp)), k)
    new = list(samp)
    for a, b in zip(src, dst):
        new[b] = obs[a]
    if len(set(new)) == len(new):
        spec["samp"] = new
    return spec


def tricky_ids(rng, spec):
    """ID text: IDs that differ by a trailing blank / newline / case / extension, non-ASCII, very long"""
    for key in ("obs", "samp"):
        ids = spec[key]
        if len(ids) < 2 or rng.random() < 0.5:
            continue
        j, k = rng.sample(range(len(ids)), 2)
        cand = rng.choice([ids[j] + " ", ids[j] + "\n", ids[j] + "0", ids[j].upper(), ids[j].lower(), " " + ids[j],
                           ids[j] * 9, ids[j] + "é日本",
                           # the same text in another Unicode normalisation form is a DIFFERENT ID
                           unicodedata.normalize("NFD", ids[j] + "é"), unicodedata.normalize("NFC", ids[j] + "é"),
                           ids[j] + "\u2028", ids[j] + "\u0085", "%s" + ids[j], '"' + ids[j], ids[j] + "%d\\"])
        if cand not in ids:
            ids[k] = cand
    return spec


def pick_n(rng, spec, axis, mode):
    totals = [sum(r) for r in (spec["rows"] if axis == "observation" else zip(*spec["rows"]))]
    pos = [int(t) for t in totals if t > 0]
    if mode == "byid":
        return rng.choice([1, 1, 2, 3, len(totals), len(totals) + 1, max(1, len(totals) - 1)])
    c = rng.random()
    small = [t for t in pos if t <= 300]       # the positions drawn are listed in the request: keep n small
    if not small:
        return rng.randint(1, 300) if pos else rng.randint(1, 3)
    if c < 0.35:
        return rng.choice(small)
    if c < 0.45:
        return rng.choice(small) + 1
    if c < 0.55:
        return max(1, rng.choice(small) - 1)
    if c < 0.6:
        return max(small) + 1
    return rng.randint(1, max(small))


CORPUS = [
    # the repaired defect a04b6ea1: with replacement and a vector without any count on the axis used to raise
    # ValueError; it must return the table with the all-zero vector dropped
    ({"obs": ["a", "b"], "samp": ["x", "y"], "rows": [[0, 1], [0, 2.0]],
      "omd": None, "smd": None, "type": None}, "dense", 2, "sample", "with", 0),
    ({"obs": ["a", "b", "c"], "samp": ["x", "y"], "rows": [[0, 0], [0, 2.0], [3.0, 0]],
      "omd": None, "smd": None, "type": None}, "csr", 4, "observation", "with", 5),
    ({"obs": ["a", "b"], "samp": ["x", "y"], "rows": [[0, 0], [0, 0.0]],
      "omd": None, "smd": None, "type": None}, "dense", 3, "sample", "with", 1),
    # the repaired defect d07fd8da: 4x3, n = 3 along observations (observation sums must be 3)
    ({"obs": list("abcd"), "samp": list("xyz"), "rows": [[1, 2, 0], [2, 1, 3], [3, 3, 4], [0, 2, 1.0]],
      "omd": None, "smd": None, "type": None}, "dense", 3, "observation", "without", 1),
    ({"obs": list("abcd"), "samp": list("xyz"), "rows": [[1, 2, 0], [2, 1, 3], [3, 3, 4], [0, 2, 1.0]],
      "omd": None, "smd": None, "type": None}, "dense", 3, "sample", "without", 1),
    ({"obs": list("abcd"), "samp": list("xyz"), "rows": [[1, 2, 0], [2, 1, 3], [3, 3, 4], [0, 2, 1.0]],
      "omd": None, "smd": None, "type": None}, "csr_unsorted", 3, "observation", "with", 2),
    # the docstring's table
    ({"obs": ["O1", "O2"], "samp": ["S1", "S2", "S3"], "rows": [[0, 2, 3], [1, 0, 2.0]],
      "omd": None, "smd": None, "type": None}, "dense", 2, "sample", "without", 0),
    ({"obs": ["O1", "O2"], "samp": ["S1", "S2", "S3"], "rows": [[0, 2, 3], [1, 0, 2.0]],
      "omd": None, "smd": None, "type": None}, "dense", 2, "sample", "byid", 0),
    ({"obs": ["a", "b"], "samp": ["x", "y"], "rows": [[0, 1], [0, 2.0]],
      "omd": None, "smd": None, "type": None}, "dense", 2, "observation", "with", 0),
    # nothing reaches n; by ID with only empty vectors drawn
    ({"obs": ["a", "b"], "samp": ["x", "y"], "rows": [[0, 1], [0, 2.0]],
      "omd": None, "smd": None, "type": None}, "dense", 5, "sample", "without", 0),
    ({"obs": ["a", "b"], "samp": ["x", "y", "z"], "rows": [[0, 1, 0], [0, 2.0, 0]],
      "omd": None, "smd": None, "type": None}, "dense", 2, "sample", "byid", 0),
]


def run(ctx):
    try:
        run_all(ctx)
    except StopRun:
        ctx.notes.append("run stopped at the first modification of an input table (aliasing: memory-unsafe to go on)")


def run_all(ctx):
    impls = [(name, mods) for name, mods in kernels.kernel_impls()]
    for name, mods in impls:
        if mods is None:
            ctx.notes.append(name)
            ctx.diverge({"impl": name}, "the .pyx source could not be rendered", ["kernel", "render"])
    impls = [(n, m) for n, m in impls if m is not None]
    ctx.rule = ("kernel: biom.subsample under compiled + pyx-rendered kernels with a scripted generator — every "
                "n-subset of positions for small vectors (entry j must collect counts[j]*C(T-1,n-1)), random vectors "
                "(<=30 entries, counts <=1e9, multi-row, totals equal to / just below / just above n), scripts "
                "breaking the generator's contract, with replacement; table: Table.subsample with seeds under both "
                "kernels, both axes, by_id, with replacement, every layout route, generator answers and kernel "
                "layout recorded at the call boundary; every table case runs with the input left in BOTH sparse "
                "layouts (CSC and CSR) by a prior use (in-place filter/transform, data()/iter() read, result of an earlier "
                "subsample) and the input is compared (ids, cells, metadata, matrix structure) after the call; "
                "biom.util.generate_subsamples: 2-3 draws pulled, by_id on/off, both axes, every draw judged like "
                "Table.subsample against the ORIGINAL input, input compared after each pull; hardening: read-only layout "
                "pokes before the call, inputs already subsampled then changed in place (doubled / renamed with longer "
                "IDs), ID texts differing by blank/newline/case/extension, non-ASCII and very long IDs, tables with >=64 "
                "IDs on either axis, seed spelled 0 / numpy integer / Generator object, numpy-integer n, positional "
                "arguments, errstate(empty=raise|warn|call) (an empty result refused under 'raise' is accepted, the "
                "input must be unchanged and the profile restored), bystander tables derived from the input "
                "(transpose, sort_order, filter copy, copy) and in-place changes of the RESULT must leave input and "
                "bystanders unchanged and answering by-ID lookups, documented refusals leave the input unchanged and "
                "coherent, the first calls of the run are repeated at its end and in child interpreters with other "
                "PYTHONHASHSEEDs; ID texts shared between the two axes (some / all / prefix-swapped), NFC vs NFD spellings, "
                "U+2028/U+0085, '%' and leading '\"' in IDs, by_id / with_replacement given as np.bool_ or 0/1, a Generator "
                "object re-used for a second call, warnings turned into errors under the default profile, tables with "
                ">512 IDs on an axis, degenerate shapes 0xM / Nx0 / 0x0. distinct = distinct (vectors|table, n, axis, mode, "
                "script|seed); non-trivial = some vector reaches n (kernel) / some vector on the axis is non-zero")
    ctx.trusted = ["numpy Generator: choice(total, n, replace=False) returns n distinct positions below total, uniformly; "
                   "multinomial(n, p) returns naturals summing to n, zero where p is zero; shuffle permutes uniformly "
                   "(uniformity itself is not tested)",
                   "scipy: tocsr/tocsc/copy return a well-formed layout with the same dense content (checked per case "
                   "by Lean: layOK)"]
    ctx.assumptions = ["count tables: non-negative integer entries exactly representable in binary64 (<= 1e9 here)",
                       "n >= 1"]
    # fixed corpus first
    ctx._late = []
    for k, (spec, route, n, axis, mode, seed) in enumerate(CORPUS):
        table_case(ctx, impls, spec, route, n, axis, mode, seed, ("corpus",),
                   histories=["fresh", "filter-samp", "filter-obs", "subsampled-obs", "subsampled-samp",
                              "used-doubled-samp", "used-renamed-obs"],
                   extras={"seedkind": SEED_KINDS[2 + k % 4], "npn": k % 2 == 1, "positional": k % 3 == 1,
                           "profile": [None, "raise", "warn", "call"][k % 4], "bystanders": True, "poke": k})
    refused_calls(ctx, impls, CORPUS[3][0], "dense", "sample", "filter-samp")
    refused_calls(ctx, impls, CORPUS[3][0], "csc", "observation", "fresh")
    # the rarefaction helper: the docstring's table, then the 4x3 table at depths below / at / above totals
    for spec, route, n, axis, mode, seed in CORPUS[3:8]:
        for by_id in (False, True):
            for h in ("fresh", "filter-samp"):
                generator_case(ctx, impls, spec, route, n, axis, by_id, 3, h, ("corpus",))
    contract_breaking_kernel(ctx, impls)
    # exhaustive subsets
    vectors = SMALL_VECTORS if ctx.quick() else SMALL_VECTORS + [
        [5, 4], [1, 1, 1, 1, 1, 1], [4, 0, 3, 2], [2, 2, 2, 2, 2], [6, 1, 3], [1, 0, 0, 0, 7],
        [3, 3, 3, 3], [12], [1, 2, 3, 4], [5, 0, 5, 1], [2, 1, 2, 1, 2, 1, 2], [4, 4, 4], [1, 5, 0, 6], [7, 5],
        [2, 2, 2, 2, 2, 2], [1, 1, 1, 1, 1, 1, 1, 1, 1, 1], [3, 1, 4, 1, 3], [6, 0, 0, 6], [11, 1]]
    for k, counts in enumerate(vectors):
        if ctx.mine(k):            # thorough runs are sharded over worker processes
            exhaustive(ctx, impls, counts)
    ctx.exhaustive = False
    unbiased_means(ctx, impls, 1500 if ctx.quick() else 20000)
    with_replacement_kernel(ctx, impls, 300 if ctx.quick() else 5000)
    for _ in range(1500 if ctx.quick() else 60000):
        random_kernel(ctx, impls)
    # tables
    n_tables = 600 if ctx.quick() else 6000
    for i in range(n_tables):
        rng = ctx.rng
        spec = gen_count_spec(rng, 6, 6) if ctx.quick() or rng.random() < 0.7 else gen_count_spec(rng, 12, 12)
        axis = rng.choice(["sample", "observation"])
        mode = rng.choice(["without", "without", "without", "with", "byid"])
        if mode == "with" and rng.random() < 0.4:
            # some tables without any all-zero vector on the axis
            rows = spec["rows"]
            for i_ in range(len(rows)):
                for j_ in range(len(rows[0])):
                    tot = sum(rows[i_]) if axis == "observation" else sum(r[j_] for r in rows)
                    if tot == 0:
                        rows[i_][j_] = float(rng.randint(1, 4))
        if rng.random() < 0.2:
            tricky_ids(rng, spec)
        if rng.random() < 0.3:
            share_names(rng, spec)
            ctx.count("ID texts shared between the two axes")
        route = rng.choice(core.ROUTES)
        n = pick_n(rng, spec, axis, mode)
        table_case(ctx, impls, spec, route, n, axis, mode, rng.randrange(10 ** 6), ("random",),
                   extras=gen_extras(rng))
        if i % 25 == 0:
            refused_calls(ctx, impls, spec, route, axis, rng.choice(CSC_HISTORIES + CSR_HISTORIES))
        if i % 4 == 0:
            by_id = rng.random() < 0.4
            generator_case(ctx, impls, spec, route, pick_n(rng, spec, axis, "byid" if by_id else "without"), axis,
                           by_id, rng.choice([2, 3]), rng.choice(CSC_HISTORIES + CSR_HISTORIES), ("random",))
    # size thresholds: many IDs on the subsampled axis / on the other axis
    for k in range(6 if ctx.quick() else 40):
        rng = ctx.rng
        wide_axis = rng.choice(["sample", "observation"])
        spec = core.wide_spec(rng, axis=wide_axis, classes=("count", "smallcount"), md=(k % 3 == 0))
        axis = rng.choice(["sample", "observation"])
        mode = ["without", "byid", "with"][k % 3]
        table_case(ctx, impls, spec, rng.choice(core.ROUTES), pick_n(rng, spec, axis, mode), axis, mode,
                   rng.randrange(10 ** 6), ("wide",), extras=gen_extras(rng))
        ctx.count("wide table: %s IDs on the %s axis, subsampled along %s" % (
            ">=64", wide_axis[:4], "it" if axis == wide_axis else "the other"))
    # more than 512 IDs on an axis
    for k in range(1 if ctx.quick() else 4):
        rng = ctx.rng
        wide_axis = ["sample", "observation"][(k + ctx.seed) % 2]
        spec = core.wide_spec(rng, n_axis=rng.choice([513, 520, 600]), other=2, axis=wide_axis,
                              classes=("smallcount",))
        if k % 2 == 0:
            share_names(rng, spec)
        axis = rng.choice(["sample", "observation"])
        mode = rng.choice(["without", "byid", "with"])
        table_case(ctx, impls, spec, rng.choice(["dense", "csc", "csr_unsorted"]), pick_n(rng, spec, axis, mode), axis,
                   mode, rng.randrange(10 ** 6), ("wide", ">512"), histories=[rng.choice(CSC_HISTORIES[:5])],
                   extras=gen_extras(rng))
        ctx.count("wide table: >512 IDs on an axis")
    # more than 65536 cells in the RESULT, with other-axis vectors that become all-zero through the operation (their counts
    # sit only in vectors below the depth): a clean-up that switches method with the size of the table
    def many_cells_spec(rng, axis, side=300, shallow=5):
        deep = side - shallow
        grid = [[0] * side for _ in range(side)]
        for j in range(deep):
            for i in rng.sample(range(deep), rng.randint(2, 6)):
                grid[i][j] = rng.randint(1, 5)
            grid[rng.randrange(deep)][j] = rng.randint(2, 5)
        for j in range(deep, side):
            grid[j][j] = 1                       # a vector of total 1 whose only count is the only count of row j
        obs = ["O%d" % i for i in range(side)]
        samp = ["S%d" % i for i in range(side)]
        if axis == "observation":
            grid = [list(r) for r in zip(*grid)]
        return {"obs": obs, "samp": samp, "rows": grid, "omd": None, "smd": None, "type": None}
    for axis in (("sample", "observation") if not ctx.quick() else (["sample", "observation"][ctx.seed % 2],)):
        rng = ctx.rng
        for mode in ("without", "with"):
            table_case(ctx, impls, many_cells_spec(rng, axis), rng.choice(["csr", "csc"]), 2, axis, mode,
                       rng.randrange(10 ** 6), ("wide", ">65536-cells"))
            ctx.count("result of more than 65536 cells, other-axis vectors emptied: %s/%s" % (axis[:4], mode))
    # degenerate shapes: one axis (or both) without any ID
    for spec in ({"obs": [], "samp": ["x", "y"], "rows": [], "omd": None, "smd": None, "type": None},
                 {"obs": ["a", "b"], "samp": [], "rows": [[], []], "omd": None, "smd": None, "type": None},
                 {"obs": [], "samp": [], "rows": [], "omd": None, "smd": None, "type": None}):
        for axis in ("sample", "observation"):
            for mode in ("without", "byid", "with"):
                table_case(ctx, impls, spec, ctx.rng.choice(["dense", "csr", "csc"]), 2, axis, mode, 5,
                           ("degenerate-shape",), histories=["fresh", "filter-samp"],
                           extras={"seedkind": "int", "flags": ctx.rng.choice(["bool", "np", "int"])})
                ctx.count("degenerate shape %dx%d" % (len(spec["obs"]), len(spec["samp"])))
    late_recheck(ctx)
    if ctx.mine(0):
        hash_seed_recheck(ctx)


def replay(ctx, rec):
    try:
        replay_one(ctx, rec)
    except StopRun:
        pass


def replay_one(ctx, rec):
    impls = [(n, m) for n, m in kernels.kernel_impls() if m is not None]
    case = rec["case"]
    if case.get("op") == "kernel":
        kernel_case(ctx, impls, case["vecs"], case["n"], case["mode"], case["rng"], ("replay",))
    elif case.get("op") == "kernel-exhaustive":
        exhaustive(ctx, impls, case["counts"])
    elif case.get("op") == "unbiased":
        unbiased_means(ctx, impls, case["seeds"])
    else:
        s = case["spec"]
        spec = {"obs": s["obs"], "samp": s["samp"], "rows": [[float(core.unfrac(x)) for x in r] for r in s["rows"]],
                "omd": [dict((k, __import__("json").loads(v)) for k, v in m.items()) for m in s["omd"]] if s.get("omd") else None,
                "smd": [dict((k, __import__("json").loads(v)) for k, v in m.items()) for m in s["smd"]] if s.get("smd") else None,
                "type": s.get("type")}
        if case.get("op") == "refused":
            refused_calls(ctx, impls, spec, case["route"], case["kw"]["axis"], case["history"])
        elif case.get("op") == "generate_subsamples":
            generator_case(ctx, impls, spec, case["route"], case["n"], case["axis"], case["by_id"], case["pulls"],
                           case["history"], ("replay",))
        else:
            ctx._late = []
            hs = [case["history"]] if case.get("history") else case.get("histories")
            table_case(ctx, impls, spec, case["route"], case["n"], case["axis"], case["mode"], case["seed"],
                       ("replay",), histories=hs, extras=case.get("extras"))
