"""C04 — written HDF5 files conform to the BIOM 2.1 layout; both matrix views agree.

Write with the real code (Table.to_hdf5 / save_table / `biom convert --to-hdf5`), read the file back
with RAW h5py only (dataset by dataset -> kind, shape, entries; bytes decoded as utf-8), remove the
file, and have Lean (a) evaluate `C04.holds` on that raw tree against the table that was written,
(b) decode the raw tree with the spec-only reader, (c) compare the raw tree with the model `toH5`.

This module also carries the helpers shared with C01 (generators of the "C01 domain", structured
metadata observation, raw tree reader)."""
import copy
import datetime
import json
import os
import shutil

from . import core

TMP = "/tmp/c04/h5"
SPECIAL = ["taxonomy", "Taxonomy", "KEGG_Pathways", "collapsed_ids"]
NFD_TEXTS = [x for pair in core.NORMALISATION_PAIRS for x in pair]       # both spellings, as different texts
TEXTS = ["a", "b", "gut", "skin", "é", "日本 語", "x y", "p/q", "", "semi;colon", "Z" * 23, "'q'", "tab\tin"] + \
    core.NASTY_TEXTS + NFD_TEXTS
GEN_BYS = ["verif", "BIOM-Format x", "gén ü", "a \"quoted\" one", "", "100% cafe\u0301", " padded \n"]
TABLE_IDS = [None, None, "tid-1", "ид 7", "x/y", "n\u0303u %s", " id with blanks "]
# payloads with white space at the ends (a tree read with open(path).read() ends in a newline), CRLF, other
# line separators, non-NFC text; data types in several spellings
GMD_PAYLOADS = ["((a,b),c);", "((a,b),c);\n", " (a,b);", "(a,b);\r\n", "\t(é,ö);  ", "(cafe\u0301,caf\u00e9);",
                "s1<s2", " s1 < s2 ", "line1\nline2\n", "ls\u2028x\u2029", "50% of \"it\"", "ab", "x"]
GMD_TYPES = ["newick", "newick", "text", "", "NEWICK", "nexus", "newick "]
GMD_KEYS = ["tree", "rel", "phylogeny", "cafe\u0301", "50%"]


def gen_gmd(rng):
    if rng.random() < 0.55:
        return None
    keys = rng.sample(GMD_KEYS, rng.choice([1, 1, 2, 3, 4]))
    # an entry is a (data type, payload) pair or, as from_hdf5 leaves it, the payload alone; both forms may sit
    # on one axis in any order (e.g. after add_group_metadata on a loaded table)
    return {k: (rng.choice(GMD_PAYLOADS) if rng.random() < 0.35 else (rng.choice(GMD_TYPES), rng.choice(GMD_PAYLOADS)))
            for k in keys}


ROUTES = core.ROUTES + ["sort_order", "subsample_full", "filter_half", "accessors", "copy", "dok"]
# histories that WRITE the table once, change it in place, and then write it again (the second file is the
# one that is checked): nothing a first write leaves behind may leak into the second file
REWRITE_OPS = ["transform_obs", "transform_samp", "norm_obs", "norm_samp", "pa", "rankdata_obs", "rankdata_samp",
               "filter_obs", "filter_samp", "update_ids_obs", "update_ids_samp", "add_metadata_obs",
               "add_metadata_samp", "del_metadata_obs", "del_metadata_samp", "mutate_md_obs", "mutate_md_samp", "rotate_ids_obs",
               "rotate_ids_samp", "nothing"]
# tables derived from a live source; one is written and changed in place, the OTHER one is then written and checked
ALIAS_ROUTES = ["alias:%s:%s" % (d, w) for d in ("copy", "sort_order", "transpose", "filter", "ctor_shared")
                for w in ("check_source", "check_derived")]
EXTRA_ROUTES = ["rewrite:" + op for op in REWRITE_OPS] + ["reloaded", "reloaded", "planted_zero:data",
                                                          "planted_zero:setitem", "planted_zero:data"] + ALIAS_ROUTES + \
    ["entered"] * 6
# tables that ENTER through a reader (a 2.0-announcing HDF5 file, a 2.1 one, JSON, TSV, the files the repository
# ships), are optionally changed in place, and are then written: the written file must be a conforming 2.1 file
ENTRY_HOWS = ["h5_20:load_table", "h5_20:from_hdf5", "h5_20:parse_table", "h5_20:from_hdf5", "json:load_table",
              "json:from_json", "json:parse_table", "tsv:load_table", "tsv:from_tsv", "shipped:any", "shipped:any"]
ENTRY_EDITS = ["none", "none", "transform", "norm", "pa", "update_ids", "add_metadata", "filter"]
SHIPPED = ["biom/tests/test_data/test.biom", "biom/tests/test_data/test_grp_metadata.biom",
           "biom/tests/test_data/edgecase_issue_952.biom", "biom/tests/test_data/test.json",
           "examples/min_sparse_otu_table_hdf5.biom",
           "examples/rich_sparse_otu_table_hdf5.biom", "examples/rich_sparse_otu_table_hdf5_group_metadata.biom",
           "examples/min_sparse_otu_table.biom", "examples/rich_sparse_otu_table.biom",
           "biom/tests/test_data/test.biom"]
OWN_HEADERS = [None, None, {"generated_by": "previous writer", "create_date": [2011, 11, 11, 11, 11, 11, 11]},
               {"generated_by": "öwn", "create_date": None}, {"generated_by": "", "create_date": [2000, 1, 1, 0, 0, 0, 0]},
               # the constructor documents `create_date : str`; other producers write ctime()-style dates
               {"generated_by": "previous writer", "create_date": "03/04/2021 10:15"},
               {"generated_by": None, "create_date": "Tue Jul 29 16:16:36 2014"},
               {"generated_by": "x", "create_date": "2014-07-29T16:16:36"}]


# ----------------------------------------------------------------------------- observation of a table
def md_val(v):
    import numpy as np
    if v is None:
        return {"t": "none"}
    if isinstance(v, (bool, np.bool_)):
        return {"t": "bool", "v": bool(v)}
    if isinstance(v, (int, np.integer)):
        return {"t": "int", "v": str(int(v))}
    if isinstance(v, (float, np.floating)):
        return {"t": "float", "v": core.frac(float(v))}
    if isinstance(v, bytes):
        return {"t": "text", "v": v.decode("utf8")}
    if isinstance(v, str):
        return {"t": "text", "v": str(v)}
    if isinstance(v, (list, tuple, np.ndarray)):
        out = []
        for x in (v.tolist() if isinstance(v, np.ndarray) else v):
            if isinstance(x, bytes):
                x = x.decode("utf8")
            if not isinstance(x, str):
                return {"t": "text", "v": "<unmodelled value> " + repr(v)}
            out.append(str(x))
        return {"t": "list", "v": out}
    return {"t": "text", "v": "<unmodelled value> " + repr(v)}


def md_obs(md):
    if md is None:
        return None
    return [[[str(k), md_val(v)] for k, v in (m or {}).items()] for m in md]


def gmd_src(g):
    """group metadata given as (data_type, payload) pairs"""
    if not g:
        return []
    return [[str(k), str(v[0]), str(v[1])] for k, v in g.items() if not isinstance(v, str)]


def gmd_bare(g):
    """group metadata held as bare text (the form from_hdf5 hands back)"""
    if not g:
        return []
    return [[str(k), str(v)] for k, v in g.items() if isinstance(v, str)]


def dense_rows(t):
    import numpy as np
    m = t.matrix_data
    n, k = m.shape
    if n * k == 0:
        return [[] for _ in range(n)]
    d = m.toarray()
    return [[core.frac(x) for x in d[i]] for i in range(n)]


def src_obs(t):
    """what the property calls "the table": IDs in order, grid, metadata by position, header fields"""
    return {"obs": [str(i) for i in t.ids(axis="observation")], "samp": [str(i) for i in t.ids()],
            "rows": dense_rows(t),
            "omd": md_obs(t.metadata(axis="observation")), "smd": md_obs(t.metadata()),
            "type": t.type, "table_id": t.table_id,
            "ogmd": gmd_src(t.group_metadata("observation")), "sgmd": gmd_src(t.group_metadata("sample")),
            "ogmd_bare": gmd_bare(t.group_metadata("observation")), "sgmd_bare": gmd_bare(t.group_metadata("sample")),
            "own_generated_by": None if t.generated_by is None else str(t.generated_by),
            "own_create_date": None if t.create_date is None else
            (t.create_date.isoformat() if hasattr(t.create_date, "isoformat") else str(t.create_date))}


# ----------------------------------------------------------------------------- raw h5py view
def _kind(dt):
    import h5py
    import numpy as np
    si = h5py.check_string_dtype(dt)
    if si is not None:
        return "vlenStr" if si.length is None else "fixStr"
    if dt == np.dtype("float64"):
        return "f64"
    if dt == np.dtype("int32"):
        return "i32"
    if dt == np.dtype("int64"):
        return "i64"
    if dt == np.dtype("bool"):
        return "bool"
    return "other"


def _cell(kind, x):
    if kind == "f64":
        return core.frac(float(x))
    if kind in ("i32", "i64"):
        return str(int(x))
    if kind == "bool":
        return bool(x)
    if isinstance(x, bytes):
        return x.decode("utf8")
    return str(x)


def dset_json(d):
    kind = _kind(d.dtype)
    dt = d.attrs.get("data_type")
    if isinstance(dt, bytes):
        dt = dt.decode("utf8")
    out = {"kind": kind, "data_type": None if dt is None else str(dt), "d": 0}
    if kind == "other":
        return out
    try:
        arr = d[()]
        if d.ndim == 1:
            out.update(d=1, cells=[_cell(kind, x) for x in arr])
        elif d.ndim == 2:
            out.update(d=2, ncol=int(d.shape[1]), cells=[[_cell(kind, x) for x in row] for row in arr])
    except Exception:                 # noqa: BLE001 — undecodable bytes, NaN/inf, …: an unreadable dataset
        out = {"kind": "other", "data_type": out["data_type"], "d": 0}
    return out


def attr_json(v):
    import numpy as np
    if isinstance(v, bytes):
        try:
            return {"k": "str", "v": v.decode("utf8")}
        except UnicodeDecodeError:
            return {"k": "other"}
    if isinstance(v, str):
        return {"k": "str", "v": str(v)}
    if isinstance(v, (bool, np.bool_)):
        return {"k": "other"}
    if isinstance(v, (int, np.integer)):
        return {"k": "int", "v": int(v)}
    if isinstance(v, np.ndarray) and v.ndim == 1 and np.issubdtype(v.dtype, np.integer):
        return {"k": "ints", "v": [int(x) for x in v]}
    return {"k": "other"}


def raw_tree(path, group=None):
    """the file (or one of its groups) as raw h5py shows it (no biom code involved)"""
    import h5py

    def named(g):
        # anything that is not a dataset (e.g. a nested group created by an unescaped '/') is reported as an
        # unreadable node of kind `other`
        return [[str(k), dset_json(v) if isinstance(v, h5py.Dataset) else
                 {"kind": "other", "data_type": None, "d": 0, "node": type(v).__name__}] for k, v in g.items()]

    def ax(f, name):
        if name not in f or not isinstance(f[name], h5py.Group):
            return None
        g = f[name]
        out = {"ids": None, "metadata": None, "group-metadata": None, "matrix": None}
        if "ids" in g and isinstance(g["ids"], h5py.Dataset):
            out["ids"] = dset_json(g["ids"])
        for sub in ("metadata", "group-metadata"):
            if sub in g and isinstance(g[sub], h5py.Group):
                out[sub] = named(g[sub])
        if "matrix" in g and isinstance(g["matrix"], h5py.Group):
            mg = g["matrix"]
            out["matrix"] = {k: (dset_json(mg[k]) if k in mg and isinstance(mg[k], h5py.Dataset) else None)
                             for k in ("data", "indices", "indptr")}
        return out

    with h5py.File(path, "r") as f0:
        f = f0 if group is None else f0[group]
        return {"attrs": [[str(k), attr_json(v)] for k, v in f.attrs.items()],
                "observation": ax(f, "observation"), "sample": ax(f, "sample")}


def attr_of(raw, name):
    for k, v in raw["attrs"]:
        if k == name:
            return v
    return None


def views(raw, t_before):
    """the two matrix layouts handed to the model as its scipy parameters: what the file holds when
    that is readable as integer/float arrays, else what scipy derives from the table"""
    n, m = t_before["n"], t_before["m"]

    def one(axname, major, minor, fallback):
        g = (raw.get(axname) or {}).get("matrix") or {}
        try:
            ds = [g["indptr"], g["indices"], g["data"]]
            if all(d is not None and d["d"] == 1 for d in ds) and ds[0]["kind"] in ("i32", "i64") \
                    and ds[1]["kind"] in ("i32", "i64") and ds[2]["kind"] == "f64":
                ip = [int(x) for x in ds[0]["cells"]]
                ix = [int(x) for x in ds[1]["cells"]]
                if min(ip + ix + [0]) >= 0:
                    return {"nMajor": major, "nMinor": minor, "indptr": ip, "indices": ix, "data": ds[2]["cells"]}
        except (KeyError, TypeError):
            pass
        return fallback

    return one("observation", n, m, t_before["csr"]), one("sample", m, n, t_before["csc"])


def scipy_views(t):
    """csr / csc as scipy derives them from a copy of the table's matrix (fallback parameters)"""
    mat = t.matrix_data.copy()
    mat.eliminate_zeros()
    csr = mat.asformat("csr")
    csc = csr.asformat("csc")

    def js(x, major, minor):
        return {"nMajor": major, "nMinor": minor, "indptr": [int(v) for v in x.indptr],
                "indices": [int(v) for v in x.indices], "data": [core.frac(v) for v in x.data]}
    n, m = mat.shape
    return {"n": int(n), "m": int(m), "csr": js(csr, n, m), "csc": js(csc, m, n)}


# ----------------------------------------------------------------------------- generators (C01 domain)
def gen_ids(rng, n, prefix):
    style = rng.choice(["ascii", "mixed", "mixed", "long", "natural"])
    if style == "ascii":
        return core.gen_ids(rng, n, prefix, "ascii")
    if style == "natural":
        return ["%s%d" % (prefix, i + 1) for i in range(n)]
    ids = core.gen_ids(rng, n, prefix, "mixed")
    if style == "mixed" and ids and rng.random() < 0.5:
        # fixed-width numpy ID arrays: text ending in a blank / newline, starting with a blank
        k = rng.randrange(len(ids))
        ids[k] = rng.choice([ids[k] + " ", ids[k] + "\n", " " + ids[k], ids[k] + "\u00e9\u65e5"])
    if style == "long":
        ids = [i + ("λ" if k % 2 else "_") * rng.choice([30, 60, 200]) if k < 2 else i for k, i in enumerate(ids)]
    if style == "mixed" and len(ids) >= 2 and rng.random() < 0.6:
        # NFC and NFD spellings of one text are two DISTINCT IDs of the axis; texts that trip naive text handling
        extra = core.twin_ids(rng, 1) + [prefix + x for x in rng.sample(core.NASTY_TEXTS, 2)]
        for k, x in zip(rng.sample(range(len(ids)), min(len(ids), rng.choice([2, 3, 4]))), extra):
            if x not in ids:
                ids[k] = x
    return ids


POOL = [("grp", "text"), ("na/me", "text"), ("désc", "text"), ("depth", "int"), ("big/int", "int"),
        ("ph", "float"), ("flag", "bool"), ("a/b/c", "float"), ("/lead", "bool"), ("trail/", "text")]
# names that only LOOK like the reserved hierarchical ones (other case, prefix, suffix): ordinary categories
NASTY_NAMES = ["id", "type", "shape", "nnz", "ids", "matrix", "metadata", "group-metadata", "generated-by", "S1", "Oa",
               "pct%", "%(id)s", "{brace}", "#hash", "back\\slash", " lead", "trail ", "cafe\u0301", "caf\u00e9", "\"q"]
LOOKALIKES = ["TAXONOMY", "taxonomy2", "kegg_pathways", "Collapsed_IDs", "KEGG_pathways", "xtaxonomy", "Taxonomy "]
FLAT_TAX = ["k__A; p__x", "k__B", "", " k__C ;p__y; c__z ", "k__D;;c__q", "k__β; p__x y", "k__A;p__x;c__y;o__z"]


def gen_md(rng, ids, axis, flat_ok=False):
    """per-category-homogeneous metadata, same categories on every ID"""
    if not ids or rng.random() < 0.3:
        return None
    cats = []
    pool = list(POOL)
    rng.shuffle(pool)
    cats = pool[:rng.choice([1, 1, 2, 3, 4])]
    if rng.random() < 0.3:
        cats.append((rng.choice(LOOKALIKES), rng.choice(["text", "int", "float", "bool"])))
    if rng.random() < 0.3:
        for nm in rng.sample(NASTY_NAMES, rng.choice([1, 2])):
            cats.append((nm, rng.choice(["text", "int", "float", "bool"])))
    if rng.random() < 0.5:
        sp = rng.choice(["taxonomy", "collapsed_ids"] if axis == "sample" else SPECIAL)
        if sp == "taxonomy" and flat_ok and rng.random() < 0.45:
            cats.append((sp, "flat"))          # classic-TSV style 'k__A; p__x' texts (C04 only: they come back as lists)
        else:
            cats.append((sp, rng.choice(["list", "tuple"])))
    md = []
    for i, _ in enumerate(ids):
        e = {}
        for name, kind in cats:
            if kind == "text":
                e[name] = rng.choice(TEXTS)
            elif kind == "int":
                e[name] = rng.choice([0, 1, 1, -3, 7, 2 ** 40, -2 ** 62, rng.randint(-1000, 1000)])
            elif kind == "float":
                e[name] = rng.choice([1.0, 0.0]) if rng.random() < 0.2 else \
                    core.gen_value(rng, rng.choice(["dyadic", "neg", "tiny", "big", "bits"]))
            elif kind == "bool":
                e[name] = rng.random() < 0.5
            elif kind == "flat":
                e[name] = rng.choice(FLAT_TAX)
            else:
                lvl = rng.randint(1, 4)
                v = ["%s__%s" % ("kpcofgs"[j], rng.choice(["A", "β", "x y", "q/r", "Z" * 12, "cafe\u0301", "50%", "\"q", "ls\u2028", " sp "])) for j in range(lvl)]
                e[name] = tuple(v) if kind == "tuple" else v
        md.append(e)
    if rng.random() < 0.5:
        # the same categories on every ID, inserted in a different order (records from different sources,
        # add_metadata calls reaching the IDs in another order, JSON objects with other key orders)
        out = []
        for e in md:
            ks = list(e)
            rng.shuffle(ks)
            out.append({k: e[k] for k in ks})
        md = out
    return md


def gen_case(rng, quick=True, empty_axes=True, flat_tax=False, allow_group=True):
    big = 6 if quick else 9
    n = rng.choice([1, 2, 2, 3, 3, 4, 5, big])
    m = rng.choice([1, 2, 2, 3, 3, 4, 5, big])
    classes = rng.choice([("count",), ("count", "dyadic"), ("neg", "dyadic"), ("big", "tiny"), ("bits",),
                          core.VALUE_CLASSES, ("smallcount",)])
    route = rng.choice(ROUTES + EXTRA_ROUTES)
    density = rng.choice([0.0, 0.15, 0.3, 0.5, 0.5, 0.8, 0.8, 1.0, 1.0])
    if route == "entered":
        route = "entered:%s:%s" % (rng.choice(ENTRY_HOWS), rng.choice(ENTRY_EDITS))
        if "shipped" in route:
            route += ":" + rng.choice(SHIPPED)
        if ":norm" in route or "tsv" in route:
            classes = rng.choice([("count",), ("count", "dyadic")])
        n, m = max(n, 1), max(m, 1)
    if route == "subsample_full":
        classes = rng.choice([("count",), ("smallcount",)])      # counts: subsampling needs integers
    elif route.startswith("rewrite:"):
        classes = rng.choice([("count",), ("count", "dyadic"), ("neg", "dyadic"), ("neg", "count")])
        density = rng.choice([0.3, 0.5, 0.8, 1.0])
        n, m = max(n, 2), max(m, 2)
    elif route.startswith("alias:"):
        classes = rng.choice([("count",), ("count", "dyadic"), ("neg", "dyadic")])
        density = rng.choice([0.3, 0.5, 0.8, 1.0])
        n, m = max(n, 2), max(m, 2)
    elif route.startswith("planted_zero"):
        classes = rng.choice([("neg", "dyadic"), ("neg", "count"), ("neg",)])   # signed values
        density = rng.choice([0.5, 0.8, 1.0])
        n, m = max(n, 2), max(m, 2)
    elif empty_axes and rng.random() < 0.1:
        if rng.random() < 0.5:
            n = 0
        else:
            m = 0
    obs = gen_ids(rng, n, "O")
    samp = gen_ids(rng, m, "S")
    if obs and samp and rng.random() < 0.15:
        # the same texts name an observation and a sample
        for k in range(min(len(obs), len(samp), rng.choice([1, 2, 9]))):
            if obs[k] not in samp:
                samp[k] = obs[k]
    rows = core.gen_grid(rng, n, m, density, classes) if n and m else [[] for _ in range(n)]
    if n and m and "count" not in classes and "smallcount" not in classes and rng.random() < 0.5:
        # denormals, integers above 2**24 / 2**53, non-dyadic fractions (a float32 or text detour would change them)
        for _ in range(rng.choice([1, 2, 3])):
            rows[rng.randrange(n)][rng.randrange(m)] = rng.choice(
                [16777217.0, 9007199254740993.0, 0.1, 1.0 / 3.0, 2.2250738585072014e-308, 5e-324, -1e-310,
                 1.0000000000000002, 123456.789e3])
    spec = {"obs": obs, "samp": samp, "rows": rows,
            "omd": gen_md(rng, obs, "observation", flat_tax), "smd": gen_md(rng, samp, "sample", flat_tax),
            "type": rng.choice(core.TYPES), "table_id": rng.choice(TABLE_IDS)}
    case = {"spec": spec, "route": route, "perm_seed": rng.randint(0, 10 ** 6),
            "generated_by": rng.choice(GEN_BYS), "compress": rng.random() < 0.5,
            "date": rng.choice([None, [2020, 1, 2, 3, 4, 5, 0], [1999, 12, 31, 23, 59, 59, 999999],
                                [2031, 7, 9, 0, 0, 0, 120]]),
            "ogmd": gen_gmd(rng), "sgmd": gen_gmd(rng),
            # header values the table object itself carries; the file must get the writer's ARGUMENTS
            "own": rng.choice(OWN_HEADERS),
            "writer": rng.choice(["to_hdf5", "to_hdf5", "to_hdf5", "save_table", "convert"]),
            # the caller's h5py.File may have been created with a user block (HDF5 signature not at offset 0)
            "userblock": rng.choice([0, 0, 0, 512, 1024]),
            # layout the table is left in right before the (observed) write: read-only pokes, then maybe a conversion
            "poke": rng.randint(0, 10 ** 6), "layout": rng.choice([None, None, "csc", "csr", "coo", "csc_unsorted"]),
            # how the writer is called: keywords / positional, pathlib path, explicit defaults, benign format_fs
            "call": rng.choice(["plain", "plain", "keywords", "pathlib", "format_fs_empty", "format_fs_unused",
                                "format_fs_default_f", "flag_types"]),
            # what lies at the path before the write (the same path is re-used for every case anyway)
            "stale": rng.choice([None, None, None, "json", "garbage", "hdf5"]),
            "tz": rng.random() < 0.2,                       # timezone-aware creation date
            "profile": rng.choice([None, None, "raise", "warn", "call", "warnings-are-errors"])}   # biom.err profile around write and loads
    if allow_group and rng.random() < 0.12:
        # the target is an h5py.Group that is not the root: two tables in one file, /run1 and /run2
        sib = gen_case(rng, quick, empty_axes=False, flat_tax=flat_tax, allow_group=False)
        sib["route"] = rng.choice(core.ROUTES)
        sib["writer"] = "to_hdf5"
        case["writer"] = rng.choice(["to_hdf5", "to_hdf5", "save_table"])
        case["group"] = {"pos": rng.randint(0, 1), "sibling": sib}
    return case


class Unobservable(Exception):
    """the real code raised where the property says it must not (writing a table of the domain, reading the
    written file back raw): an observation, reported as a violation by the caller"""

    def __init__(self, stage, exc, src=None, pre=None):
        Exception.__init__(self, "%s: %s: %s" % (stage, type(exc).__name__, str(exc)[:300]))
        self.stage = stage
        self.exc_name = type(exc).__name__
        self.exc_class = core.err_name(exc)
        self.src = src
        self.pre = pre


def _scratch_write(t, tmp, gen_by="first writer", date=None):
    """a first, unobserved write of `t` with the real code (its file is removed at once)"""
    import h5py
    path = os.path.join(tmp, "first_%d.biom" % os.getpid())
    fresh(path)
    try:
        with h5py.File(path, "w") as f:
            t.to_hdf5(f, gen_by, creation_date=date)
    except Exception as e:                          # noqa: BLE001 — a write of a table of the domain raised
        raise Unobservable("write", e)
    finally:
        if os.path.exists(path):
            os.remove(path)


def _rewrite(t, op, spec, rng, tmp):
    """write once, modify IN PLACE, hand the table back for the second (observed) write"""
    import numpy as np
    _scratch_write(t, tmp)
    axis = "observation" if op.endswith("_obs") else "sample"
    ids = list(t.ids(axis=axis))
    with np.errstate(all="ignore"):
        if op.startswith("transform"):
            t.transform(lambda v, i, md: v * 0.5 + 0.0, axis=axis, inplace=True)
        elif op.startswith("norm"):
            if (t.matrix_data.data < 0).any() or t.matrix_data.nnz == 0 or (np.asarray(t.sum(axis=axis)) == 0).any():
                t.transform(lambda v, i, md: v * 4.0, axis=axis, inplace=True)
            else:
                t.norm(axis=axis, inplace=True)
        elif op == "pa":
            t.pa(inplace=True)
        elif op.startswith("rankdata"):
            t.rankdata(axis=axis, inplace=True)
        elif op.startswith("filter"):
            keep = [x for k, x in enumerate(ids) if (k + rng.randint(0, 1)) % 2 == 0] or ids[:1]
            t.filter(keep, axis=axis, inplace=True)
        elif op.startswith("update_ids"):
            # new IDs longer than every existing one (fixed-width ID arrays), with multi-byte characters
            longest = max(len(x) for x in ids)
            t.update_ids({x: x + "\u00e9" * (1 + (longest if k == 0 else 0)) for k, x in enumerate(ids)}, axis=axis,
                         inplace=True)
        elif op.startswith("rotate_ids"):
            # every ID takes the name of its neighbour: all names stay, every lookup changes
            t.update_ids({x: ids[(k + 1) % len(ids)] for k, x in enumerate(ids)}, axis=axis, inplace=True)
        elif op.startswith("del_metadata"):
            md = t.metadata(axis=axis)
            keys = sorted(md[0]) if md else []
            if len(keys) >= 2:
                t.del_metadata(keys=[keys[rng.randrange(len(keys))]], axis=axis)
            else:
                t.transform(lambda v, i, md_: v * 2.0, axis=axis, inplace=True)
        elif op.startswith("mutate_md"):
            md = t.metadata(axis=axis)
            keys = [k for k in sorted(md[0]) if isinstance(md[0][k], str)] if md else []
            if keys:
                for e in md:                     # the dict objects the table holds, changed directly
                    e[keys[0]] = e[keys[0]] + " (edited)"
            else:
                t.transform(lambda v, i, md_: v * 2.0, axis=axis, inplace=True)
        elif op.startswith("add_metadata"):
            t.add_metadata({x: {"added": "v%d" % k} for k, x in enumerate(ids)}, axis=axis)
        elif op == "nothing":
            pass
        else:
            raise ValueError(op)
    return t


def _plant_zero(t, how, rng):
    """a stored zero planted through the public `matrix_data` handle after construction, next to a negative value"""
    import warnings
    m = t.matrix_data
    if m.nnz < 2:
        return t, False
    k = rng.randrange(m.nnz)
    others = [q for q in range(m.nnz) if q != k]
    if not any(m.data[q] < 0 for q in others):
        m.data[rng.choice(others)] = -3.0            # keep a negative value in the table
    if how == "data":
        m.data[k] = 0.0
    else:
        coo = m.tocoo()
        i, j = int(coo.row[k]), int(coo.col[k])
        if float(m[i, j]) < 0 and sum(1 for v in m.data if v < 0) < 2:
            k2 = others[0]
            i, j = int(coo.row[k2]), int(coo.col[k2])
            if float(m[i, j]) < 0:
                return t, False
        with warnings.catch_warnings():
            warnings.simplefilter("ignore")
            m[i, j] = 0.0
    planted = bool((t.matrix_data.data == 0).any()) and bool((t.matrix_data.data < 0).any())
    return t, planted


def _entered(case, parts, finish, rng, tmp):
    """the table to write comes out of a reader; `parts` = ['entered', source, reader, edit(, shipped file)]"""
    import io
    import h5py
    import numpy as np
    import biom
    from biom import Table
    _, source, reader, edit = parts[:4]
    spec = case["spec"]
    path = os.path.join(tmp, "entry_%d" % os.getpid())
    fresh(path)
    try:
        if source == "shipped":
            root = core.REPO if os.path.exists(os.path.join(core.REPO, "examples")) else "/repo"
            t = biom.load_table(os.path.join(root, parts[4]))
        else:
            first = finish(core.build(spec, "dense"))
            if source == "h5_20":
                try:
                    with h5py.File(path, "w") as f:
                        first.to_hdf5(f, "an old writer", creation_date=datetime.datetime(2014, 7, 29, 16, 16, 36))
                except Exception as e:                  # noqa: BLE001
                    raise Unobservable("write", e)
                with h5py.File(path, "r+") as f:        # the file announces BIOM 2.0 (same groups and datasets)
                    f.attrs["format-version"] = np.array([2, 0])
                    if rng.random() < 0.5:              # … and carries another producer's ctime()-style date
                        f.attrs["creation-date"] = "Tue Jul 29 16:16:36 2014"
                try:
                    if reader == "load_table":
                        t = biom.load_table(path)
                    else:
                        with h5py.File(path, "r") as f:
                            t = Table.from_hdf5(f) if reader == "from_hdf5" else biom.parse_table(f)
                except Exception as e:                  # noqa: BLE001
                    raise Unobservable("load", e)
            elif source == "json":
                text = first.to_json("json writer")
                if reader == "from_json":
                    import json as _json
                    t = Table.from_json(_json.loads(text))
                elif reader == "parse_table":
                    t = biom.parse_table(io.StringIO(text))
                else:
                    open(path, "w").write(text)
                    t = biom.load_table(path)
            else:
                text = first.to_tsv()
                if reader == "from_tsv":
                    t = Table.from_tsv(text.splitlines(), None, None, lambda x: x)
                else:
                    open(path, "w").write(text)
                    t = biom.load_table(path)
    finally:
        if os.path.exists(path):
            os.remove(path)
    with np.errstate(all="ignore"):
        nonempty = t.shape[0] > 0 and t.shape[1] > 0
        if edit == "transform" and nonempty:
            t.transform(lambda v, i, md: v * 0.5 + 0.0, axis=rng.choice(["sample", "observation"]), inplace=True)
        elif edit == "norm" and nonempty and t.matrix_data.nnz and not (t.matrix_data.data < 0).any() \
                and not (np.asarray(t.sum(axis="sample")) == 0).any():
            t.norm(inplace=True)
        elif edit == "pa" and nonempty:
            t.pa(inplace=True)
        elif edit == "update_ids" and nonempty:
            t.update_ids({x: x + "_renamed" for x in t.ids()}, inplace=True)
        elif edit == "add_metadata" and nonempty:
            t.add_metadata({x: {"added": "v%d" % k} for k, x in enumerate(t.ids())}, axis="sample")
        elif edit == "filter" and t.shape[1] > 1:
            t.filter(list(t.ids())[:-1], inplace=True)
    return t


def build_table(case, tmp=None):
    """materialise a case through its layout route / operation history; returns the table to write"""
    import random
    import numpy as np
    import scipy.sparse as sp
    from biom import Table
    spec = case["spec"]
    route = case["route"]
    n, m = len(spec["obs"]), len(spec["samp"])
    rng = random.Random(case["perm_seed"])
    tmp = tmp or os.path.join(TMP, str(os.getpid()))
    os.makedirs(tmp, exist_ok=True)

    def finish(t, gmd=True):
        if gmd:
            t._observation_group_metadata = copy.deepcopy(case.get("ogmd"))
            t._sample_group_metadata = copy.deepcopy(case.get("sgmd"))
            t._cast_metadata()
        own = case.get("own")
        if own:
            t.generated_by = own["generated_by"]
            cd = own["create_date"]
            t.create_date = None if cd is None else cd if isinstance(cd, str) else datetime.datetime(*cd)
        return t

    if n == 0 or m == 0:
        # a dense (1,0)/(0,1) ndarray is turned into a 0x0 matrix by the constructor (the table then has
        # one ID and no vector: not a table of the domain), so empty axes are built from a scipy matrix
        arr = sp.csr_matrix((n, m), dtype=float) if case.get("perm_seed", 0) % 2 == 0 or (n, m) in ((1, 0), (0, 1)) \
            else np.zeros((n, m))
        t = Table(arr, spec["obs"], spec["samp"], copy.deepcopy(spec.get("omd")), copy.deepcopy(spec.get("smd")),
                  type=spec.get("type"), table_id=spec.get("table_id"))
        return finish(t)
    if route in core.ROUTES:
        return finish(core.build(spec, route))
    if route.startswith("rewrite:"):
        t = finish(core.build(spec, rng.choice(["csr", "csc", "dense", "coo"])))
        return _rewrite(t, route.split(":", 1)[1], spec, rng, tmp)
    if route.startswith("entered:"):
        return _entered(case, route.split(":"), finish, rng, tmp)
    if route.startswith("alias:"):
        _, how, which = route.split(":")
        src_t = finish(core.build(spec, rng.choice(["csr", "csc", "dense"])))
        if how == "copy":
            der = src_t.copy()
        elif how == "sort_order":
            order = list(src_t.ids()); rng.shuffle(order)
            der = src_t.sort_order(order)
        elif how == "transpose":
            der = src_t.transpose()
        elif how == "filter":
            ids_ = list(src_t.ids(axis="observation"))
            der = src_t.filter(ids_[: max(1, len(ids_) - 1)], axis="observation", inplace=False)
        else:   # a second table built on the very matrix / metadata objects of the first
            der = Table(src_t.matrix_data, src_t.ids(axis="observation"), src_t.ids(), src_t.metadata(axis="observation"),
                        src_t.metadata(), type=src_t.type, table_id=src_t.table_id)
        first, second = (der, src_t) if which == "check_source" else (src_t, der)
        _scratch_write(first, tmp)
        with np.errstate(all="ignore"):
            first.transform(lambda v, i, md_: v * 0.5 + 0.0, axis=rng.choice(["sample", "observation"]), inplace=True)
            if first.metadata() is not None:
                first.add_metadata({x: {"added": "z"} for x in first.ids()}, axis="sample")
        _scratch_write(first, tmp)
        case["_keep_alive"] = first                 # stays alive while `second` is written and read back
        return second
    if route.startswith("planted_zero"):
        t = finish(core.build(spec, rng.choice(["csr", "csc", "dense"])))
        t, planted = _plant_zero(t, route.split(":", 1)[1], rng)
        case["_planted"] = planted
        return t
    if route == "reloaded":
        # the table that is written was itself loaded from a file: it carries that file's generated-by and date
        import h5py
        import biom
        first = finish(core.build(spec, "dense"))
        path = os.path.join(tmp, "first_%d.biom" % os.getpid())
        fresh(path)
        try:
            try:
                with h5py.File(path, "w") as f:
                    first.to_hdf5(f, "first writer", creation_date=datetime.datetime(2001, 2, 3, 4, 5, 6))
            except Exception as e:                  # noqa: BLE001
                raise Unobservable("write", e)
            try:
                t = biom.load_table(path)
            except Exception as e:                  # noqa: BLE001
                raise Unobservable("load", e)
            for axis in ("observation", "sample"):
                g = t.group_metadata(axis)
                if g and rng.random() < 0.5:        # give the first entry its data type again (public call)
                    k0 = list(g)[0]
                    t.add_group_metadata({k0: ("newick", g[k0])}, axis=axis)
        finally:
            if os.path.exists(path):
                os.remove(path)
        return t
    base = core.build(spec, "dense")
    if route == "dok":
        arr = np.array(spec["rows"], dtype=float).reshape(n, m)
        t = Table(sp.dok_matrix(arr), spec["obs"], spec["samp"], copy.deepcopy(spec.get("omd")),
                  copy.deepcopy(spec.get("smd")), type=spec.get("type"), table_id=spec.get("table_id"))
    elif route == "sort_order":
        so = list(spec["samp"]); rng.shuffle(so)
        oo = list(spec["obs"]); rng.shuffle(oo)
        t = base.sort_order(so).sort_order(oo, axis="observation")
        t.table_id = spec.get("table_id")
    elif route == "subsample_full":
        sums = base.sum(axis="sample")
        depth = int(min(sums)) if len(sums) else 0
        if depth >= 1:
            t = base.subsample(depth, seed=case["perm_seed"])      # drops nothing only for the smallest sample
        else:
            t = base.copy()
        t.table_id = spec.get("table_id")
        t.type = spec.get("type")
    elif route == "filter_half":
        keep = [s for i, s in enumerate(spec["samp"]) if i % 2 == 0] or list(spec["samp"])
        t = base.filter(keep, inplace=False)
        t.table_id = spec.get("table_id")
    elif route == "accessors":
        t = base
        with np.errstate(all="ignore"):
            _ = t.nnz, t.sum(), list(t.iter(axis="observation")), t.matrix_data.tocsc(), t.get_table_density()
        t._data = t._data.tocsc()            # the layout `_get_sparse_data`-style conversions leave behind
    elif route == "copy":
        t = base.copy()
    else:
        raise ValueError(route)
    return finish(t)


def case_date(case):
    d = case.get("date")
    if d is None:
        return None
    if case.get("tz"):
        return datetime.datetime(*d, tzinfo=datetime.timezone(datetime.timedelta(hours=2, minutes=30)))
    return datetime.datetime(*d)


def public(case):
    """the case without harness-internal entries (objects kept alive, flags)"""
    out = {k: v for k, v in case.items() if not k.startswith("_")}
    if out.get("group"):
        out["group"] = dict(out["group"], sibling=public(out["group"]["sibling"]))
    return out


class profile_of:
    """run the code under test under a non-default biom.err profile (only kinds that cannot fire on the table)"""

    def __init__(self, case, src=None):
        self.cm = None
        prof = case.get("profile")
        self.strict = prof == "warnings-are-errors"
        if prof and not self.strict:
            import biom.err
            empty_possible = src is None or not src["obs"] or not src["samp"]
            if prof == "raise" and empty_possible:
                prof = "warn"
            self.cm = biom.err.errstate(empty=prof)
        import warnings
        self.w = warnings.catch_warnings()

    def __enter__(self):
        import warnings
        self.w.__enter__()
        # a caller's warnings filter: nothing the library does on a table of the domain may depend on it
        warnings.simplefilter("error" if self.strict else "ignore")
        if self.cm is not None:
            self.cm.__enter__()

    def __exit__(self, *a):
        if self.cm is not None:
            self.cm.__exit__(*a)
        self.w.__exit__(*a)
        return False


def plant_stale(case, path):
    st = case.get("stale")
    if st == "json":
        open(path, "w").write('{"id": "stale", "format": "Biological Observation Matrix 1.0.0", "rows": []}')
    elif st == "garbage":
        open(path, "wb").write(b"\x00\x01not a table" * 50)
    elif st == "hdf5":
        import h5py
        with h5py.File(path, "w") as f:
            f.attrs["id"] = "stale file"
            f.create_group("observation/metadata").create_dataset("old", data=[1, 2, 3])


def leave_layout(t, case):
    """read-only pokes, then (a share of the cases) an explicit conversion of the stored matrix"""
    import random
    done = core.poke_layout(t, random.Random(case.get("poke", 0)))
    lay = case.get("layout")
    if t.shape[0] == 0 or t.shape[1] == 0:
        return done
    if lay in ("csc", "csr", "coo"):
        t._data = t._data.asformat(lay)
    elif lay == "csc_unsorted":
        m = t._data.tocsc()
        for j in range(m.shape[1]):
            a, b = m.indptr[j], m.indptr[j + 1]
            m.indices[a:b] = m.indices[a:b][::-1].copy()
            m.data[a:b] = m.data[a:b][::-1].copy()
        m.has_sorted_indices = False
        t._data = m
    return done + ([lay] if lay else [])



# ONE dict object handed to many calls as `format_fs` / `parse_fs`: the library must leave it as it is
REUSED_FORMAT_FS = {}
REUSED_PARSE_FS = {}


def reused_args_untouched(ctx):
    if REUSED_FORMAT_FS or REUSED_PARSE_FS:
        ctx.fail({"case": None}, "%s.caller-argument-dict-changed" % ctx.prop, ["reused-argument"],
                 detail={"format_fs": sorted(map(str, REUSED_FORMAT_FS)), "parse_fs": sorted(map(str, REUSED_PARSE_FS))})
        REUSED_FORMAT_FS.clear()
        REUSED_PARSE_FS.clear()
    else:
        ctx.count("argument dicts re-used across calls left unchanged")


def group_name(case):
    g = case.get("group")
    return None if not g else "run%d" % (g["pos"] + 1)


def write_file(case, t, path, tmp=None):
    """write with the real code; returns (generated_by actually passed, date passed or None)"""
    import h5py
    import biom
    from biom.parse import save_table, generatedby
    w = case["writer"]
    date = case_date(case)
    if case.get("group"):
        # two tables in one file: this one and its sibling, each in its own (non-root) group
        sib_case = case["group"]["sibling"]
        sib = build_table(sib_case, tmp)
        order = [(case, t), (sib_case, sib)] if case["group"]["pos"] == 0 else [(sib_case, sib), (case, t)]
        with h5py.File(path, "w") as f:
            # something else lives at the root of the file, next to the groups that hold the tables
            f.attrs["id"] = "not a table"
            f.attrs["shape"] = [99, 99]
            f.create_dataset("notes", data=[1, 2, 3])
            f.create_group("observation").create_dataset("ids", data=[b"decoy"])
            for k, (cs, tab) in enumerate(order):
                g = f.create_group("run%d" % (k + 1))
                if cs["writer"] == "save_table":
                    save_table(tab, g, generated_by=cs["generated_by"], compress=cs["compress"],
                               creation_date=case_date(cs))
                else:
                    tab.to_hdf5(g, cs["generated_by"], compress=cs["compress"], creation_date=case_date(cs))
        return case["generated_by"], date
    call = case.get("call", "plain")
    if w == "to_hdf5":
        import biom.table as bt
        ub = case.get("userblock") or 0
        with (h5py.File(path, "w", userblock_size=ub) if ub else h5py.File(path, "w")) as f:
            if call == "keywords":
                t.to_hdf5(h5grp=f, generated_by=case["generated_by"], compress=case["compress"], format_fs=None,
                          creation_date=date)
            elif call == "format_fs_empty":
                t.to_hdf5(f, case["generated_by"], case["compress"], REUSED_FORMAT_FS, date)   # all positional
            elif call == "format_fs_unused":
                t.to_hdf5(f, case["generated_by"], compress=case["compress"], creation_date=date,
                          format_fs={"no such category": _poison_formatter})
            elif call == "format_fs_default_f":
                # the library's own formatters handed in explicitly: same file as the default call
                fs = {k: bt.general_formatter for k in ("grp", "depth", "ph", "flag", "na/me", "TAXONOMY")}
                fs.update({k: bt.vlen_list_of_str_formatter for k in SPECIAL})
                t.to_hdf5(f, case["generated_by"], compress=case["compress"], creation_date=date, format_fs=fs)
            elif call == "flag_types":
                import numpy as np
                flag = (np.True_ if case["compress"] else np.False_) if case.get("poke", 0) % 2 else int(case["compress"])
                t.to_hdf5(f, case["generated_by"], compress=flag, creation_date=date)
            else:
                t.to_hdf5(f, case["generated_by"], compress=case["compress"], creation_date=date)
        return case["generated_by"], date
    if w == "save_table":
        import pathlib
        target = pathlib.Path(path) if call == "pathlib" else path
        if case["compress"] and call not in ("keywords", "pathlib"):
            save_table(t, target)                   # default keyword arguments
            return generatedby(), None
        if call == "keywords":
            with h5py.File(path, "w") as f:         # an open handle as the target, the format spelled out
                save_table(t, f, format_="2.1.0", generated_by=case["generated_by"], compress=case["compress"],
                           creation_date=date)
        else:
            save_table(t, target, generated_by=case["generated_by"], compress=case["compress"], creation_date=date)
        return case["generated_by"], date
    if w == "convert":
        from biom.cli.table_converter import _convert
        kw = {}
        if call == "keywords" and t.metadata(axis="observation") is not None:
            kw["collapsed_observations"] = True     # metadata replaced by {'collapsed_ids': sorted(keys)}
        if call == "pathlib" and t.metadata() is not None:
            kw["collapsed_samples"] = True
        _convert(t, path, to_hdf5=True, table_type=case["spec"].get("type"), **kw)
        case["_src_after"] = bool(kw)
        return generatedby(), None
    raise ValueError(w)


# ----------------------------------------------------------------------------- process-level state
def _poison_formatter(grp, header, md, compression):
    import h5py
    name = "metadata/%s" % header.replace("/", "@@SLASH@@")
    grp.create_dataset(name, shape=(len(md),), dtype=h5py.special_dtype(vlen=str), data=[b"POISON"] * len(md))


def poison_process(ctx, tmp):
    """a to_hdf5 with a caller-supplied `format_fs` and a from_hdf5 with a caller-supplied `parse_fs` for the very
    category names the default cases use afterwards: nothing of it may stay registered in the process"""
    import h5py
    import numpy as np
    from biom import Table
    names = [n for n, _ in POOL] + SPECIAL + LOOKALIKES + ["k", "added"]
    md = [{n: "Value%d" % i for n in names} for i in range(2)]
    md2 = [{n: "Value%d" % i for n in names if n not in SPECIAL} for i in range(3)]
    path = os.path.join(tmp, "poison_%d.biom" % os.getpid())
    fresh(path)
    try:
        t = Table(np.array([[1.0, 2.0, 0.0], [0.0, 3.0, 4.0]]), ["p1", "p2"], ["q1", "q2", "q3"], md, md2)
        with h5py.File(path, "w") as f:
            t.to_hdf5(f, "poison", format_fs={n: _poison_formatter for n in names})
        with h5py.File(path, "r") as f:
            Table.from_hdf5(f, parse_fs={n: (lambda x: "POISONED") for n in names})
        ctx.count("custom format_fs/parse_fs call made before default round trips")
    except Exception as e:                          # noqa: BLE001 — the custom call itself is not what is checked
        ctx.count("custom format_fs/parse_fs call raised")
        ctx.notes.append("custom format_fs/parse_fs call raised: %s: %s" % (type(e).__name__, str(e)[:200]))
    finally:
        if os.path.exists(path):
            os.remove(path)


def fresh(path):
    os.makedirs(os.path.dirname(path), exist_ok=True)
    if os.path.exists(path):
        os.remove(path)


def prepare(case, tmp):
    """build the table (history included) and observe it; -> (table, src observation, scipy fallback views)"""
    try:
        t = build_table(case, tmp)
    except Unobservable:
        raise
    except Exception as e:                          # noqa: BLE001 — an operation of the history itself raised
        raise Unobservable("history", e)
    if case["writer"] == "convert" and not case.get("group"):
        # `_convert` sets the type before writing (its --table-type argument, else 'Table' for an untyped table):
        # the table that is written is the one after that
        if case["spec"].get("type") is not None:
            t.type = case["spec"]["type"]
        elif t.type in (None, "None"):
            t.type = "Table"
    src = src_obs(t)
    pre = scipy_views(t)
    case["_layout"] = leave_layout(t, case)      # last thing before the write
    return t, src, pre


def after_write(case, t, src):
    """writing must not change the table: its observation after the write is compared with the one before
    (`_convert` with a collapse flag replaces the metadata on purpose: then the later observation is the table)"""
    after = src_obs(t)
    if case.get("_src_after"):
        return after
    if after != src:
        case["_mutated"] = [k for k in src if after.get(k) != src[k]]
    return src


def write_and_read_raw(case, tmp=TMP, tag="c"):
    """-> (src observation, scipy fallback views, raw tree, generated_by, date) ; file removed.
    Raises Unobservable when the writer or the raw re-read raises."""
    t, src, pre = prepare(case, tmp)
    path = os.path.join(tmp, "%s_%d.biom" % (tag, os.getpid()))
    fresh(path)
    plant_stale(case, path)
    try:
        try:
            case["_t0"] = datetime.datetime.now()
            with profile_of(case, src):
                gen_by, date = write_file(case, t, path, tmp)
            case["_t1"] = datetime.datetime.now()
        except Exception as e:                      # noqa: BLE001
            u = Unobservable("write", e, src, pre)
            try:
                u.mutated = src_obs(t) != src       # a refused write must leave the table as it was
            except Exception:                       # noqa: BLE001
                u.mutated = True
            raise u
        try:
            raw = raw_tree(path, group_name(case))     # first thing after the write
        except Exception as e:                      # noqa: BLE001
            raise Unobservable("raw-read", e, src)
        src = after_write(case, t, src)
    finally:
        if os.path.exists(path):
            os.remove(path)
    return src, pre, raw, gen_by, date


def expected_date(case, raw, date):
    """the ISO text the creation-date attribute must hold: the supplied date, else a reading of the clock taken
    during the call (the clock is an input of the model: the attribute is accepted as that reading only if it
    parses as an ISO 8601 date-time lying between the start and the end of the write)"""
    if date is not None:
        return date.isoformat()
    now = attr_of(raw, "creation-date")
    v = (now or {}).get("v") if isinstance(now, dict) else None
    t0, t1 = case.get("_t0"), case.get("_t1")
    try:
        d = datetime.datetime.fromisoformat(v)
        if d.tzinfo is None and t0 is not None and t0 <= d <= t1 and d.isoformat() == v:
            return v
    except (TypeError, ValueError):
        pass
    return "<ISO 8601 reading of the clock between %s and %s>" % (t0, t1)


def request(case, src, pre, raw, gen_by, date):
    csr, csc = views(raw, pre)
    exp = expected_date(case, raw, date)
    return {"src": src, "raw": raw, "generated_by": gen_by, "date": exp, "now": exp, "csr": csr, "csc": csc,
            "compress": case["compress"]}


def unsorted_view(cs):
    ip, ix = cs["indptr"], cs["indices"]
    return any(ix[k] > ix[k + 1] for a, b in zip(ip, ip[1:]) for k in range(a, b - 1))


def nontrivial(src):
    return len(src["obs"]) >= 2 and len(src["samp"]) >= 2 and any(v != "0" for r in src["rows"] for v in r)


def tags_of(case, src):
    tags = ["route=" + case["route"], "writer=" + case["writer"], "compress=%s" % case["compress"]]
    if case.get("own"):
        tags.append("table-carries-own-generated_by")
    for k in ("call", "stale", "profile"):
        if case.get(k) and case.get(k) != "plain":
            tags.append("%s=%s" % (k, case[k]))
    if case.get("tz") and case.get("date"):
        tags.append("timezone-aware date")
    if len(src["obs"]) >= 64 or len(src["samp"]) >= 64:
        tags.append("wide (>= 64 IDs on an axis)")
    if case.get("group"):
        tags.append("target=non-root group (two tables per file)")
    elif case.get("userblock") and case["writer"] == "to_hdf5":
        tags.append("file with user block")
    if not src["obs"] or not src["samp"]:
        tags.append("empty-axis")
    if any(ord(ch) > 127 for i in src["obs"] + src["samp"] for ch in i):
        tags.append("non-ascii-id")
    return tags


def check_case(ctx, case, tmp=TMP):
    if hasattr(ctx, "journal"):
        ctx.journal({"case": public(case)})
    try:
        src, pre, raw, gen_by, date = write_and_read_raw(case, tmp)
    except Unobservable as u:
        ctx.case({"case": case, "unobservable": u.stage}, nontrivial=False)
        if u.stage == "history":
            # an operation that only prepares the table raised: not this property's subject; counted and noted
            ctx.count("history-raised(skipped):" + case["route"])
            ctx.notes.append("history raised, case skipped: %s" % u)
            return None
        if u.src is not None and not ctx.driver.ask({"op": "domain", "src": u.src})["in_domain"]:
            # e.g. a re-loaded table whose hierarchical category holds None on every ID: outside the domain
            ctx.count("raised on a table outside the theorems' domain (not a violation):" + u.stage)
            return None
        ctx.fail({"case": public(case)}, "C04.%s-raised" % u.stage, ["route=" + case["route"], "writer=" + case["writer"],
                                                                    "exc=" + u.exc_name], detail={"what": str(u), "src": u.src})
        return None
    req = request(case, src, pre, raw, gen_by, date)
    r = ctx.driver.ask(req)
    tags = tags_of(case, src)
    if case.get("_mutated"):
        ctx.fail({"case": public(case)}, "C04.writer-changed-the-table", tags, detail={"fields": case["_mutated"]})
    for what in case.get("_layout") or []:
        ctx.count("before write: " + str(what))
    if case.get("_planted"):
        ctx.count("stored zero planted next to a negative value before the write")
    ctx.count("table inside the theorems' metadata domain" if r.get("in_domain") else
              "table outside the theorems' metadata domain (holds still evaluated)")
    ctx.case({"src": src, "gen": gen_by, "date": req["date"], "raw": raw}, nontrivial=nontrivial(src))
    for tg in tags:
        ctx.count(tg)
    if unsorted_view(req["csr"]) or unsorted_view(req["csc"]):
        ctx.count("file holds a view with unsorted indices")
    ctx.count("shape=%s" % ("0xM" if not src["obs"] else "Nx0" if not src["samp"] else
                             "all-zero" if not any(v != "0" for r_ in src["rows"] for v in r_) else "NxM"))
    for ax in ("omd", "smd"):
        if src[ax]:
            for k, v in src[ax][0]:
                ctx.count("md=" + v["t"] + ("/special" if k in SPECIAL else "/lookalike" if k in LOOKALIKES else "") +
                          ("/slash" if "/" in k else ""))
    rec = {"case": public(case)}
    if not r["model_holds"] and r["model"].get("error") is None:
        ctx.diverge(rec, "holds is false of toH5 on the layouts found in the file (layout contract broken, or toH5_specWF contradicted)", tags)
    if not r["holds"]:
        ctx.fail(rec, "C04." + str(r["clause"]), tags, detail={"raw": raw, "decode": r.get("decode")})
    elif not r["agree"]:
        ctx.diverge(rec, "raw tree differs from toH5", tags, detail={"model": r["model"], "raw": r["raw_canon"]})
    return r


# the repaired defects first (F-C04-1: ids dtype of an empty axis; F-C01-1: non-ASCII ids)
CORPUS = [
    # repaired 21119f91: write -> load -> write again with group metadata (payloads of length 2 and != 2)
    {"spec": {"obs": ["o1", "o2"], "samp": ["s1", "s2"], "rows": [[1.0, 2.0], [3.0, 4.0]], "omd": None, "smd": None,
              "type": "OTU table"},
     "route": "reloaded", "perm_seed": 0, "generated_by": "second writer", "compress": True, "date": [2020, 1, 2, 3, 4, 5, 0],
     "ogmd": {"tree": ("newick", "(a,b);"), "k": ("text", "ab")}, "sgmd": {"rel": ("text", "xy")}, "own": None,
     "writer": "to_hdf5"},
    {"spec": {"obs": ["o1", "o2"], "samp": ["s1", "s2"], "rows": [[0.0, 2.0], [3.0, 0.0]], "omd": None, "smd": None,
              "type": None},
     "route": "reloaded", "perm_seed": 0, "generated_by": "second writer", "compress": False, "date": None,
     "ogmd": {"k": ("text", "ab")}, "sgmd": {"tree": ("newick", "((é,ö),c);")}, "own": None, "writer": "save_table"},
    {"spec": {"obs": [], "samp": ["s1", "s2", "s3"], "rows": [], "omd": None, "smd": None, "type": None},
     "route": "dense", "perm_seed": 0, "generated_by": "x", "compress": True, "date": None, "ogmd": None, "sgmd": None,
     "writer": "to_hdf5"},
    {"spec": {"obs": ["o1", "o2"], "samp": [], "rows": [[], []], "omd": None, "smd": None, "type": "OTU table"},
     "route": "dense", "perm_seed": 0, "generated_by": "x", "compress": False, "date": [2020, 1, 2, 3, 4, 5, 0],
     "ogmd": None, "sgmd": None, "writer": "to_hdf5"},
    {"spec": {"obs": [], "samp": [], "rows": [], "omd": None, "smd": None, "type": None},
     "route": "dense", "perm_seed": 0, "generated_by": "x", "compress": True, "date": None, "ogmd": None, "sgmd": None,
     "writer": "save_table"},
    {"spec": {"obs": ["ö1", "o2"], "samp": ["s1", "sé2"], "rows": [[1.0, 2.0], [3.0, 4.0]],
              "omd": [{"k": "x"}, {"k": "ü"}], "smd": None, "type": None},
     "route": "dense", "perm_seed": 0, "generated_by": "x", "compress": True, "date": None, "ogmd": None, "sgmd": None,
     "writer": "to_hdf5"},
    {"spec": {"obs": ["a", "b", "c"], "samp": ["x", "y"], "rows": [[0.0, 0.0], [0.0, 0.0], [0.0, 0.0]],
              "omd": None, "smd": None, "type": "Taxon table"},
     "route": "csr_zeros", "perm_seed": 0, "generated_by": "x", "compress": True, "date": None, "ogmd": None,
     "sgmd": None, "writer": "to_hdf5"},
]


def wide_cases(rng):
    """size thresholds: >= 64 IDs on an axis (both axes), texts >= 64 KiB, long multi-byte IDs"""
    out = []
    for axis, n_axis in (("sample", None), ("observation", None), (rng.choice(["sample", "observation"]), 520)):
        spec = core.wide_spec(rng, n_axis=n_axis, other=2 if n_axis else None, axis=axis,
                              classes=rng.choice([("count",), ("neg", "dyadic")]), md=n_axis is None)
        spec["table_id"] = None
        if axis == "sample" and spec["smd"] is not None:
            spec["samp"] = [s_ + ("\u00e9" if k % 7 == 0 else "") for k, s_ in enumerate(spec["samp"])]
            spec["smd"] = [dict(e, taxonomy=["k__%d" % (k % 5)] * (1 + k % 3), depth=k) for k, e in enumerate(spec["smd"])]
        case = gen_case(rng, True, empty_axes=False, allow_group=False)
        case.update(spec=spec, route=rng.choice(["csc", "csr_unsorted", "sort_order", "rewrite:transform_samp", "coo"]))
        out.append(case)
    big = gen_case(rng, True, empty_axes=False, allow_group=False)
    txt = "".join(chr(0x3b1 + (k % 20)) for k in range(40000))             # 80 KB of utf-8
    big.update(spec={"obs": ["O" + "\u65e5" * 300, "o2"], "samp": ["s1", "s2" + "x" * 70000, "s3"],
                     "rows": [[1.0, 0.0, 2.0], [0.0, 3.5, 0.0]],
                     "omd": [{"note": txt, "taxonomy": ["k__" + "Z" * 70000]}, {"note": "short", "taxonomy": ["k__a", "p__b"]}],
                     "smd": None, "type": "OTU table", "table_id": "big texts"},
               route="dense", ogmd={"tree": ("newick", "(" + ",".join("t%d" % k for k in range(12000)) + ");")}, sgmd=None)
    out.append(big)
    return out


def _fixed(omd=None, smd=None, **kw):
    spec = {"obs": ["o1", "o2", "o3"], "samp": ["s1", "s2"], "rows": [[1.0, 0.0], [0.0, 2.5], [3.0, 4.0]],
            "omd": omd, "smd": smd, "type": kw.get("type"), "table_id": kw.get("table_id")}
    case = {"spec": spec, "route": "dense", "perm_seed": 0, "generated_by": "x", "compress": False,
            "date": [2020, 1, 2, 3, 4, 5, 0], "ogmd": None, "sgmd": None, "own": None, "writer": "to_hdf5", "userblock": 0}
    case.update({k: v for k, v in kw.items() if k not in ("type", "table_id")})
    return case


# inputs of the classes found by adversarial review, fixed (both checks run them first)
CORPUS_R2 = [
    # names that only look like the reserved hierarchical ones, with text / numeric values
    _fixed(omd=[{"TAXONOMY": "a", "kegg_pathways": 1, "site/name": "x"}, {"TAXONOMY": "b", "kegg_pathways": 2, "site/name": "y"},
                {"TAXONOMY": "", "kegg_pathways": 3, "site/name": "z"}],
           smd=[{"Collapsed_IDs": 1.5, "taxonomy2": "q"}, {"Collapsed_IDs": -2.0, "taxonomy2": "r"}]),
    # the caller's file has a user block
    _fixed(userblock=512, smd=[{"grp": "a"}, {"grp": "b"}]),
    _fixed(userblock=1024),
]
_sib = _fixed(omd=[{"depth": 1}, {"depth": 2}, {"depth": 3}], table_id="sibling", type="OTU table")
_sib["spec"]["rows"] = [[0.0, 7.0], [8.0, 0.0], [0.0, 0.0]]
# two tables in one file, each in a non-root group; each of the two is checked
CORPUS_R2 += [_fixed(group={"pos": 0, "sibling": _sib}, table_id="first"),
              _fixed(group={"pos": 1, "sibling": _sib}, table_id="second", writer="save_table")]
# tables entering through a reader of a 2.0-announcing file (seed C04-c3), then written
CORPUS_R2 += [_fixed(route="entered:h5_20:load_table:none", omd=[{"grp": "a"}, {"grp": "b"}, {"grp": "c"}]),
              _fixed(route="entered:h5_20:from_hdf5:norm"),
              _fixed(route="entered:shipped:any:transform:biom/tests/test_data/test.biom"),
              _fixed(route="entered:json:load_table:none", smd=[{"depth": 1}, {"depth": 2}])]
# C04 only: flat classic-TSV taxonomy texts (one row per ID, also for '' and for a text without ';')
CORPUS_FLAT = [_fixed(omd=[{"taxonomy": "k__A; p__x"}, {"taxonomy": ""}, {"taxonomy": "k__C"}]),
               _fixed(omd=[{"taxonomy": ""}, {"taxonomy": " k__B ;p__y; c__z "}, {"taxonomy": "k__D;;c__q"}])]


def _edge(omd=None, smd=None, **kw):
    spec = {"obs": ["o1", "o2", "o3"], "samp": ["s1", "s2"], "rows": [[1.0, 0.0], [0.0, 2.5], [3.0, 4.0]],
            "omd": omd, "smd": smd, "type": kw.get("type"), "table_id": kw.get("table_id")}
    return {"spec": spec, "route": "dense", "perm_seed": 0, "generated_by": "x", "compress": False,
            "date": [2020, 1, 2, 3, 4, 5, 0], "ogmd": None, "sgmd": None, "writer": "to_hdf5"}


# inputs OUTSIDE the property's domain: only the agreement of model and code is checked on them (the
# model transcribes these branches too); what `holds` says about them is recorded in the distribution
EDGE = {
    "flat-taxonomy-text": _edge(omd=[{"taxonomy": "k__A; p__x"}, {"taxonomy": "k__B"}, {"taxonomy": " k__C ;p__y; c__z "}]),
    "none-under-hierarchical-name": _edge(omd=[{"taxonomy": ["k__A", "p__x"]}, {"taxonomy": None}, {"taxonomy": ["k__C"]}]),
    "empty-text-inside-list": _edge(omd=[{"taxonomy": ["k__A", "", "c__x"]}, {"taxonomy": ["k__B"]}, {"taxonomy": ["", "p__"]}]),
    "list-under-plain-name": _edge(omd=[{"lineage": ["a", "b"]}, {"lineage": ["c"]}, {"lineage": ["d", "e"]}]),
    "empty-table-id": _edge(table_id=""),
    "none-next-to-text": _edge(smd=[{"grp": None}, {"grp": "b"}]),
    "empty-lists": _edge(omd=[{"taxonomy": []}, {"taxonomy": []}, {"taxonomy": []}]),
    # refused writes (error paths): same error class in the model, table left as it was
    "partially-annotated-axis": _edge(omd=[{"a": "x"}, None, {"a": "z"}]),
    "inconsistent-categories": _edge(omd=[{"a": "x"}, {"b": "y"}, {"a": "z"}]),
    "number-under-hierarchical-name": _edge(omd=[{"taxonomy": 5}, {"taxonomy": 6}, {"taxonomy": 7}]),
    "text-under-collapsed_ids": _edge(smd=[{"collapsed_ids": "a"}, {"collapsed_ids": "b"}]),
    "all-none-hierarchical": _edge(omd=[{"taxonomy": None, "k": "a"}, {"taxonomy": None, "k": "b"}, {"taxonomy": None, "k": "c"}]),
}


def edge_stream(ctx, tmp=TMP):
    for name, case in EDGE.items():
        try:
            src, pre, raw, gen_by, date = write_and_read_raw(case, tmp, tag="e")
        except Unobservable as u:
            # a refused write: the model must refuse with the same error class, and the table must be unchanged
            ctx.case({"edge": name, "raised": u.stage}, nontrivial=False)
            me = None
            if u.stage == "write" and u.src is not None and u.pre is not None:
                me = ctx.driver.ask({"op": "domain", "src": u.src, "csr": u.pre["csr"], "csc": u.pre["csc"]})["model_error"]
            ctx.count("out-of-domain(agreement only):%s:real code raised %s, model %s" % (name, u.exc_class, me))
            if u.stage != "write" or me != u.exc_class:
                ctx.diverge({"case": public(case), "edge": name}, "refusal differs: code %s at %s, model %s" % (
                    u.exc_class, u.stage, me), ["edge=" + name])
            if getattr(u, "mutated", False):
                ctx.fail({"case": public(case), "edge": name}, "C04.refused-write-changed-the-table", ["edge=" + name])
            continue
        r = ctx.driver.ask(request(case, src, pre, raw, gen_by, date))
        ctx.case({"edge": name, "raw": raw}, nontrivial=False)
        ctx.count("out-of-domain(agreement only):%s:holds=%s" % (name, r["holds"]))
        if not r["agree"]:
            ctx.diverge({"case": case, "edge": name}, "raw tree differs from toH5 (out-of-domain input)", ["edge=" + name],
                        detail={"model": r["model"], "raw": r["raw_canon"]})


def cli_case(ctx, case, tmp=TMP):
    """`biom convert --to-hdf5` through click, in-process: JSON file in, HDF5 file out"""
    import biom
    import biom.cli
    from biom.parse import generatedby
    from click.testing import CliRunner
    try:
        t = build_table(dict(case, route="dense", ogmd=None, sgmd=None, own=None), tmp)
        src_path = os.path.join(tmp, "in_%d.json" % os.getpid())
        out_path = os.path.join(tmp, "out_%d.biom" % os.getpid())
        fresh(src_path); fresh(out_path)
        with open(src_path, "w") as f:
            f.write(t.to_json("verif"))
        loaded = biom.load_table(src_path)
        loaded.type = "Table" if loaded.type in (None, "None") else loaded.type
        src = src_obs(loaded)
        pre = scipy_views(loaded)
    except Exception as e:                          # noqa: BLE001 — the JSON prelude is not this property's subject
        ctx.count("history-raised(skipped):cli-json-prelude")
        ctx.notes.append("cli prelude raised, case skipped: %s: %s" % (type(e).__name__, str(e)[:200]))
        return
    try:
        # the sub-command object is invoked, not the click group (the group's close handler re-opens
        # fd 1 and would close the process' stdout); the duplicate of fd 1 is a second safeguard
        import biom.cli.table_converter as tc
        saved = os.dup(1)
        case["_t0"] = datetime.datetime.now()
        try:
            res = CliRunner().invoke(tc.convert, ["-i", src_path, "-o", out_path, "--to-hdf5"])
        finally:
            case["_t1"] = datetime.datetime.now()
            os.dup2(saved, 1)
            os.close(saved)
        if res.exit_code != 0:
            ctx.case({"cli": True, "src": src, "exit": res.exit_code}, nontrivial=False)
            ctx.fail({"case": case, "cli": True}, "C04.write-raised", ["cli", "writer=cli-convert"],
                     detail={"output": res.output[-500:], "exc": repr(res.exception)})
            return
        try:
            raw = raw_tree(out_path)
        except Exception as e:                      # noqa: BLE001
            ctx.case({"cli": True, "src": src, "raw": "unreadable"}, nontrivial=False)
            ctx.fail({"case": case, "cli": True}, "C04.raw-read-raised", ["cli"], detail={"what": repr(e)})
            return
    finally:
        for p in (src_path, out_path):
            if os.path.exists(p):
                os.remove(p)
    req = request(case, src, pre, raw, generatedby(), None)
    r = ctx.driver.ask(req)
    ctx.case({"cli": True, "src": src, "raw": raw}, nontrivial=nontrivial(src))
    ctx.count("writer=cli-convert")
    rec = {"case": case, "cli": True}
    if not r["holds"]:
        ctx.fail(rec, "C04." + str(r["clause"]), ["cli"], detail={"raw": raw})
    elif not r["agree"]:
        ctx.diverge(rec, "raw tree differs from toH5 (cli)", ["cli"], detail={"model": r["model"], "raw": r["raw_canon"]})


def run(ctx):
    ctx.rule = ("one case = one written file: generated content (values of every class, IDs with blanks, '/', "
                "non-ASCII, long; per-category homogeneous metadata; 0xM, Nx0, all-zero) x layout route / history x "
                "writer (to_hdf5, save_table, convert) x compress; non-trivial = at least 2x2 with a non-zero cell; "
                "distinct = distinct (table content, header, raw tree)")
    ctx.trusted = ["raw h5py reader of the harness (dataset -> kind, shape, entries; bytes decoded as utf-8)",
                   "the two matrix layouts handed to the model are the ones found in the file; their scipy "
                   "contract (well formed, content D / D^T, no stored zero) is checked by C04.holds on every file"]
    widx, wcount = getattr(ctx, "worker", (0, 1))
    tmp = os.path.join(TMP, str(os.getpid()))          # one directory per (worker) process
    os.makedirs(tmp, exist_ok=True)
    try:
        if widx == 0:
            poison_process(ctx, tmp)
            for case in CORPUS + CORPUS_R2 + CORPUS_FLAT:
                check_case(ctx, case, tmp)
                ctx.count("corpus")
        n = 520 if ctx.quick() else 24000 // wcount
        poison_process(ctx, tmp)
        for k in range(n):
            if k == n // 2:
                poison_process(ctx, tmp)
            check_case(ctx, gen_case(ctx.rng, ctx.quick(), flat_tax=True), tmp)
        for case in wide_cases(ctx.rng):
            check_case(ctx, case, tmp)
        for _ in range(12 if ctx.quick() else 400 // wcount):
            case = gen_case(ctx.rng, ctx.quick(), empty_axes=False)
            cli_case(ctx, case, tmp)
        if widx == 0:
            edge_stream(ctx, tmp)
        reused_args_untouched(ctx)
    finally:
        shutil.rmtree(tmp, ignore_errors=True)


def replay(ctx, rec):
    tmp = os.path.join(TMP, str(os.getpid()))
    os.makedirs(tmp, exist_ok=True)
    try:
        case = rec["case"]["case"] if "case" in rec.get("case", {}) else rec["case"]
        if rec.get("case", {}).get("cli"):
            cli_case(ctx, case, tmp)
        else:
            check_case(ctx, case, tmp)
    finally:
        shutil.rmtree(tmp, ignore_errors=True)
