"""C20 — error profile honoured and scoped: run programs over seterr/seterrcall/errcheck/errstate
against the real biom.err module, build the observation tree, and have Lean evaluate `holds`
on it and compare it with the model's tree."""
import io
import os
import itertools
import warnings

from . import core

REACTIONS = ["raise", "ignore", "call", "print", "warn"]
TMP = "/tmp/c20"


class Propagate(Exception):
    pass


class PropagateBase(BaseException):
    pass


# the exception by which a block is left ("via" on an errstate node; the model does not care which one it is:
# the previous profile must be restored whatever leaves the block)
EXITS = ["Exception", "TableException", "KeyboardInterrupt", "SystemExit", "GeneratorExit", "BaseException"]


def exit_exc(E, via):
    return {"Exception": Propagate, "TableException": E.TableException, "KeyboardInterrupt": KeyboardInterrupt,
            "SystemExit": SystemExit, "GeneratorExit": GeneratorExit, "BaseException": PropagateBase}[via]()


class FakeItem:
    """an object on which exactly the tests of `trig` fire (duck-typed like a Table)"""

    def __init__(self, trig):
        self.trig = set(trig)
        self.shape = (3, 3)

    def is_empty(self):
        return "empty" in self.trig

    def ids(self, axis="sample"):
        p = "obs" if axis == "observation" else "samp"
        size, dup = (p + "size") in self.trig, (p + "dup") in self.trig
        if size and dup:
            return ["a", "b"]
        if size:
            return ["a", "b", "c", "c"]
        if dup:
            return ["a", "a", "b"]
        return ["a", "b", "c"]

    def metadata(self, axis="sample"):
        p = "obs" if axis == "observation" else "samp"
        if (p + "mdsize") in self.trig:
            return [{}, {}]
        return None


class FactsItem:
    """a duck-typed table described by plain facts (shape, ids, metadata lengths)"""

    def __init__(self, f):
        self.f = f
        self.shape = (f["nrows"], f["ncols"])

    def is_empty(self):
        import numpy as np
        return not np.asarray(self.f["samp_ids"]).size or not np.asarray(self.f["obs_ids"]).size

    def ids(self, axis="sample"):
        import numpy as np
        return np.asarray(self.f["obs_ids"] if axis == "observation" else self.f["samp_ids"])

    def metadata(self, axis="sample"):
        l = self.f["omd_len"] if axis == "observation" else self.f["smd_len"]
        return None if l is None else tuple({} for _ in range(l))


def gen_facts(rng):
    n, m = rng.choice([0, 1, 2, 3]), rng.choice([0, 1, 2, 3])

    def ids(k, p):
        c = rng.random()
        base = [p + str(i) for i in range(k)]
        if c < 0.55:
            return base
        if c < 0.7:
            return base + [p + "x"]                    # one too many
        if c < 0.8:
            return base[:-1] if base else base         # one too few
        if c < 0.92 and k >= 2:
            return base[:-1] + [base[0]]               # right length, a duplicate
        if k >= 1:
            return base + [base[0]]                    # too many AND a duplicate
        return base

    def mdl(k):
        return rng.choice([None, None, k, k, 0, k + 1, max(k - 1, 0), 7])
    return {"nrows": n, "ncols": m, "obs_ids": ids(n, "o"), "samp_ids": ids(m, "s"),
            "omd_len": mdl(n), "smd_len": mdl(m)}


class Env:
    def __init__(self):
        import biom.err as E
        self.E = E
        self.prof = getattr(E, "__errprof")
        self.default_state = dict(E.geterr())
        self.kinds = sorted(self.default_state)
        self.default_calls = {k: E.geterrcall(k) for k in self.kinds}
        self.log = []
        self.saved = {}
        self.cms = {}
        self.cbs = {}
        for i in (1, 2, 3):
            self.cbs[i] = self._mk(i)
        self.cb_id = {id(f): i for i, f in self.cbs.items()}

    def _mk(self, i):
        def cb(item):
            self.log.append((i, item))
        return cb

    def reset(self):
        self.E.seterr(**self.default_state)
        for k, f in self.default_calls.items():
            self.E.seterrcall(k, f)
        self.log.clear()
        self.saved.clear()
        self.cms.clear()

    def kwargs(self, kw):
        """keyword arguments for seterr/errstate; a reaction written "<callable:N>" is handed over as a callable object
        (no reaction is a callable: the model treats the text as the unknown reaction it is)"""
        out = {}
        for k, v in kw:
            out[k] = self.cbs[int(v[10:-1])] if isinstance(v, str) and v.startswith("<callable:") else v
        return out

    def prelude(self, kind):
        """something that went wrong EARLIER in the process and was dealt with by the caller; the profile is put back to
        its defaults afterwards (reset), so none of it may matter to the program that follows"""
        E = self.E
        if kind == "raising-callback":
            def boom(item):
                raise RuntimeError("callback failed")
            k = self.kinds[0]
            E.seterrcall(k, boom)
            E.seterr(**{k: "call"})
            try:
                E.errcheck(FakeItem([k]))
            except RuntimeError:
                pass
        elif kind == "warning-as-error":
            k = self.kinds[-1]
            E.seterr(**{k: "warn"})
            with warnings.catch_warnings():
                warnings.simplefilter("error")
                try:
                    E.errcheck(FakeItem([k]))
                except Warning:
                    pass
        elif kind == "callback-builds-offending-table":
            import numpy as np
            from biom import Table

            def nested(item):
                try:
                    Table(np.ones((2, 2)), ["a", "a"], ["x", "y"])
                except E.TableException:
                    pass
            E.seterrcall("empty", nested)
            E.seterr(empty="call")
            try:
                E.errcheck(FakeItem(["empty"]))
            except Exception:
                pass
        self.reset()

    def failing_call(self, which):
        """a real table operation that is refused for a reason unrelated to the error profile; the caller catches it"""
        import numpy as np
        from biom import Table
        with self.E.errstate(all="ignore"):
            pass
        t = Table(np.array([[1., 2.], [3., 4.]]), ["a", "b"], ["x", "y"])
        calls = {
            "subsample-bad-axis": lambda: t.subsample(2, axis="bogus"),
            "subsample-negative-replacement": lambda: Table(np.array([[-1., 2.], [3., 4.]]), ["a", "b"], ["x", "y"]).subsample(
                2, with_replacement=True),
            "filter-unknown-id": lambda: t.filter(["nope"], axis="sample", inplace=False),
            "update-ids-strict-missing": lambda: t.update_ids({"zz": "y"}, strict=True, inplace=False),
            "sort-order-unknown": lambda: t.sort_order(["nope", "x"]),
            "transform-function-raises": lambda: t.transform(lambda v, i, m: 1 / 0, inplace=False),
            "collapse-function-raises": lambda: t.collapse(lambda i, m: 1 / 0, axis="sample"),
            "norm-bad-axis": lambda: t.norm(axis="bogus", inplace=False),
            "concat-overlap": lambda: t.concat([t]),
            "merge-bad-mode": lambda: t.merge(t, sample="bogus"),
        }
        try:
            calls[which]()
        except Exception:
            pass

    def snap(self):
        return [[k, v] for k, v in sorted(self.E.geterr().items())]

    def cb_of(self, k):
        return self.cb_id.get(id(self.E.geterrcall(k)), 0)

    def observe_check(self, item, trig, call):
        """run `call()` (which ends in errcheck(item)); return the event observed"""
        st = self.snap()
        fk = [k for k in self.kinds if k in trig]
        cb = self.cb_of(fk[0]) if fk else 0
        self.log.clear()
        buf = io.StringIO()
        old = self.E.stdout
        self.E.stdout = buf
        ev = {"ev": "quiet"}
        msgs = {getattr(self.E, n): k for n, k in [("EMPTY", "empty"), ("OBSSIZE", "obssize"), ("SAMPSIZE", "sampsize"),
                                                   ("OBSDUP", "obsdup"), ("SAMPDUP", "sampdup"),
                                                   ("OBSMDSIZE", "obsmdsize"), ("SAMPMDSIZE", "sampmdsize")]}
        try:
            with warnings.catch_warnings(record=True) as w:
                warnings.simplefilter("always")
                try:
                    call()
                except self.E.TableException as e:
                    ev = {"ev": "raised", "kind": msgs.get(str(e), "?" + str(e))}
                except Exception as e:      # anything but the table error: the reaction is not the configured one
                    ev = {"ev": "raised", "kind": "?" + type(e).__name__}
            if ev["ev"] == "quiet":
                ws = [x for x in w if str(x.message) in msgs]
                out = buf.getvalue()
                if ws:
                    ev = {"ev": "warned", "kind": msgs[str(ws[0].message)]}
                elif out:
                    # an operation may run errcheck more than once (collapse checks the receiver and the result):
                    # the reaction is judged on the first line
                    first = out.split("\n")[0]
                    ev = {"ev": "printed", "kind": msgs.get(first, "?" + out)}
                elif self.log:
                    i, got = self.log[0]
                    # the callback must receive the offending item itself
                    ev = {"ev": "called", "kind": fk[0] if (fk and got is item) else "?wrong-item", "cb": i}
        finally:
            self.E.stdout = old
        return {"op": "check", "st": st, "cb": cb, "ev": ev}

    def run(self, prog):
        E = self.E
        op = prog["op"]
        if op == "seterr":
            before = self.snap()
            try:
                E.seterr(**self.kwargs(prog["kw"]))
                refused = False
            except KeyError:
                refused = True
            return {"op": "seterr", "before": before, "after": self.snap(), "refused": refused}
        if op == "seterrcall":
            st = self.snap()
            try:
                k = prog["kind"]
                if prog["cb"] == 0:
                    # "put back what was there": the value an earlier seterrcall returned for this kind (the
                    # save/restore idiom); without an earlier call, save and restore in one go
                    if k not in self.saved:
                        self.saved[k] = E.seterrcall(k, self.cbs[1])
                    E.seterrcall(k, self.saved[k])
                else:
                    old = E.seterrcall(k, self.cbs[prog["cb"]])
                    self.saved.setdefault(k, old)
                refused = False
            except KeyError:
                refused = True
            return {"op": "seterrcall", "st": st, "refused": refused}
        if op == "check":
            if prog.get("after_failing"):
                self.failing_call(prog["after_failing"])
            item = FakeItem(prog["trig"])
            return self.observe_check(item, prog["trig"], lambda: E.errcheck(item))
        if op == "raise":
            return {"op": "raise", "st": self.snap()}
        if op == "seq":
            oa = self.run(prog["a"])
            if out_of(oa) == "normal":
                return {"op": "seq", "a": oa, "b": self.run(prog["b"])}
            return {"op": "seq", "a": oa, "b": None}
        if op == "errstate":
            before = self.snap()
            entered = None
            exc = exit_exc(E, prog.get("via", "Exception"))
            holder = {}

            def block():
                inside = self.snap()
                holder["entered"] = {"inside": inside, "body": None}
                ob = self.run(prog["body"])
                holder["entered"]["body"] = ob
                if out_of(ob) != "normal":
                    raise exc
            try:
                if prog.get("form") == "decorator":
                    # the scoped override used as a decorator; ONE context-manager object per keyword set and program,
                    # so that nested nodes with the same keywords re-enter the same object (as a recursive function does)
                    key = repr(prog["kw"])
                    if key not in self.cms:
                        self.cms[key] = E.errstate(**self.kwargs(prog["kw"]))
                    self.cms[key](block)()
                else:
                    with E.errstate(**self.kwargs(prog["kw"])):
                        block()
            except KeyError:
                if holder.get("entered") is not None:
                    raise
            except BaseException as e:
                if e is not exc:
                    raise
            entered = holder.get("entered")
            return {"op": "errstate", "before": before, "entered": entered, "after": self.snap()}
        raise ValueError(op)


def out_of(o):
    op = o["op"]
    if op in ("seterr", "seterrcall"):
        return "keyError" if o["refused"] else "normal"
    if op == "check":
        return "tableException" if o["ev"]["ev"] == "raised" else "normal"
    if op == "raise":
        return "user"
    if op == "seq":
        return out_of(o["b"]) if o["b"] is not None else out_of(o["a"])
    if op == "errstate":
        return "keyError" if o["entered"] is None else out_of(o["entered"]["body"])


def gen_kw(rng, kinds, allow_bad=True):
    n = rng.choice([1, 1, 1, 2, 2, 3])
    keys = list(kinds) + ["all"] + (["bogus"] if allow_bad else [])
    rng.shuffle(keys)
    ks = keys[:n]
    if allow_bad and rng.random() < 0.75:
        ks = [k for k in ks if k != "bogus"] or [rng.choice(kinds)]
    kw = []
    for k in ks:
        r = rng.choice(REACTIONS)
        if allow_bad and rng.random() < 0.06:
            r = rng.choice(["zzz", "<callable:1>", "<callable:2>", "Raise", ""])
        kw.append([k, r])
    return kw


FAILING = ["subsample-bad-axis", "subsample-negative-replacement", "filter-unknown-id", "update-ids-strict-missing",
           "sort-order-unknown", "transform-function-raises", "collapse-function-raises", "norm-bad-axis", "concat-overlap",
           "merge-bad-mode"]
PRELUDES = ["raising-callback", "warning-as-error", "callback-builds-offending-table"]


def gen_prog(rng, kinds, depth):
    c = rng.random()
    if depth <= 0 or c < 0.35:
        d = rng.random()
        if d < 0.35:
            return {"op": "seterr", "kw": gen_kw(rng, kinds)}
        if d < 0.45:
            return {"op": "seterrcall", "kind": rng.choice(kinds + ["bogus"]), "cb": rng.choice([0, 1, 2, 3])}
        if d < 0.92:
            t = rng.random()
            if t < 0.6:
                trig = [rng.choice(kinds)]
            elif t < 0.75:
                trig = []
            else:
                trig = sorted(rng.sample(kinds, rng.choice([2, 3])))
            node = {"op": "check", "trig": trig}
            if rng.random() < 0.08:
                node["after_failing"] = rng.choice(FAILING)
            return node
        return {"op": "raise"}
    if c < 0.7:
        return {"op": "seq", "a": gen_prog(rng, kinds, depth - 1), "b": gen_prog(rng, kinds, depth - 1)}
    node = {"op": "errstate", "kw": gen_kw(rng, kinds), "body": gen_prog(rng, kinds, depth - 1), "via": rng.choice(EXITS)}
    if rng.random() < 0.3:
        node["form"] = "decorator"
        if rng.random() < 0.5:
            # the same decorated scope entered again from inside itself
            node["body"] = {"op": "errstate", "kw": node["kw"], "body": node["body"], "via": rng.choice(EXITS), "form": "decorator"}
    return node


def prog_size(p):
    if p["op"] == "seq":
        return 1 + prog_size(p["a"]) + prog_size(p["b"])
    if p["op"] == "errstate":
        return 1 + prog_size(p["body"])
    return 1


def check_prog(ctx, env, prog, tags=(), obs=None, prelude=None):
    env.reset()
    if prelude:
        env.prelude(prelude)
        tags = tuple(tags) + ("prelude:" + prelude,)
    state = env.snap()
    if obs is None:
        obs = env.run(prog)
    case = {"prog": prog, "state": state, "obs": obs}
    if prelude:
        case["prelude"] = prelude
    ctx.case({"prog": prog, "prelude": prelude}, nontrivial=prog_size(prog) >= 2)
    r = ctx.driver.ask(case)
    ctx.count("out=" + str(out_of(obs)))
    if not r["model_holds"]:
        ctx.diverge(case, "theorem model_holds contradicted by the driver", tags)
    if not r["holds"]:
        ctx.fail(case, "C20.holds", tags, detail={"model": r["model"]})
    elif not r["agree"]:
        ctx.diverge(case, "observation tree differs from the model", tags, detail={"model": r["model"]})
    env.reset()
    return r


def real_tables(env):
    """real Table objects on which exactly one kind fires, found with the live test functions"""
    import numpy as np
    from biom import Table
    E = env.E
    cands = {
        "empty": lambda: Table(np.zeros((0, 0)), [], []),
        "obssize": lambda: Table(np.ones((2, 2)), ["a", "a", "b"], ["x", "y"]),
        "sampsize": lambda: Table(np.ones((2, 2)), ["a", "b"], ["x", "x", "y"]),
        "obsdup": lambda: Table(np.ones((2, 2)), ["a", "a"], ["x", "y"]),
        "sampdup": lambda: Table(np.ones((2, 2)), ["a", "b"], ["x", "x"]),
        "obsmdsize": lambda: Table(np.ones((2, 2)), ["a", "b"], ["x", "y"], [{"k": 1}, {"k": 2}, {"k": 3}], None),
        "sampmdsize": lambda: Table(np.ones((2, 2)), ["a", "b"], ["x", "y"], None, [{"k": 1}, {"k": 2}, {"k": 3}]),
    }
    out = {}
    tests = env.prof._test
    for k, mk in cands.items():
        with E.errstate(all="ignore"):
            t = mk()
        fired = sorted(kk for kk, f in tests.items() if f(t))
        out[k] = (mk, t, fired)
    return out


# ----------------------------------------------------------------------------- the registry itself (ErrorProfile class)
REG_KINDS = ["empty", "obsdup", "sampdup", "obssize", "Zed", "a b", "all", "kind\u00e9", "obs", "sampdup2"]


class RegItem:
    def __init__(self, trig):
        self.trig = set(trig)


def run_registry(ctx, ops, tags=("registry",)):
    """run a sequence of calls against a fresh biom.err.ErrorProfile() and have every step judged by Reg.holdsStep"""
    import biom.err as E
    from biom.exception import TableException
    prof = E.ErrorProfile()
    calls = []
    cbs = {}

    def mk(i):
        def cb(item):
            calls.append(i)
        cb.cb_id = i
        return cb
    for i in (1, 2, 3):
        cbs[i] = mk(i)

    def snap():
        out = []
        for k, r in prof.state.items():
            f = prof._profile[k]["call"]
            out.append([k, r, getattr(f, "cb_id", 0)])
        return out
    steps = []
    for op in ops:
        before = snap()
        o = op["op"]
        try:
            if o == "register":
                k = op["kind"]
                prof.register(k, "MSG:" + k, op["reaction"], (lambda item, k=k: k in item.trig),
                              callback=cbs.get(op["cb"]), exception=TableException)
                res = {"res": "ok"}
            elif o == "unregister":
                pr, fn, st = prof.unregister(op["kind"])
                res = {"res": "removed", "reaction": st, "cb": getattr(pr["call"], "cb_id", 0)}
            elif o == "setState":
                prof.state = dict((k, v) for k, v in op["kw"])
                res = {"res": "ok"}
            elif o == "setcall":
                old = prof.setcall(op["kind"], cbs[op["cb"]])
                res = {"res": "cb", "cb": getattr(old, "cb_id", 0)}
            elif o == "getcall":
                res = {"res": "cb", "cb": getattr(prof.getcall(op["kind"]), "cb_id", 0)}
            elif o == "contains":
                res = {"res": "bool", "value": bool(op["kind"] in prof)}
            elif o == "test":
                del calls[:]
                buf = io.StringIO()
                old_stdout = E.stdout
                E.stdout = buf
                try:
                    with warnings.catch_warnings(record=True) as w:
                        warnings.simplefilter("always")
                        ret = prof.test(RegItem(op["trig"]), *op["args"])
                finally:
                    E.stdout = old_stdout
                def kind_of(msg):
                    msg = str(msg).strip()
                    return msg[4:] if msg.startswith("MSG:") else "?" + msg
                if isinstance(ret, Exception):
                    res = {"res": "ev", "ev": "raised", "kind": kind_of(ret.args[0] if ret.args else "")}
                elif w:
                    res = {"res": "ev", "ev": "warned", "kind": kind_of(w[0].message)}
                elif buf.getvalue():
                    res = {"res": "ev", "ev": "printed", "kind": kind_of(buf.getvalue())}
                elif calls:
                    # which kind the callback answered for is not observable from the callback: taken from the cb id
                    kk = [k for k, r, c in before if c == calls[0] and r == "call" and k in op["trig"]]
                    res = {"res": "ev", "ev": "called", "kind": kk[0] if len(kk) == 1 else "?", "cb": calls[0]}
                    if len(kk) > 1:
                        res = None
                else:
                    res = {"res": "ev", "ev": "quiet"}
            else:
                raise AssertionError(o)
        except KeyError:
            res = {"res": "keyError"}
        except TypeError:
            res = {"res": "typeError"}
        if res is None:
            ctx.count("registry:ambiguous-callback-skipped")
            return None
        steps.append({"before": before, "op": op, "res": res, "after": snap()})
        ctx.count("registry:op=%s:%s" % (o, res["res"] if res["res"] != "ev" else res["ev"]))
    case = {"reg": steps}
    ctx.case({"reg_ops": ops}, nontrivial=len(ops) >= 3)
    r = ctx.driver.ask(case)
    if not r["holds"]:
        ctx.fail(case, "C20.Reg.holdsStep", tuple(tags) + (str(r.get("clause")),), detail={"model": r["model"]})
    elif not r["agree"]:
        ctx.diverge(case, "registry answers differ from the model", tags, detail={"model": r["model"]})
    return r


def gen_reg_ops(rng, n):
    ops = []
    live = []
    for _ in range(n):
        c = rng.random()
        pool = REG_KINDS
        k = rng.choice(live) if live and rng.random() < 0.7 else rng.choice(pool)
        if c < 0.3 or not live:
            r = rng.choice(REACTIONS) if rng.random() < 0.9 else rng.choice(["Raise", "", "ignored", "all"])
            ops.append({"op": "register", "kind": k, "reaction": r, "cb": rng.choice([0, 0, 1, 2, 3])})
            if k not in live and r in REACTIONS:
                live.append(k)
        elif c < 0.4:
            ops.append({"op": "unregister", "kind": k})
            if k in live:
                live.remove(k)
        elif c < 0.55:
            kw = []
            for kk in rng.sample(pool, rng.randint(1, 3)) if rng.random() < 0.4 else rng.sample(live, min(len(live), rng.randint(1, 3))):
                kw.append([kk, rng.choice(REACTIONS) if rng.random() < 0.9 else "bogus"])
            if rng.random() < 0.2:
                kw.insert(rng.randint(0, len(kw)), ["all", rng.choice(REACTIONS) if rng.random() < 0.85 else "zzz"])
            seen = set()
            kw = [x for x in kw if not (x[0] in seen or seen.add(x[0]))]
            ops.append({"op": "setState", "kw": kw})
        elif c < 0.63:
            ops.append({"op": "setcall", "kind": k, "cb": rng.choice([1, 2, 3])})
        elif c < 0.68:
            ops.append({"op": "getcall", "kind": k})
        elif c < 0.72:
            ops.append({"op": "contains", "kind": k})
        else:
            trig = rng.sample(pool, rng.randint(0, 4))
            if live and rng.random() < 0.7:
                trig = list(set(trig + rng.sample(live, min(len(live), rng.randint(1, 3)))))
            m = rng.random()
            if m < 0.6:
                args = []
            elif m < 0.9:
                args = rng.sample(live, rng.randint(1, len(live))) if live else []
                if args and rng.random() < 0.2:
                    args.append(rng.choice(args))
            else:
                args = rng.sample(pool, rng.randint(1, 3))
            ops.append({"op": "test", "trig": sorted(trig), "args": args})
    return ops


def module_defaults(ctx):
    """the registry err.py builds at import time, read in a FRESH interpreter (nothing of this run has touched it), must be
    the one the Lean side derives from the seven register calls (`Reg.moduleRegistry`, for which `module_state_wf` is proved)"""
    import subprocess
    import sys
    import json as _json
    code = ("import sys, json; sys.path.insert(0, %r); import biom.err as E; st = E.geterr(); "
            "print(json.dumps({'order': list(st), 'state': sorted([k, v] for k, v in st.items()), "
            "'calls': [E.geterrcall(k)(None) for k in st]}))" % core.REPO)
    out = subprocess.run([sys.executable, "-c", code], capture_output=True, text=True, cwd="/")
    case = {"module_defaults": "fresh interpreter"}
    ctx.case(case, nontrivial=True)
    if out.returncode != 0:
        ctx.fail(case, "C20.module_defaults", ("module-defaults", "import-or-geterr-failed"), detail={"stderr": out.stderr[-400:]})
        return
    obs = _json.loads(out.stdout.strip().splitlines()[-1])
    r = ctx.driver.ask({"module_defaults": {"order": obs["order"], "state": obs["state"]}})
    ctx.count("module-defaults=compared")
    # the property names the defaults nowhere, so a different default is a divergence of the model, not a violation —
    # except that a default callback must be the silent one (an unset 'call' reaction does nothing)
    if any(c is not None for c in obs["calls"]):
        ctx.fail(dict(case, obs=obs), "C20.module_defaults", ("module-defaults", "default-callback-not-silent"))
    elif not r["agree"]:
        ctx.diverge(dict(case, obs=obs), "the profile built at import time differs from Reg.moduleRegistry", ("module-defaults",),
                    detail={"model": r["model"]})


def registry_stream(ctx):
    # fixed: the seven kinds of the module in their registration order, every pair of kinds firing together under
    # every pair of reactions (the kind that sorts first decides), restricted by *args, a kind registered twice,
    # an unknown reaction, register/unregister round trip
    base = [{"op": "register", "kind": k, "reaction": r, "cb": 0} for k, r in
            (("empty", "ignore"), ("obssize", "raise"), ("sampsize", "raise"), ("obsdup", "raise"), ("sampdup", "raise"),
             ("obsmdsize", "raise"), ("sampmdsize", "raise"))]
    kinds7 = [b["kind"] for b in base]
    for a, b in itertools.combinations(kinds7, 2):
        for ra, rb in (("raise", "warn"), ("ignore", "raise"), ("print", "call"), ("call", "print"), ("warn", "ignore")):
            run_registry(ctx, base + [{"op": "setcall", "kind": a, "cb": 1}, {"op": "setcall", "kind": b, "cb": 2},
                                      {"op": "setState", "kw": [[a, ra], [b, rb]]},
                                      {"op": "test", "trig": sorted([a, b]), "args": []},
                                      {"op": "test", "trig": sorted([a, b]), "args": [b]},
                                      {"op": "test", "trig": sorted([a, b]), "args": [b, a]}], ("registry", "pairs"))
    run_registry(ctx, base + [{"op": "register", "kind": "empty", "reaction": "warn", "cb": 0},
                              {"op": "register", "kind": "new", "reaction": "explode", "cb": 0},
                              {"op": "register", "kind": "new", "reaction": "call", "cb": 2},
                              {"op": "test", "trig": ["new"], "args": []},
                              {"op": "unregister", "kind": "new"}, {"op": "unregister", "kind": "new"},
                              {"op": "test", "trig": ["new"], "args": []},
                              {"op": "setState", "kw": [["all", "print"], ["new", "raise"]]},
                              {"op": "test", "trig": ["sampdup"], "args": []}], ("registry", "fixed"))
    n = 400 if ctx.quick() else 20000
    for _ in range(n):
        run_registry(ctx, gen_reg_ops(ctx.rng, ctx.rng.choice([3, 5, 8, 12])), ("registry", "random"))


def run(ctx):
    env = Env()
    kinds = env.kinds
    ctx.rule = ("programs over seterr/seterrcall/errcheck/raise/seq/errstate run against biom.err; systematic: "
                "kind x reaction x {trigger, no trigger} x {seterr, errstate}, refusals, real tables at call sites; "
                "random nested programs. non-trivial = at least two program nodes; distinct = distinct program")
    ctx.trusted = ["FakeItem objects stand for tables on which a chosen set of tests fires (errcheck is duck-typed)"]
    # systematic part
    for k in kinds:
        for r in REACTIONS:
            for trig in ([k], []):
                check_prog(ctx, env, {"op": "seq", "a": {"op": "seterr", "kw": [[k, r]]},
                                      "b": {"op": "check", "trig": trig}}, ("systematic",))
                check_prog(ctx, env, {"op": "seq", "a": {"op": "errstate", "kw": [[k, r]],
                                                           "body": {"op": "check", "trig": trig}},
                                      "b": {"op": "check", "trig": trig}}, ("systematic",))
                check_prog(ctx, env, {"op": "seq", "a": {"op": "seterrcall", "kind": k, "cb": 2},
                                      "b": {"op": "seq", "a": {"op": "seterr", "kw": [["all", r]]},
                                            "b": {"op": "check", "trig": trig}}}, ("systematic",))
    # refusals: unknown kind / unknown reaction, alone and after a valid keyword, with 'all', in errstate
    for kw in ([["bogus", "raise"]], [["empty", "zzz"]], [["empty", "warn"], ["bogus", "raise"]],
               [["obsdup", "print"], ["empty", "zzz"]], [["all", "warn"], ["bogus", "raise"]],
               [["all", "zzz"]], [["all", "warn"], ["empty", "zzz"]], [["bogus", "zzz"], ["empty", "raise"]]):
        check_prog(ctx, env, {"op": "seterr", "kw": kw}, ("refusal",))
        check_prog(ctx, env, {"op": "seq", "a": {"op": "errstate", "kw": kw, "body": {"op": "check", "trig": ["empty"]}},
                              "b": {"op": "check", "trig": ["empty"]}}, ("refusal",))
    # blocks left by exception (table error, refused call, own exception), nested
    for body in ({"op": "raise"}, {"op": "check", "trig": ["obsdup"]}, {"op": "seterr", "kw": [["bogus", "raise"]]},
                 {"op": "errstate", "kw": [["all", "print"]], "body": {"op": "raise"}},
                 {"op": "seq", "a": {"op": "seterr", "kw": [["sampdup", "ignore"]]}, "b": {"op": "raise"}}):
        for kw in ([["empty", "raise"]], [["all", "warn"]], [["obsdup", "raise"], ["empty", "print"]]):
            for via in EXITS:
                check_prog(ctx, env, {"op": "seq", "a": {"op": "errstate", "kw": kw, "body": body, "via": via},
                                      "b": {"op": "check", "trig": ["empty"]}}, ("exceptional-exit", "via:" + via))
                # nested: the inner block is left by `via`, the outer one by an ordinary exception
                check_prog(ctx, env, {"op": "seq",
                                      "a": {"op": "errstate", "kw": [["sampdup", "print"]], "via": "Exception",
                                            "body": {"op": "errstate", "kw": kw, "body": body, "via": via}},
                                      "b": {"op": "check", "trig": ["sampdup"]}}, ("exceptional-exit", "nested", "via:" + via))
    # what went wrong earlier in the process must not matter: a callback that raised, a warning escalated to an error,
    # a callback that itself built an offending table — then, with the profile back at its defaults, every kind x reaction
    for pre in PRELUDES:
        for k in kinds:
            for r in REACTIONS:
                check_prog(ctx, env, {"op": "seq", "a": {"op": "seterr", "kw": [[k, r]]}, "b": {"op": "check", "trig": [k]}},
                           ("after-earlier-failure",), prelude=pre)
    # a table operation refused for a reason of its own, inside and outside a scoped override: the profile in force
    # afterwards is the one in force before (observed by the snapshot of the following check and by its reaction)
    for which in FAILING:
        for kw in ([["empty", "raise"]], [["all", "print"]], [["empty", "call"], ["obsdup", "warn"]]):
            chk = {"op": "check", "trig": ["empty"], "after_failing": which}
            check_prog(ctx, env, {"op": "seq", "a": {"op": "seterr", "kw": kw}, "b": chk}, ("after-failing-call", which))
            check_prog(ctx, env, {"op": "seq", "a": {"op": "errstate", "kw": kw, "body": {"op": "seq", "a": chk, "b": {"op": "check", "trig": ["obsdup"]}}},
                                  "b": {"op": "check", "trig": ["empty"]}}, ("after-failing-call", "scoped", which))
    # a callable where a reaction is expected is refused like any unknown reaction, alone, next to valid keywords, with 'all',
    # scoped — and leaves reactions AND callbacks as they were (the following checks run under 'call')
    for kw in ([["empty", "<callable:1>"]], [["all", "<callable:2>"]], [["obsdup", "call"], ["empty", "<callable:1>"]],
               [["empty", "<callable:3>"], ["bogus", "raise"]]):
        tail = {"op": "seq", "a": {"op": "seterr", "kw": [["all", "call"]]},
                "b": {"op": "seq", "a": {"op": "check", "trig": ["empty"]}, "b": {"op": "check", "trig": ["obsdup"]}}}
        check_prog(ctx, env, {"op": "seq", "a": {"op": "seterrcall", "kind": "empty", "cb": 2},
                              "b": {"op": "seq", "a": {"op": "seterr", "kw": kw}, "b": tail}}, ("callable-reaction",))
        check_prog(ctx, env, {"op": "seq", "a": {"op": "seterrcall", "kind": "empty", "cb": 2},
                              "b": {"op": "seq", "a": {"op": "errstate", "kw": kw, "body": {"op": "check", "trig": ["empty"]}}, "b": tail}},
                   ("callable-reaction", "scoped"))
    # the override used as a decorator, entered once, twice and three times from inside itself, left normally or not
    for kw in ([["empty", "raise"]], [["all", "ignore"]], [["obsdup", "warn"], ["empty", "print"]]):
        for depth in (1, 2, 3):
            for body in ({"op": "check", "trig": ["empty"]}, {"op": "raise"}, {"op": "check", "trig": ["obsdup"]}):
                node = body
                for _ in range(depth):
                    node = {"op": "errstate", "kw": kw, "body": node, "via": "Exception", "form": "decorator"}
                check_prog(ctx, env, {"op": "seq", "a": node,
                                      "b": {"op": "seq", "a": {"op": "check", "trig": ["empty"]}, "b": {"op": "check", "trig": ["obsdup"]}}},
                           ("decorator", "depth=%d" % depth))
    # the save/restore idiom of seterrcall: what an earlier call returned is put back (cb 0), then the kind is triggered
    for k in kinds:
        for first in (1, 0):
            steps = [{"op": "seterrcall", "kind": k, "cb": first}, {"op": "seterrcall", "kind": k, "cb": 0},
                     {"op": "seterr", "kw": [[k, "call"]]}, {"op": "check", "trig": [k]}]
            prog = steps[-1]
            for st in reversed(steps[:-1]):
                prog = {"op": "seq", "a": st, "b": prog}
            check_prog(ctx, env, prog, ("callback-save-restore",))
    # real tables: exactly one kind fires; reactions observed through errcheck and through the constructor
    rt = real_tables(env)
    for k, (mk, t, fired) in rt.items():
        ctx.count("real-table-exact-kind" if fired == [k] else "real-table-NOT-exact:%s->%s" % (k, fired))
        if fired != [k]:
            ctx.notes.append("candidate for %s fires %s" % (k, fired))
            continue
        for r in REACTIONS:
            for site in ("errcheck", "constructor"):
                env.reset()
                prog = {"op": "seq", "a": {"op": "seterr", "kw": [[k, r]]}, "b": {"op": "check", "trig": [k]}}
                oa = env.run(prog["a"])
                if site == "errcheck":
                    ob = env.observe_check(t, [k], lambda: env.E.errcheck(t))
                else:
                    holder = {}

                    def call():
                        holder["t"] = mk()
                    # the callback receives the table under construction, not `t`
                    st = env.snap()
                    cbid = env.cb_of(k)
                    ob = env.observe_check(None, [k], call)
                    if ob["ev"]["ev"] == "called":
                        i, got = env.log[0]
                        ok = hasattr(got, "ids") and list(got.ids()) == list(t.ids())
                        ob["ev"]["kind"] = k if ok else "?wrong-item"
                obs = {"op": "seq", "a": oa, "b": ob}
                check_prog(ctx, env, prog, ("real-table", site), obs=obs)
    # filter call site: emptying a table under empty=<reaction>
    import numpy as np
    from biom import Table
    for r in REACTIONS:
        env.reset()
        prog = {"op": "seq", "a": {"op": "seterr", "kw": [["empty", r]]}, "b": {"op": "check", "trig": ["empty"]}}
        oa = env.run(prog["a"])
        t = Table(np.ones((2, 2)), ["a", "b"], ["x", "y"])
        ob = env.observe_check(t, ["empty"], lambda: t.filter([], axis="sample"))
        check_prog(ctx, env, prog, ("real-table", "filter"), obs={"op": "seq", "a": oa, "b": ob})
    # which kinds fire is decided by Lean (`firing`) from plain facts about the item — NOT by the live test
    # functions, which are part of the code under test; the live functions are compared with it
    tests = env.prof._test
    n_facts = 600 if ctx.quick() else 20000
    for _ in range(n_facts):
        f = gen_facts(ctx.rng)
        trig = ctx.driver.ask({"facts": f})["firing"]
        item = FactsItem(f)
        live = sorted(k for k, fn in tests.items() if fn(item))
        ctx.count("facts-firing=%d" % len(trig))
        if live != sorted(trig):
            ctx.fail({"facts": f, "live": live, "expected": trig}, "C20.firing: a registered test does not fire exactly "
                     "when its structural condition holds", ("facts",))
            continue
        if len(trig) > 1 and ctx.rng.random() < 0.7:
            continue
        k = ctx.rng.choice(kinds)
        r = ctx.rng.choice(REACTIONS)
        env.reset()
        prog = {"op": "seq", "a": {"op": "seterr", "kw": [["all", r]] if ctx.rng.random() < 0.3 else [[k, r]]},
                "b": {"op": "check", "trig": trig}}
        oa = env.run(prog["a"])
        ob = env.observe_check(item, trig, lambda: env.E.errcheck(item))
        check_prog(ctx, env, prog, ("facts",), obs={"op": "seq", "a": oa, "b": ob})
    # real constructor calls described by facts (metadata of every length incl. 0, ids too many/few/duplicated)
    import numpy as np
    from biom import Table
    n_ctor = 300 if ctx.quick() else 8000
    for _ in range(n_ctor):
        f = gen_facts(ctx.rng)
        if f["nrows"] == 0 or f["ncols"] == 0:
            continue
        trig = ctx.driver.ask({"facts": f})["firing"]
        if len(trig) > 1 and ctx.rng.random() < 0.6:
            continue
        k = trig[0] if trig else ctx.rng.choice(kinds)
        r = ctx.rng.choice(REACTIONS)
        env.reset()
        prog = {"op": "seq", "a": {"op": "seterr", "kw": [[k, r]]}, "b": {"op": "check", "trig": trig}}
        oa = env.run(prog["a"])
        omd = None if f["omd_len"] is None else [{"k": i} for i in range(f["omd_len"])]
        smd = None if f["smd_len"] is None else [{"k": i} for i in range(f["smd_len"])]
        holder = {}

        def call():
            holder["t"] = Table(np.ones((f["nrows"], f["ncols"])), list(f["obs_ids"]), list(f["samp_ids"]), omd, smd)
        ob = env.observe_check(None, trig, call)
        if ob["ev"]["ev"] == "called":
            i, got = env.log[0]
            ok = hasattr(got, "ids") and [str(x) for x in got.ids()] == f["samp_ids"]
            fk = [kk for kk in kinds if kk in trig]
            ob["ev"]["kind"] = fk[0] if (ok and fk) else "?wrong-item"
        ctx.count("ctor-facts-firing=%d" % len(trig))
        check_prog(ctx, env, prog, ("ctor-facts",), obs={"op": "seq", "a": oa, "b": ob})
    # filter call site on tables that are ALREADY empty (built under the default profile, where `empty` is ignored):
    # every way of keeping everything must still end in errcheck
    for shape in ((0, 2), (2, 0), (0, 0)):
        for r in REACTIONS:
            for how in ("pred-true", "all-ids", "invert-none", "other-axis-pred"):
                env.reset()
                obs_ids = ["a", "b"][:shape[0]]
                samp_ids = ["x", "y"][:shape[1]]
                import scipy.sparse as sp
                t = Table(sp.csr_matrix(shape), obs_ids, samp_ids)
                prog = {"op": "seq", "a": {"op": "seterr", "kw": [["empty", r]]}, "b": {"op": "check", "trig": ["empty"]}}
                oa = env.run(prog["a"])
                if how == "pred-true":
                    call = lambda: t.filter(lambda v, i, m: True, axis="sample")
                elif how == "all-ids":
                    call = lambda: t.filter(list(t.ids()), axis="sample")
                elif how == "invert-none":
                    call = lambda: t.filter([], axis="observation", invert=True)
                else:
                    call = lambda: t.filter(lambda v, i, m: True, axis="observation")
                ob = env.observe_check(t, ["empty"], call)
                check_prog(ctx, env, prog, ("real-table", "filter-on-empty", how), obs={"op": "seq", "a": oa, "b": ob})
    # a callback replaced while 'call' is in force must be the one invoked next time
    for k in kinds:
        for scope in ("seterr", "errstate"):
            inner = {"op": "seq", "a": {"op": "check", "trig": [k]},
                     "b": {"op": "seq", "a": {"op": "seterrcall", "kind": k, "cb": 2}, "b": {"op": "check", "trig": [k]}}}
            if scope == "seterr":
                prog = {"op": "seq", "a": {"op": "seterrcall", "kind": k, "cb": 1},
                        "b": {"op": "seq", "a": {"op": "seterr", "kw": [[k, "call"]]}, "b": inner}}
            else:
                prog = {"op": "seq", "a": {"op": "seterrcall", "kind": k, "cb": 1},
                        "b": {"op": "errstate", "kw": [["all", "call"]], "body": inner}}
            check_prog(ctx, env, prog, ("callback-replaced",))
            # and the same kind triggered twice without any change in between
            check_prog(ctx, env, {"op": "seq", "a": {"op": "seterrcall", "kind": k, "cb": 3},
                                  "b": {"op": "seq", "a": {"op": "seterr", "kw": [[k, "call"]]},
                                        "b": {"op": "seq", "a": {"op": "check", "trig": [k]}, "b": {"op": "check", "trig": [k]}}}},
                       ("callback-twice",))
    # further errcheck call sites on real tables: operations whose RESULT is the offending table
    def site_cases():
        base = lambda: Table(np.array([[1., 2.], [3., 4.]]), ["a", "b"], ["x", "y"])
        yield ("update_ids-onto-existing-obs", {"nrows": 2, "ncols": 2, "obs_ids": ["b", "b"], "samp_ids": ["x", "y"],
                                                "omd_len": None, "smd_len": None},
               lambda: base().update_ids({"a": "b"}, axis="observation", strict=False, inplace=False))
        yield ("update_ids-onto-existing-samp", {"nrows": 2, "ncols": 2, "obs_ids": ["a", "b"], "samp_ids": ["y", "y"],
                                                 "omd_len": None, "smd_len": None},
               lambda: base().update_ids({"x": "y"}, axis="sample", strict=False, inplace=False))
        yield ("sort_order-repeated-sample", {"nrows": 2, "ncols": 3, "obs_ids": ["a", "b"], "samp_ids": ["y", "x", "y"],
                                              "omd_len": None, "smd_len": None},
               lambda: base().sort_order(["y", "x", "y"], axis="sample"))
        yield ("sort_order-repeated-observation", {"nrows": 3, "ncols": 2, "obs_ids": ["b", "a", "b"], "samp_ids": ["x", "y"],
                                                   "omd_len": None, "smd_len": None},
               lambda: base().sort_order(["b", "a", "b"], axis="observation"))
        yield ("sort_order-empty-order", {"nrows": 2, "ncols": 0, "obs_ids": ["a", "b"], "samp_ids": [],
                                          "omd_len": None, "smd_len": None},
               lambda: base().sort_order([], axis="sample"))
        yield ("collapse-of-empty-table", {"nrows": 0, "ncols": 0, "obs_ids": [], "samp_ids": [], "omd_len": None, "smd_len": None},
               lambda: Table(np.zeros((0, 0)), [], []).collapse(lambda i, m: "g", axis="sample"))
    def dup_label_cases():
        for axis in ("sample", "observation"):
            lab = {"x": 1, "y": "1", "z": 2} if axis == "sample" else {"a": 1, "b": "1", "c": 2}
            ids3 = ["1", "1", "2"]
            if axis == "sample":
                facts = {"nrows": 2, "ncols": 3, "obs_ids": ["a", "b"], "samp_ids": ids3, "omd_len": None, "smd_len": 3}
                mk = lambda: Table(np.arange(6.0).reshape(2, 3) + 1, ["a", "b"], ["x", "y", "z"])
            else:
                facts = {"nrows": 3, "ncols": 2, "obs_ids": ids3, "samp_ids": ["x", "y"], "omd_len": 3, "smd_len": None}
                mk = lambda: Table(np.arange(6.0).reshape(3, 2) + 1, ["a", "b", "c"], ["x", "y"])
            yield ("collapse-labels-of-equal-text-" + axis, facts,
                   (lambda mk=mk, lab=lab, axis=axis: mk().collapse(lambda i, m: lab[i], axis=axis, norm=False)))
    def more_site_cases():
        """(label, facts, prepare): prepare() runs under errstate(all='ignore') and returns the call to observe"""
        allzero = lambda: Table(np.zeros((2, 3)), ["a", "b"], ["x", "y", "z"])
        for axis in ("whole", "sample", "observation"):
            for inplace in (True, False):
                f = {"nrows": 0 if axis != "sample" else 2, "ncols": 0 if axis != "observation" else 3,
                     "obs_ids": [] if axis != "sample" else ["a", "b"], "samp_ids": [] if axis != "observation" else ["x", "y", "z"],
                     "omd_len": None, "smd_len": None}
                yield ("remove_empty-%s-%s" % (axis, inplace), f,
                       (lambda axis=axis, inplace=inplace: (lambda t=allzero(): t.remove_empty(axis=axis, inplace=inplace))))
        for axis in ("sample", "observation"):
            for inplace in (True, False):
                f = {"nrows": 2 if axis == "sample" else 0, "ncols": 0 if axis == "sample" else 3,
                     "obs_ids": ["a", "b"] if axis == "sample" else [], "samp_ids": [] if axis == "sample" else ["x", "y", "z"],
                     "omd_len": None, "smd_len": None}
                yield ("filter-nothing-passes-%s-%s" % (axis, inplace), f,
                       (lambda axis=axis, inplace=inplace: (lambda t=allzero(): t.filter(lambda v, i, m: False, axis=axis, inplace=inplace))))
        # an offending table that exists already (built while its kind was ignored) handed on by an operation that builds
        # a new table from it: the mirror kind on the other axis must meet the configured reaction
        def offending(kind):
            if kind == "obsdup":
                return Table(np.arange(6.0).reshape(2, 3) + 1, ["a", "a"], ["x", "y", "z"])
            if kind == "sampdup":
                return Table(np.arange(6.0).reshape(2, 3) + 1, ["a", "b"], ["x", "y", "x"])
            if kind == "obsmdsize":
                return Table(np.arange(6.0).reshape(2, 3) + 1, ["a", "b"], ["x", "y", "z"], observation_metadata=[{"k": 1}] * 3)
            return Table(np.arange(6.0).reshape(2, 3) + 1, ["a", "b"], ["x", "y", "z"], sample_metadata=[{"k": 1}] * 2)
        for kind in ("obsdup", "sampdup", "obsmdsize", "sampmdsize"):
            f = {"nrows": 3, "ncols": 2,
                 "obs_ids": ["x", "y", "x"] if kind == "sampdup" else ["x", "y", "z"],
                 "samp_ids": ["a", "a"] if kind == "obsdup" else ["a", "b"],
                 "omd_len": 2 if kind == "sampmdsize" else None, "smd_len": 3 if kind == "obsmdsize" else None}
            yield ("transpose-of-offending-%s" % kind, f, (lambda kind=kind: (lambda t=offending(kind): t.transpose())))
        # a file whose content is an offending table, read through every loader
        import h5py
        import biom
        from biom.parse import parse_biom_table
        os.makedirs(TMP, exist_ok=True)
        for kind, mk in (("sampdup", lambda: Table(np.ones((2, 2)), ["a", "b"], ["x", "x"])),
                         ("obsdup", lambda: Table(np.ones((2, 2)), ["a", "a"], ["x", "y"]))):
            f = {"nrows": 2, "ncols": 2, "obs_ids": ["a", "a"] if kind == "obsdup" else ["a", "b"],
                 "samp_ids": ["x", "x"] if kind == "sampdup" else ["x", "y"], "omd_len": None, "smd_len": None}
            for loader in ("load_table", "parse_biom_table", "from_hdf5"):
                def prepare(mk=mk, loader=loader, kind=kind):
                    path = os.path.join(TMP, "site_%d_%s.biom" % (os.getpid(), kind))
                    with h5py.File(path, "w") as h:
                        mk().to_hdf5(h, "c20")

                    def call():
                        if loader == "load_table":
                            return biom.load_table(path)
                        with h5py.File(path, "r") as h:
                            return parse_biom_table(h) if loader == "parse_biom_table" else Table.from_hdf5(h)
                    return call
                yield ("hdf5-%s-%s" % (loader, kind), f, prepare)

    all_sites = [(a, b, c, None) for a, b, c in list(site_cases()) + list(dup_label_cases())] + \
        [(a, b, None, c) for a, b, c in more_site_cases()]
    for label, facts, call, prepare in all_sites:
        trig = ctx.driver.ask({"facts": facts})["firing"]
        for r in REACTIONS:
            env.reset()
            # the table under construction does not exist when the profile is set: build the empty one under ignore
            kw = [["all", r]]
            prog = {"op": "seq", "a": {"op": "seterr", "kw": kw}, "b": {"op": "check", "trig": trig}}
            holder = {}
            if label.startswith("collapse-of-empty"):
                with env.E.errstate(all="ignore"):
                    empty_t = Table(np.zeros((0, 0)), [], [])
                call = (lambda et=empty_t: et.collapse(lambda i, m: "g", axis="sample"))
            if prepare is not None:
                with env.E.errstate(all="ignore"):
                    call = prepare()
            oa = env.run(prog["a"])
            try:
                ob = env.observe_check(None, trig, call)
            except Exception as e:      # anything but the table error: the call site misbehaves
                ob = {"op": "check", "st": env.snap(), "cb": 0, "ev": {"ev": "raised", "kind": "?" + type(e).__name__}}
            if ob["ev"]["ev"] == "called":
                fk = [kk for kk in kinds if kk in trig]
                ob["ev"]["kind"] = fk[0] if fk else "?"
            ctx.count("site=" + label.split("-")[0])
            check_prog(ctx, env, prog, ("real-table", "site:" + label), obs={"op": "seq", "a": oa, "b": ob})
    module_defaults(ctx)
    registry_stream(ctx)
    # random nested programs
    n = 2500 if ctx.quick() else 120000
    depth_choices = [1, 2, 2, 3, 3, 4] if ctx.quick() else [2, 3, 3, 4, 5, 6, 8]
    for _ in range(n):
        prog = gen_prog(ctx.rng, kinds, ctx.rng.choice(depth_choices))
        if prog_size(prog) < 3:
            # observe the profile after the fragment through a following check
            prog = {"op": "seq", "a": prog, "b": {"op": "check", "trig": [ctx.rng.choice(kinds)]}}
        r = check_prog(ctx, env, prog, ("random",), prelude=(ctx.rng.choice(PRELUDES) if ctx.rng.random() < 0.1 else None))
        ctx.count("size=%d" % min(prog_size(prog), 12))
    env.reset()
    import glob
    for f in glob.glob(os.path.join(TMP, "site_%d_*.biom" % os.getpid())):
        try:
            os.remove(f)
        except OSError:
            pass


def replay(ctx, rec):
    env = Env()
    case = rec["case"]
    if "module_defaults" in case:
        module_defaults(ctx)
        return
    if "reg" in case:
        run_registry(ctx, [st["op"] for st in case["reg"]], ("replay",))
        return
    check_prog(ctx, env, case["prog"], ("replay",), prelude=case.get("prelude"))
    env.reset()
