"""C01 — HDF5 (BIOM 2.x) write/read round trip is lossless.

One case = one file written by the real code (Table.to_hdf5 / save_table / convert), read back raw
(for the model), then loaded by the real loaders: Table.from_hdf5 (both axes), parse_table(handle),
load_table(path).  Lean evaluates `C01.holds` on each loader's result against the table that was
written, and compares the result with the model `load (toH5 …)` and with `load` applied to the raw tree.
Generators, raw reader and table observation are shared with harness/c04.py."""
import datetime
import os
import shutil

from . import core
from . import c04

TMP = "/tmp/c01/h5"
LOADERS = [("from_hdf5", "sample"), ("from_hdf5", "observation"), ("parse_table", "sample"), ("load_table", "sample")]
# the same loaders called with their rarely used arguments (two of these per case); each maps to a model loader
VARIANTS = [("from_hdf5", "sample", "explicit-defaults"), ("from_hdf5", "observation", "no-subset-metadata"),
            ("from_hdf5", "sample", "parse_fs-unused"), ("parse_table", "observation", "axis-observation"),
            ("parse_table", "sample", "input_is_dense"), ("load_table", "sample", "pathlib"),
            ("load_table", "sample", "open-handle"), ("from_hdf5", "sample", "twice-first-edited")]


def loaded_obs(r):
    cd = r.create_date
    if isinstance(cd, datetime.datetime):
        cdj = {"date": cd.isoformat()}
    else:
        cdj = {"text": str(cd)}

    def gmd(g):
        return [[str(k), None if v is None else str(v)] for k, v in (g or {}).items()]
    return {"obs": [str(i) for i in r.ids(axis="observation")], "samp": [str(i) for i in r.ids()],
            "rows": c04.dense_rows(r),
            "omd": c04.md_obs(r.metadata(axis="observation")), "smd": c04.md_obs(r.metadata()),
            "type": r.type, "table_id": "" if r.table_id is None else str(r.table_id),
            "generated_by": "" if r.generated_by is None else str(r.generated_by),
            "create_date": cdj,
            "ogmd": gmd(r.group_metadata("observation")), "sgmd": gmd(r.group_metadata("sample"))}


def run_loader(path, loader, axis, group=None, variant=None):
    import h5py
    import pathlib
    import numpy as np
    import biom
    from biom import Table
    try:
        if variant == "explicit-defaults":
            with h5py.File(path, "r") as f:
                r = Table.from_hdf5(f if group is None else f[group], ids=None, axis="sample", parse_fs=None,
                                    subset_with_metadata=True)
        elif variant == "no-subset-metadata":
            with h5py.File(path, "r") as f:       # without ids the flag has nothing to do
                r = Table.from_hdf5(f if group is None else f[group], None, "observation", c04.REUSED_PARSE_FS, False)
        elif variant == "parse_fs-unused":
            with h5py.File(path, "r") as f:
                r = Table.from_hdf5(f if group is None else f[group], parse_fs={"no such category": lambda x: "POISONED"})
        elif variant == "axis-observation":
            with h5py.File(path, "r") as f:
                r = biom.parse_table(f if group is None else f[group], ids=None, axis="observation")
        elif variant == "input_is_dense":
            with h5py.File(path, "r") as f:
                r = biom.parse_table(f if group is None else f[group], input_is_dense=True)
        elif variant == "pathlib":
            r = biom.load_table(pathlib.Path(path))
        elif variant == "open-handle":
            with h5py.File(path, "r") as f:
                r = biom.load_table(f)
        elif variant == "twice-first-edited":
            # two tables loaded from the same handle share nothing: the first is changed in place, the second is observed
            with h5py.File(path, "r") as f:
                g = f if group is None else f[group]
                first = Table.from_hdf5(g)
                r = Table.from_hdf5(g)
                with np.errstate(all="ignore"):
                    if first.shape[0] and first.shape[1]:
                        first.transform(lambda v, i, md: v * 3.0 + 1.0, inplace=True)
                        first.update_ids({x: x + "~" for x in first.ids()}, inplace=True)
                    if first.metadata() is not None:
                        for e in first.metadata():
                            for k in list(e):
                                e[k] = "edited"
        elif loader == "from_hdf5":
            with h5py.File(path, "r") as f:
                r = Table.from_hdf5(f if group is None else f[group], axis=axis)
        elif loader == "parse_table":
            with h5py.File(path, "r") as f:
                r = biom.parse_table(f if group is None else f[group])
        else:
            r = biom.load_table(path)
        return {"ok": loaded_obs(r)}
    except Exception as e:            # noqa: BLE001 — the class is what is observed
        return {"error": core.err_name(e), "message": "%s: %s" % (type(e).__name__, str(e)[:200])}


def sniff(path):
    import h5py
    from biom.util import is_gzip
    return {"empty": os.path.getsize(path) == 0, "gzip": bool(is_gzip(path)), "hdf5": bool(h5py.is_hdf5(path))}


def unsafe_views(raw, n, m):
    """scipy does not bounds-check the arrays it is handed: a file whose matrix arrays point outside
    the announced shape would crash the interpreter instead of raising.  Such a file is reported as a
    violation without being loaded."""
    for axname, major, minor in (("observation", n, m), ("sample", m, n)):
        g = ((raw.get(axname) or {}).get("matrix") or {})
        try:
            ip = [int(x) for x in g["indptr"]["cells"]]
            ix = [int(x) for x in g["indices"]["cells"]]
            nd = len(g["data"]["cells"])
        except (KeyError, TypeError, ValueError):
            continue                      # missing / non-numeric: the loaders raise cleanly
        if len(ip) != major + 1 or (ip and (ip[0] != 0 or ip[-1] != nd)) or len(ix) != nd \
                or any(a > b for a, b in zip(ip, ip[1:])) or any(not 0 <= j < minor for j in ix):
            return axname
    return None


def write_read_load(case, tmp=TMP):
    """Raises c04.Unobservable when the writer or the raw re-read raises (an observation, not a harness error)."""
    import random
    t, src, pre = c04.prepare(case, tmp)
    path = os.path.join(tmp, "c_%d.biom" % os.getpid())
    c04.fresh(path)
    c04.plant_stale(case, path)
    try:
        try:
            case["_t0"] = datetime.datetime.now()
            with c04.profile_of(case, src):
                gen_by, date = c04.write_file(case, t, path, tmp)
            case["_t1"] = datetime.datetime.now()
        except Exception as e:                      # noqa: BLE001
            raise c04.Unobservable("write", e, src, pre)
        try:
            grp = c04.group_name(case)
            raw = c04.raw_tree(path, grp)
            sn = sniff(path)
        except Exception as e:                      # noqa: BLE001
            raise c04.Unobservable("raw-read", e, src)
        bad = unsafe_views(raw, len(src["obs"]), len(src["samp"]))
        # a table inside a non-root group is reached through the open handle only (load_table takes a path)
        src = c04.after_write(case, t, src)
        loaders = [(ld, ax, None) for ld, ax in LOADERS if grp is None or ld != "load_table"]
        extra = [v for v in VARIANTS if grp is None or v[0] != "load_table"]
        loaders += random.Random(case.get("poke", 0)).sample(extra, 2)
        if bad is None:
            with c04.profile_of(case, src):
                results = [(ld, ax, dict(run_loader(path, ld, ax, grp, var), variant=var)) for ld, ax, var in loaders]
        else:
            results = [(ld, ax, {"error": "Other", "message": "not loaded: %s/matrix arrays leave the shape" % bad,
                                 "unsafe": bad}) for ld, ax, _ in loaders]
    finally:
        if os.path.exists(path):
            os.remove(path)
    return src, pre, raw, gen_by, date, sn, results


def check_case(ctx, case, tmp=TMP):
    if hasattr(ctx, "journal"):
        ctx.journal({"case": c04.public(case)})
    try:
        src, pre, raw, gen_by, date, sn, results = write_read_load(case, tmp)
    except c04.Unobservable as u:
        ctx.case({"case": case, "unobservable": u.stage}, nontrivial=False)
        if u.stage == "history":
            ctx.count("history-raised(skipped):" + case["route"])
            ctx.notes.append("history raised, case skipped: %s" % u)
            return []
        if u.src is not None and not ctx.driver.ask({"op": "domain", "src": u.src})["in_domain"]:
            ctx.count("raised on a table outside the theorems' domain (not a violation):" + u.stage)
            return []
        ctx.fail({"case": c04.public(case)}, "C01.%s-raised" % u.stage, ["route=" + case["route"], "writer=" + case["writer"],
                                                            "exc=" + u.exc_name], detail={"what": str(u), "src": u.src})
        return []
    base = c04.request(case, src, pre, raw, gen_by, date)
    tags0 = c04.tags_of(case, src)
    ctx.case({"src": src, "gen": gen_by, "date": base["date"], "compress": case["compress"]},
             nontrivial=c04.nontrivial(src))
    for tg in tags0:
        ctx.count(tg)
    if case.get("_mutated"):
        ctx.fail({"case": c04.public(case)}, "C01.writer-changed-the-table", tags0, detail={"fields": case["_mutated"]})
    for ax in ("omd", "smd"):
        if src[ax]:
            for k, v in src[ax][0]:
                ctx.count("md=" + v["t"] + ("/special" if k in c04.SPECIAL else "/lookalike" if k in c04.LOOKALIKES else "") +
                          ("/slash" if "/" in k else ""))
    out = []
    for ld, ax, res in results:
        var = res.pop("variant", None)
        if res.get("unsafe"):
            ctx.fail({"case": c04.public(case), "loader": ld, "axis": ax}, "C01.file-not-loadable", tags0 + ["unsafe=" + res["unsafe"]],
                     detail={"why": res["message"]})
            continue
        req = dict(base, loader=ld, axis=ax, sniff=sn, obs={k: v for k, v in res.items() if k != "message"})
        r = ctx.driver.ask(req)
        tags = tags0 + ["loader=" + ld, "axis=" + ax] + (["variant=" + var] if var else [])
        ctx.count("loader=%s/%s%s" % (ld, ax, "/" + var if var else ""))
        rec = {"case": c04.public(case), "loader": ld, "axis": ax, "variant": var}
        if not r["model_holds"]:
            ctx.diverge(rec, "theorem fromH5_toH5 contradicted by the driver", tags, detail={"model": r["model"]})
        if not r["holds"]:
            ctx.fail(rec, "C01." + str(r["clause"]), tags, detail={"loaded": res, "src": src})
        elif not r["agree"]:
            ctx.diverge(rec, "loader result differs from load(toH5 …)", tags, detail={"model": r["model"], "loaded": res})
        elif not r["raw_agree"]:
            ctx.diverge(rec, "loader result differs from load(raw tree)", tags, detail={"loaded": res})
        out.append(r)
    return out


def edge_stream(ctx, tmp=TMP):
    """inputs outside the domain (see c04.EDGE): only model/code agreement is checked"""
    for name, case in c04.EDGE.items():
        try:
            src, pre, raw, gen_by, date, sn, results = write_read_load(case, tmp)
        except c04.Unobservable as u:
            ctx.count("out-of-domain(agreement only):%s:real code raised at %s" % (name, u.stage))
            continue
        base = c04.request(case, src, pre, raw, gen_by, date)
        ctx.case({"edge": name}, nontrivial=False)
        for ld, ax, res in results:
            r = ctx.driver.ask(dict(base, loader=ld, axis=ax, sniff=sn,
                                    obs={k: v for k, v in res.items() if k != "message"}))
            ctx.count("out-of-domain(agreement only):%s:holds=%s" % (name, r["holds"]))
            if not (r["agree"] and r["raw_agree"]):
                ctx.diverge({"case": case, "edge": name, "loader": ld, "axis": ax},
                            "loader result differs from the model (out-of-domain input)", ["edge=" + name],
                            detail={"model": r["model"], "loaded": res})


# the repaired defects first: non-ASCII IDs (F-C01-1, corpus/probes/p01.py), empty-axis ids dataset (F-C04-1)
CORPUS = c04.CORPUS[:2] + c04.CORPUS_R2 + [
    {"spec": {"obs": ["ö1", "o2"], "samp": ["s1", "sé2"], "rows": [[1.0, 2.0], [3.0, 4.0]],
              "omd": [{"k": "x"}, {"k": "ü"}], "smd": None, "type": None},
     "route": "dense", "perm_seed": 0, "generated_by": "x", "compress": True, "date": None, "ogmd": None, "sgmd": None,
     "writer": "to_hdf5"},
    {"spec": {"obs": ["日本", "o 2", "x/y"], "samp": ["µ", "Sé" + "λ" * 40], "rows": [[0.0, 2.5], [0.0, 0.0], [-1.0, 5e-324]],
              "omd": None, "smd": [{"taxonomy": ["k__β", "p__x y"]}, {"taxonomy": ["k__A"]}], "type": "OTU table",
              "table_id": "ид 7"},
     "route": "csr_unsorted", "perm_seed": 0, "generated_by": "gén ü", "compress": False,
     "date": [2020, 1, 2, 3, 4, 5, 0], "ogmd": {"tree": ("newick", "(é,ö);")}, "sgmd": None, "writer": "to_hdf5"},
    {"spec": {"obs": [], "samp": ["s1", "s2", "s3"], "rows": [], "omd": None, "smd": None, "type": None},
     "route": "dense", "perm_seed": 0, "generated_by": "x", "compress": True, "date": None, "ogmd": None, "sgmd": None,
     "writer": "to_hdf5"},
    {"spec": {"obs": ["o1", "o2"], "samp": [], "rows": [[], []], "omd": None, "smd": None, "type": "OTU table"},
     "route": "dense", "perm_seed": 0, "generated_by": "x", "compress": False, "date": [2020, 1, 2, 3, 4, 5, 0],
     "ogmd": None, "sgmd": None, "writer": "save_table"},
]


def run(ctx):
    ctx.rule = ("one case = one written file loaded four ways (from_hdf5 by sample and by observation, parse_table, "
                "load_table): generated content (values of every class, IDs with blanks, '/', non-ASCII, long; "
                "per-category homogeneous metadata incl. names with '/'; type in the vocabulary or absent; table id "
                "absent/present; group metadata) x layout route / history x writer x compress; non-trivial = at "
                "least 2x2 with a non-zero cell; distinct = distinct (table content, header, compress)")
    ctx.trusted = ["raw h5py reader of the harness; the two matrix layouts handed to the model are the ones found "
                   "in the file (their contract is what C04.holds checks)",
                   "datetime.isoformat/fromisoformat and the utf-8 codec are parameters of the model (identity on "
                   "the harness' tokens); their round trip is what the comparison of tokens monitors"]
    widx, wcount = getattr(ctx, "worker", (0, 1))
    tmp = os.path.join(TMP, str(os.getpid()))          # one directory per (worker) process
    os.makedirs(tmp, exist_ok=True)
    try:
        if widx == 0:
            c04.poison_process(ctx, tmp)
            for case in CORPUS:
                check_case(ctx, case, tmp)
                ctx.count("corpus")
        n = 320 if ctx.quick() else 12000 // wcount
        c04.poison_process(ctx, tmp)
        for case in c04.wide_cases(ctx.rng):
            check_case(ctx, case, tmp)
        for k in range(n):
            if k == n // 2:
                c04.poison_process(ctx, tmp)
            check_case(ctx, c04.gen_case(ctx.rng, ctx.quick(), empty_axes=(ctx.rng.random() < 0.3)), tmp)
        if widx == 0:
            edge_stream(ctx, tmp)
        c04.reused_args_untouched(ctx)
    finally:
        shutil.rmtree(tmp, ignore_errors=True)


def replay(ctx, rec):
    tmp = os.path.join(TMP, str(os.getpid()))
    os.makedirs(tmp, exist_ok=True)
    try:
        case = rec["case"]["case"] if "case" in rec.get("case", {}) else rec["case"]
        check_case(ctx, case, tmp)
    finally:
        shutil.rmtree(tmp, ignore_errors=True)
