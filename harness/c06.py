"""C06 — reordering, transposing, copying and renaming keep every value with its IDs.

Every case = (table spec, layout route, history of prior operations, one operation).  The receiver is
built through the route, the history is replayed on it, then the operation under test runs on the
REAL biom code.  What is sent to Lean: the receiver observed before the call, the result (table or
error class), the receiver observed after the call, whether the returned object is the receiver,
and for `sort` what the user function was given and what it returned.  Tables are observed BY ID
(`get_value_by_ids`, `metadata(id, axis)`, `data(id, axis)`) and that view is cross-checked with
the positional one (`ids()`, `matrix_data`, `metadata()`), so a stale id -> position index shows.
Lean evaluates the declarative predicate `holds` on those observations and runs the model.
"""
import contextlib
import copy
import itertools
import random
import warnings

from . import core

AX = ("sample", "observation")
ALIGN_AXES = ("sample", "observation", "both", "detect")


# ----------------------------------------------------------------------------- observing a table
def observe(t, rng=None):
    """(by-ID observation in table_obs format, list of incoherences between the by-ID and positional views);
    with `rng` the accessors are asked in a random order"""
    pos = core.table_obs(t)
    obs, samp = pos["obs"], pos["samp"]
    if not obs or not samp or len(set(obs)) != len(obs) or len(set(samp)) != len(samp):
        return pos, []
    bad = []
    out = dict(pos)

    def part(name, f):
        try:
            f()
        except Exception as e:  # noqa: a lookup by an ID of the table must not fail
            bad.append("%s raised %s" % (name, core.err_name(e)))

    def cells():
        rows = [[core.frac(t.get_value_by_ids(o, s)) for s in samp] for o in obs]
        out["rows"] = rows
        if rows != pos["rows"]:
            bad.append("get_value_by_ids")

    def vectors():
        for i, o in enumerate(obs):
            if [core.frac(x) for x in t.data(o, axis="observation", dense=True)] != pos["rows"][i]:
                bad.append("data(observation)")
                break
        for j, s in enumerate(samp):
            if [core.frac(x) for x in t.data(s, axis="sample", dense=True)] != [r[j] for r in pos["rows"]]:
                bad.append("data(sample)")
                break

    def metadata():
        for key, axis, ids in (("omd", "observation", obs), ("smd", "sample", samp)):
            if t.metadata(axis=axis) is not None:
                md = [core.canon_md_entry(t.metadata(i, axis=axis)) for i in ids]
                out[key] = md
                if md != pos[key]:
                    bad.append("metadata(id,%s)" % axis)

    def index():
        for axis, ids in (("observation", obs), ("sample", samp)):
            if [t.index(i, axis) for i in ids] != list(range(len(ids))) or not all(t.exists(i, axis) for i in ids):
                bad.append("index(%s)" % axis)

    parts = [("get_value_by_ids", cells), ("data", vectors), ("metadata(id)", metadata), ("index", index)]
    if rng is not None:
        rng.shuffle(parts)
    for name, f in parts:
        part(name, f)
    return out, bad


# ----------------------------------------------------------------------------- ID containers
CONTAINERS = ["list", "tuple", "array_str", "array_object", "pandas_index"]


def as_container(ids, kind):
    """the same IDs in every kind of container the constructor / the operations accept"""
    ids = [str(i) for i in ids]
    if kind in (None, "list"):
        return ids
    if kind == "tuple":
        return tuple(ids)
    import numpy as np
    if kind == "array_str":
        return np.array(ids) if ids else np.array(ids, dtype=str)
    if kind == "array_object":
        return np.array(ids, dtype=object)
    if kind == "pandas_index":
        import pandas as pd
        return pd.Index(ids, dtype=object)
    raise ValueError(kind)


def build_table(spec, route, containers=None):
    """core.build with the ID lists handed over in the requested containers ({"obs": kind, "samp": kind})"""
    if containers:
        spec = dict(spec, obs=as_container(spec["obs"], containers.get("obs")),
                    samp=as_container(spec["samp"], containers.get("samp")))
    return core.build(spec, route)


# ----------------------------------------------------------------------------- user functions for sort
def _natsort(ids):
    from biom.util import natsort
    return natsort(ids)


SORT_FS = {
    "natsort": _natsort,
    "sorted": lambda ids: sorted(ids),
    "reverse": lambda ids: sorted(ids, reverse=True),
    "bylen": lambda ids: sorted(ids, key=lambda s: (len(s), s)),
    "identity": lambda ids: list(ids),
    "reversed": lambda ids: list(ids)[::-1],
    "rotate": lambda ids: list(ids)[1:] + list(ids)[:1],
    "array": lambda ids: __import__("numpy").array(sorted(ids)),
    # functions that do not return a permutation
    "drop_last": lambda ids: sorted(ids)[:-1],
    "dup_first": lambda ids: [sorted(ids)[0]] + sorted(ids),
    "add_unknown": lambda ids: sorted(ids) + ["not an id"],
}
PERM_FS = ["natsort", "sorted", "reverse", "bylen", "identity", "reversed", "rotate", "array"]


# ----------------------------------------------------------------------------- running one operation
def apply_op(t, op, rec=None):
    """run `op` on the real table `t`; returns the result (raises what the code raises)"""
    k = op["op"]
    style = op.get("style")
    if k == "sort_order":
        order = list(op["order"])
        ot = op.get("order_type")
        if ot == "array":
            ot = "array_str"
        if ot and (order or ot in ("tuple", "array_object", "pandas_index")):
            order = as_container(order, ot)
        given = [str(i) for i in order]
        try:
            if style == "defaults" and op["axis"] == "sample":
                return t.sort_order(order)
            if style == "positional":
                return t.sort_order(order, op["axis"])
            return t.sort_order(order, axis=op["axis"])
        finally:
            if rec is not None and [str(i) for i in order] != given:
                rec["argument_mutated"] = "order"
    if k == "sort":
        if op["f"] == "default":
            if rec is not None:
                rec["arg"] = [str(i) for i in t.ids(axis=op["axis"])]
                rec["ret"] = [str(i) for i in _natsort(t.ids(axis=op["axis"]))]
            if style == "defaults" and op["axis"] == "sample":
                return t.sort()
            return t.sort(axis=op["axis"])
        f = SORT_FS[op["f"]]

        def wrapped(ids):
            out = f(ids)
            if rec is not None:
                rec["arg"] = [str(i) for i in ids]
                rec["ret"] = [str(i) for i in out]
            return out
        return t.sort(sort_f=wrapped, axis=op["axis"])
    if k == "align_to":
        other = build_table(op["other"], op.get("other_route", "dense"), op.get("other_containers"))
        if rec is not None:
            rec["other_obs"] = [str(i) for i in other.ids(axis="observation")]
            rec["other_samp"] = [str(i) for i in other.ids()]
        if style == "defaults" and op["axis"] == "detect":
            return t.align_to(other)
        return t.align_to(other, axis=op["axis"])
    if k == "transpose":
        return t.transpose()
    if k == "copy":
        return t.copy()
    if k == "update_ids":
        m = dict((a, b) for a, b in op["id_map"])
        if style == "defaults":
            # leave out every keyword whose value is the documented default
            kw = {}
            if op["axis"] != "sample":
                kw["axis"] = op["axis"]
            if op["strict"] is not True:
                kw["strict"] = op["strict"]
            if op["inplace"] is not True:
                kw["inplace"] = op["inplace"]
            return t.update_ids(m, **kw)
        if style == "positional":
            return t.update_ids(m, op["axis"], op["strict"], op["inplace"])
        if style == "numpy-values":
            import numpy as np
            m = {a: np.str_(b) for a, b in m.items()}
        strict, inplace = op["strict"], op["inplace"]
        if style == "int-flags":
            strict, inplace = int(strict), int(inplace)         # 0 / 1
        elif style == "numpy-flags":
            import numpy as np
            strict, inplace = np.bool_(strict), np.bool_(inplace)
        given = dict(m)
        try:
            return t.update_ids(m, axis=op["axis"], strict=strict, inplace=inplace)
        finally:
            if rec is not None and (m != given or list(m) != list(given)):
                rec["argument_mutated"] = "id_map"
    # operations of other properties, used only inside histories
    if k == "filter_keep":
        t.filter(list(op["ids"]), axis=op["axis"], inplace=True)
        return t
    if k == "add_metadata":
        t.add_metadata({i: {op.get("key", "added"): "v-" + i} for i in op["ids"]}, axis=op["axis"])
        return t
    if k == "del_metadata":
        t.del_metadata(keys=list(op["keys"]), axis=op["axis"])
        return t
    if k == "edit_inner":
        # the caller edits, in place, a mutable object inside the metadata of one ID (at any nesting depth)
        v = t.metadata(op["id"], axis=op["axis"])[op["key"]]
        for step in op["path"]:
            v = v[step]
        if isinstance(v, dict):
            v["EDITED"] = 1
        else:
            v.append("EDITED")
        return t
    raise ValueError(k)


def build_chain(case, real=True):
    """(receiver, bystanders): every table the history went through, every table derived on the way
    (history step {"op": "derive", "by": op}: the receiver stays the receiver) and every table derived from the
    final receiver (case["derive"]) stays alive as a bystander [(label, table, snapshot)].  On the twin chain
    (real=False) each table is observed when it is created, and again whenever a history step changed that very
    object in place: the snapshot is what the table must still look like after everything that followed.  On the
    real chain the receiver is optionally read in full in a random accessor order (case["preread"]) and left
    in a random layout (case["poke"])."""
    t = build_table(case["spec"], case["route"], case.get("containers"))
    live = {}          # id(obj) -> [label, obj, snapshot]

    def note(label, x):
        ent = live.setdefault(id(x), [label, x, None])
        if not real:
            ent[2] = observe(x)[0]

    note("built", t)
    for k, h in enumerate(case["history"]):
        if h["op"] == "derive":
            note("history[%d]:derived-by-%s" % (k, h["by"]["op"]), apply_op(t, h["by"]))
        else:
            t = apply_op(t, h)
            note("history[%d]:%s" % (k, h["op"]), t)
    for k, d in enumerate(case.get("derive") or []):
        note("derived[%d]:%s" % (k, d["op"]), apply_op(t, d))
    bystanders = [tuple(e) for i, e in live.items() if i != id(t)]
    if real and t.shape[0] and t.shape[1]:
        if case.get("preread") is not None:
            observe(t, random.Random(case["preread"]))
        poke = case.get("poke")
        # reading one vector leaves the matrix CSC-backed ("col") or CSR-backed ("row")
        if poke == "col":
            t.data(t.ids()[0], axis="sample")
        elif poke == "row":
            t.data(t.ids(axis="observation")[0], axis="observation")
        elif isinstance(poke, dict):
            core.poke_layout(t, random.Random(poke["seed"]), 3)
    return t, bystanders


def make_receiver(case, poke=True):
    return build_chain(case, real=poke)[0]


@contextlib.contextmanager
def profile(name):
    """run under a non-default reaction to empty tables (the other kinds keep their default); "warnings-are-errors":
    default profile, but any warning the call emits is raised (none of these operations has a reason to warn)"""
    if not name:
        yield
        return
    if name == "warnings-are-errors":
        with warnings.catch_warnings():
            warnings.simplefilter("error")
            yield
        return
    import biom.err
    with warnings.catch_warnings():
        warnings.simplefilter("ignore")
        with biom.err.errstate(empty=name):
            yield


def safe_receiver(ctx, case, tags=()):
    """the receiver, or None (with a violation recorded) when the route or the history — which consist of
    operations of this property applied to valid arguments — raised"""
    try:
        return make_receiver(case)
    except Exception as e:  # noqa
        ctx.case(case)
        ctx.fail({"case": case}, "history.valid_operation_refused", tuple(tags) + ("history", core.err_name(e)))
        return None


def evaluate(ctx, case, tags=(), nontrivial=True):
    """run case["op"] on a freshly built receiver; ask Lean; classify.  Returns (result table or None, reply)."""
    op = case["op"]
    # observing converts the matrix layout, so the receiver is observed on a twin built the same way
    try:
        twin, twin_by = build_chain(case, real=False)
    except Exception as e:  # noqa
        ctx.case(case)
        ctx.fail({"case": case}, "history.valid_operation_refused", tuple(tags) + ("history", core.err_name(e)))
        return None, None
    before, bad0 = observe(twin)
    by_before = [(label, snap) for label, _, snap in twin_by]
    t, bystanders = build_chain(case)
    layout_tag(ctx, t)
    rec = {}
    order_rng = random.Random(case["preread"]) if case.get("preread") is not None else None
    with profile(case.get("profile")):
        try:
            r = apply_op(t, op, rec)
            # by-ID reads of the result come first, before any other accessor touches it
            res_obs, bad1 = observe(r, order_rng)
            result = {"ok": res_obs}
            same = r is t
        except Exception as e:  # noqa: the class is the observation
            r, bad1, same = None, [], False
            result = {"error": core.err_name(e)}
            if core.err_name(e) == "Other":
                result["detail"] = type(e).__name__
    after, bad2 = observe(t, order_rng)
    by_bad = []
    for (label, x, _), (_, was) in zip(bystanders, by_before):
        now, bad = observe(x)
        if bad or now != was:
            by_bad.append((label, bad or ["content changed since the table was made"]))
    req = {k: v for k, v in op.items() if k not in ("other", "other_route", "other_containers", "f", "style",
                                                    "order_type")}
    req["table"] = before
    req["obs"] = {"result": result, "after": after, "same": same}
    if op["op"] == "sort":
        req["sorted"] = rec.get("ret", [])
        req["obs"]["sort_arg"] = rec.get("arg")
        if "ret" not in rec:
            # sort_f was never called
            req["obs"]["sort_arg"] = None
    if op["op"] == "align_to":
        # the other table's ids as the real table reported them (the spec's when it could not be built)
        req["other_obs"] = rec.get("other_obs", list(op["other"]["obs"]))
        req["other_samp"] = rec.get("other_samp", list(op["other"]["samp"]))
    ctx.case(case, nontrivial=nontrivial)
    tags = tuple(tags) + (op["op"], "route=" + case["route"], "history=%d" % len(case["history"]))
    full = {"case": case, "request": req}
    if case.get("profile") == "raise" and \
            ((op["op"] == "sort_order" and not op["order"]) or (op["op"] == "sort" and not req["sorted"])):
        # the caller asked for empty tables to be an error: the empty reorder must be refused as one, the
        # receiver must be left as it was (the model describes the default profile, so Lean is not asked)
        ctx.count("profile=empty:raise refused-empty-result")
        if result != {"error": "TableException"} or after != before or bad2:
            ctx.fail(full, "%s.empty_result_under_empty_raise" % op["op"], tags)
        return None, None
    for nm, bad in (("receiver", bad0), ("result", bad1), ("receiver-after", bad2)):
        if bad:
            ctx.fail(full, "index.by_id_view_equals_positional_view", tags + (nm,) + tuple(bad))
    for label, bad in by_bad:
        # a table that is neither the receiver nor the result changed, or no longer answers by its own lookups
        ctx.fail(full, "bystander.unchanged_and_coherent", tags + (label,) + tuple(bad))
    if bystanders:
        ctx.count("bystanders=%d" % min(len(bystanders), 4))
    if rec.get("argument_mutated"):
        ctx.fail(full, "argument.left_as_given", tags + (rec["argument_mutated"],))
    if case.get("profile"):
        ctx.count("profile=%s" % case["profile"])
    rep = ctx.driver.ask(req)
    ctx.count("op=%s" % op["op"])
    ctx.count("outcome=%s:%s" % (op["op"], "ok" if "ok" in result else result["error"]))
    if not rep.get("model_holds", True):
        ctx.diverge(full, "theorem model_holds contradicted by the driver: %s" % rep.get("model_clause"), tags)
    if not rep["holds"]:
        ctx.fail(full, "%s.%s" % (op["op"], rep["clause"]), tags, detail={"model": rep["model"]})
    elif not rep["agree"]:
        ctx.diverge(full, "model and implementation differ on %s" % op["op"], tags, detail={"model": rep["model"]})
    return r, rep


def check_restored(ctx, case, t0_obs, r, what, tags=()):
    """r must have the content of the table observed as t0_obs"""
    ro, bad = observe(r)
    req = {"op": "restored", "table": t0_obs, "result": ro}
    rep = ctx.driver.ask(req)
    ctx.count("restored=%s" % what)
    full = {"case": case, "request": req, "what": what}
    if bad:
        ctx.fail(full, "index.by_id_view_equals_positional_view", tuple(tags) + tuple(bad))
    if not rep["holds"]:
        ctx.fail(full, "%s.%s" % (what, rep["clause"]), tuple(tags) + (what,))


# ----------------------------------------------------------------------------- generators
def layout_tag(ctx, t):
    f = core.layout_facts(t)
    ctx.count("receiver-layout=%s%s" % (f["format"], "" if f.get("sorted", True) else "-unsorted"))


def random_perm(rng, ids):
    p = list(ids)
    rng.shuffle(p)
    return p


NEW_ID_POOL = ["n%d" % i for i in range(40)] + ["a_much_longer_id", "long id with spaces / and slash", "é-new",
                                                 "日本語のID", "x", "Q" * 33, "z.z", "p|q", "tail blank ", "line end\n",
                                                 " lead blank", "ÅÄÖåäö", "tab\tin"]


def odd_id_text(rng, spec):
    """make some IDs of a spec look alike: trailing blank / newline, case variant, extension of another ID"""
    for key, mdkey in (("obs", "omd"), ("samp", "smd")):
        ids = spec[key]
        for _ in range(rng.choice([1, 1, 2])):
            k = rng.randrange(len(ids))
            other = ids[rng.randrange(len(ids))]
            cand = rng.choice([ids[k] + " ", ids[k] + "\n", other + "0", other.lower(), other.upper(), " " + other,
                               other + other, other[:-1] or other])
            if cand and cand not in ids:
                ids[k] = cand


def gen_map(rng, ids, kind):
    """id_map as a list of pairs for the axis ids `ids`"""
    ids = list(ids)
    n = len(ids)
    fresh = [x for x in NEW_ID_POOL if x not in ids]
    rng.shuffle(fresh)
    if kind == "total-injective":
        return [[i, fresh[k]] for k, i in enumerate(ids)]
    if kind == "partial-injective":
        keep = [i for i in ids if rng.random() < 0.5] or ids[:1]
        return [[i, fresh[k]] for k, i in enumerate(keep)]
    if kind == "lengthen":
        some = [i for i in ids if rng.random() < 0.6] or ids[:1]
        return [[i, i + "_much_longer_id" * rng.randint(1, 3)] for i in some]
    if kind == "lengthen-total":
        return [[i, i + "_much_longer_id"] for i in ids]
    if kind == "shorten":
        # distinct one/two-character names, shorter than most ids
        return [[i, "%x" % k] for k, i in enumerate(ids)]
    if kind == "shorten-partial":
        some = [i for i in ids if rng.random() < 0.5] or ids[:1]
        return [[i, "%x" % k] for k, i in enumerate(some)]
    if kind == "shorten-prefix":
        # first character only: collides whenever two ids share it
        return [[i, i[:1]] for i in ids]
    if kind == "swap" and n >= 2:
        a, b = rng.sample(ids, 2)
        rest = [[i, i] for i in ids if i not in (a, b) and rng.random() < 0.5]
        return [[a, b], [b, a]] + rest
    if kind == "cycle" and n >= 2:
        return [[ids[k], ids[(k + 1) % n]] for k in range(n)]
    if kind == "collide-total" and n >= 2:
        m = [[i, fresh[k]] for k, i in enumerate(ids)]
        a, b = rng.sample(range(n), 2)
        m[a][1] = m[b][1]
        return m
    if kind == "collide-with-kept" and n >= 2:
        a, b = rng.sample(ids, 2)
        return [[a, b]]
    if kind == "extra-keys":
        keep = [i for i in ids if rng.random() < 0.7] or ids[:1]
        return [[i, fresh[k]] for k, i in enumerate(keep)] + [["absent %d" % k, fresh[n + k]] for k in range(2)]
    if kind == "lookalike-keys":
        # keys that are NOT ids of the axis but look like them: nothing may be renamed through them
        look = core.tricky_unknown_ids(ids)[:4]
        keep = [i for i in ids if rng.random() < 0.4]
        return [[i, fresh[k]] for k, i in enumerate(keep)] + [[x, fresh[n + k]] for k, x in enumerate(look)]
    if kind == "same-length":
        # new names exactly as long as the old ones
        out, used = [], set(ids)
        for i in ids:
            c = "~" * len(i)
            j = 0
            while c in used:
                j += 1
                c = ("%d" % j + "~" * len(i))[:len(i)] if len(i) > len("%d" % j) else None
                if c is None:
                    break
            if c is None:
                continue
            used.add(c)
            out.append([i, c])
        return out or [[ids[0], ids[0]]]
    if kind == "extra-keys-long-value":
        return [["absent", "v" * 40]] + [[i, fresh[k]] for k, i in enumerate(ids)]
    if kind == "only-absent-keys":
        return [["absent", fresh[0]]]
    if kind == "identity":
        return [[i, i] for i in ids]
    if kind == "missing-one" and n >= 2:
        return [[i, fresh[k]] for k, i in enumerate(ids[:-1])]
    if kind == "empty":
        return []
    return [[i, fresh[k]] for k, i in enumerate(ids)]


MAP_KINDS = ["total-injective", "partial-injective", "lengthen", "lengthen-total", "shorten", "shorten-partial",
             "shorten-prefix", "swap", "cycle", "collide-total", "collide-with-kept", "extra-keys",
             "extra-keys-long-value", "only-absent-keys", "identity", "missing-one", "lookalike-keys", "same-length"]


def gen_other(rng, t_obs, t_samp, how):
    """spec of the `other` table of align_to, given the receiver's ids; how = (obs relation, samp relation)"""
    def ids_for(ids, rel, prefix):
        ids = list(ids)
        if rel == "same":
            return ids
        if rel == "permuted":
            return random_perm(rng, ids)
        if rel == "reversed":
            return ids[::-1]
        if rel == "subset" and len(ids) >= 2:
            return random_perm(rng, ids)[:-1]
        if rel == "superset":
            return random_perm(rng, ids + [prefix + " extra"])
        if rel == "replaced":
            p = random_perm(rng, ids)
            look = [x for x in core.tricky_unknown_ids(ids) if x not in p]
            p[0] = rng.choice(look) if look and rng.random() < 0.7 else prefix + " other"
            return p
        if rel == "disjoint":
            return [prefix + "%d" % k for k in range(len(ids))]
        return random_perm(rng, ids)
    obs = ids_for(t_obs, how[0], "OO")
    samp = ids_for(t_samp, how[1], "SS")
    return {"obs": obs, "samp": samp, "rows": core.gen_grid(rng, len(obs), len(samp), None, ("count",)),
            "omd": core.gen_md(rng, obs), "smd": core.gen_md(rng, samp), "type": None}


RELS = ["same", "permuted", "reversed", "subset", "superset", "replaced", "disjoint"]


def gen_history(ctx, rng, spec, route, max_len, containers=None):
    """a list of prior operations (valid arguments: all must succeed), generated by running them"""
    hist = []
    n = rng.choice([0, 0, 1, 1, 2, 3][:max_len + 3])
    try:
        t = build_table(spec, route, containers)
    except Exception:  # noqa: reported by safe_receiver
        return hist
    for _ in range(n):
        k = rng.choice(["sort_order", "sort_order", "transpose", "update_ids", "copy", "sort", "filter_keep",
                        "add_metadata", "add_metadata", "del_metadata", "derive", "derive"])
        axis = rng.choice(AX)
        cur = [str(i) for i in t.ids(axis=axis)]
        if k == "filter_keep" and len(cur) < 2:
            k = "copy"
        if k == "sort_order":
            op = {"op": "sort_order", "order": random_perm(rng, [str(i) for i in t.ids(axis=axis)]), "axis": axis}
        elif k == "sort":
            op = {"op": "sort", "f": rng.choice(["default", "reverse", "rotate"]), "axis": axis}
        elif k == "update_ids":
            ids = [str(i) for i in t.ids(axis=axis)]
            op = {"op": "update_ids", "id_map": gen_map(rng, ids, rng.choice(["lengthen", "shorten", "partial-injective"])),
                  "axis": axis, "strict": False, "inplace": rng.random() < 0.5}
        elif k == "filter_keep":
            op = {"op": k, "ids": random_perm(rng, cur)[:-1], "axis": axis}
        elif k == "add_metadata":
            md = t.metadata(axis=axis)
            keys = sorted({kk for e in md for kk in e}) if md is not None else []
            # a new category, or an existing one overwritten
            op = {"op": k, "ids": [i for i in cur if rng.random() < 0.7], "axis": axis,
                  "key": rng.choice(keys) if keys and rng.random() < 0.5 else "added"}
        elif k == "del_metadata":
            md = t.metadata(axis=axis)
            keys = sorted({kk for e in md for kk in e}) if md is not None else []
            if not keys:
                continue
            op = {"op": k, "keys": [rng.choice(keys)], "axis": axis}
        elif k == "derive":
            dk = rng.choice(["sort_order", "sort", "align_to", "transpose", "copy"])
            if dk == "sort_order":
                by = {"op": dk, "order": random_perm(rng, cur), "axis": axis}
            elif dk == "sort":
                by = {"op": dk, "f": rng.choice(["default", "reverse"]), "axis": axis}
            elif dk == "align_to":
                by = {"op": dk, "axis": "both",
                      "other": gen_other(rng, [str(i) for i in t.ids(axis="observation")], [str(i) for i in t.ids()],
                                         ("permuted", "permuted"))}
            else:
                by = {"op": dk}
            op = {"op": "derive", "by": by}
        else:
            op = {"op": k}
        try:
            if op["op"] == "derive":
                apply_op(t, op["by"])
            else:
                t = apply_op(t, op)
        except Exception as e:  # noqa
            ctx.fail({"case": mk_case(spec, route, hist, op)}, "history.valid_operation_refused",
                     ("history", op["op"], core.err_name(e)))
            continue
        hist.append(op)
    return hist


def mk_case(spec, route, history, op, poke=None, containers=None):
    c = {"spec": spec, "route": route, "history": history, "op": op, "poke": poke}
    if containers:
        c["containers"] = containers
    return c


def gen_containers(rng):
    return {"obs": rng.choice(CONTAINERS), "samp": rng.choice(CONTAINERS)}


def ids_of(case, axis):
    t = make_receiver(case)
    return [str(i) for i in t.ids(axis=axis)]


# ----------------------------------------------------------------------------- streams
def fixed_corpus(ctx):
    """hand-picked inputs, first: asymmetric tables where an axis mix-up or off-by-one shows"""
    spec = {"obs": ["o1", "o2", "o3"], "samp": ["s1", "s2", "s3"],
            "rows": [[3.0, 1.0, 2.0], [0.0, 5.0, 0.0], [7.0, 0.0, 11.0]],
            "omd": [{"taxonomy": ["k__A", "p__x"]}, {"taxonomy": ["k__B", "p__y"]}, {"taxonomy": ["k__C", "p__z"]}],
            "smd": [{"grp": "a"}, {"grp": "b"}, {"grp": "c"}], "type": "OTU table"}
    for route in ("dense", "csc", "csr_unsorted"):
        evaluate(ctx, mk_case(spec, route, [], {"op": "sort_order", "order": ["s3", "s1", "s2"], "axis": "sample"}), ("fixed",))
        evaluate(ctx, mk_case(spec, route, [], {"op": "sort_order", "order": ["o2", "o3", "o1"], "axis": "observation"}), ("fixed",))
        evaluate(ctx, mk_case(spec, route, [], {"op": "transpose"}), ("fixed",))
        evaluate(ctx, mk_case(spec, route, [{"op": "sort_order", "order": ["s3", "s1", "s2"], "axis": "sample"}],
                              {"op": "transpose"}), ("fixed",))
        for strict in (True, False):
            for inplace in (True, False):
                evaluate(ctx, mk_case(spec, route, [], {"op": "update_ids", "id_map": [["s1", "a_much_longer_id"]],
                                                        "axis": "sample", "strict": strict, "inplace": inplace}), ("fixed",))
                evaluate(ctx, mk_case(spec, route, [], {"op": "update_ids", "id_map": [["o1", "o2"]],
                                                        "axis": "observation", "strict": strict, "inplace": inplace}), ("fixed",))
    # the 2x3 fixtures of the test-suite style, rectangular
    spec2 = {"obs": ["O2", "O1"], "samp": ["S2", "S10", "S1"], "rows": [[1.0, 0.0, 4.0], [1.0, 3.0, 0.0]],
             "omd": None, "smd": [{"k": 1}, {"k": 2}, {"k": 3}], "type": None}
    for ax in AX:
        evaluate(ctx, mk_case(spec2, "dense", [], {"op": "sort", "f": "default", "axis": ax}), ("fixed",))
    other = {"obs": ["O1", "O2"], "samp": ["S1", "S2", "S10"], "rows": [[0.0] * 3] * 2, "omd": None, "smd": None,
             "type": None}
    for a in ALIGN_AXES + ("bogus",):
        evaluate(ctx, mk_case(spec2, "dense", [], {"op": "align_to", "other": other, "axis": a}), ("fixed",))


def degenerate_stream(ctx, specs):
    """calls whose id_map is empty (nothing to rename): `update_ids({}, ...)` raised ValueError from max([])
    before the repair c0839305; these inputs run first"""
    for spec in specs[:2]:
        for ax in AX:
            for strict in (True, False):
                for inplace in (True, False):
                    evaluate(ctx, mk_case(spec, "dense", [], {"op": "update_ids", "id_map": [], "axis": ax,
                                                              "strict": strict, "inplace": inplace}),
                             ("fixed", "empty-id-map"))
    # the same on tables with an axis without IDs (outside the property's domain; model agreement only matters)
    for spec in ({"obs": [], "samp": ["s1", "s2"], "rows": [], "omd": None, "smd": None, "type": None},
                 {"obs": ["o1", "o2"], "samp": [], "rows": [[], []], "omd": None, "smd": None, "type": None}):
        for ax in AX:
            for m in ([], [["absent", "x"]]):
                for strict in (True, False):
                    for inplace in (True, False):
                        evaluate(ctx, mk_case(spec, "dense", [], {"op": "update_ids", "id_map": m, "axis": ax,
                                                                  "strict": strict, "inplace": inplace}),
                                 ("fixed", "empty-axis"), nontrivial=False)


def exhaustive_perms(ctx, specs, routes):
    """every permutation of each axis (length <= 4), then back by the original order"""
    for spec in specs:
        for route in routes:
            base = mk_case(spec, route, [], {"op": "copy"})
            t0 = safe_receiver(ctx, base, ("exhaustive",))
            if t0 is None:
                continue
            t0_obs, _ = observe(t0)
            for ax in AX:
                ids = [str(i) for i in t0.ids(axis=ax)]
                for p in itertools.permutations(ids):
                    case = mk_case(spec, route, [], {"op": "sort_order", "order": list(p), "axis": ax})
                    r, _ = evaluate(ctx, case, ("exhaustive",), nontrivial=len(ids) >= 2)
                    ctx.count("perm-length=%d" % len(ids))
                    if r is not None:
                        back = mk_case(spec, route, [case["op"]], {"op": "sort_order", "order": ids, "axis": ax})
                        r2, _ = evaluate(ctx, back, ("exhaustive", "inverse"), nontrivial=len(ids) >= 2)
                        if r2 is not None:
                            check_restored(ctx, back, t0_obs, r2, "sort_order_then_inverse")


def op_stream(ctx, n, max_dim):
    rng = ctx.rng
    for it in range(n):
        classes = rng.choice([("count",), ("count", "dyadic"), ("count", "neg", "dyadic"), ("big", "tiny", "count"),
                              ("bits", "tiny", "big")])
        spec = core.gen_spec(rng, max_n=max_dim, max_m=max_dim, classes=classes,
                             alphabet=rng.choice(["mixed", "mixed", "ascii"]), md=rng.random() < 0.8)
        if rng.random() < 0.15:
            # metadata with some empty entries
            for key, ids in (("omd", spec["obs"]), ("smd", spec["samp"])):
                if spec[key] is not None:
                    for k in range(len(ids)):
                        if rng.random() < 0.5:
                            spec[key][k] = {}
        if rng.random() < 0.2:
            odd_id_text(rng, spec)
        if rng.random() < 0.12:
            share_labels(rng, spec)
        if rng.random() < 0.15:
            odd_unicode_ids(rng, spec)
        route = rng.choice(core.ROUTES)
        containers = gen_containers(rng) if rng.random() < 0.5 else None
        hist = gen_history(ctx, rng, spec, route, 3, containers)
        base = mk_case(spec, route, hist, None, rng.choice([None, "col", "row", {"seed": rng.randrange(10 ** 6)},
                                                            {"seed": rng.randrange(10 ** 6)}]), containers)
        if rng.random() < 0.3:
            base["preread"] = rng.randrange(10 ** 6)
        if rng.random() < 0.2:
            base["profile"] = rng.choice(["raise", "raise", "warn", "call", "warnings-are-errors"])
        style = rng.choice([None, None, "defaults", "positional", "numpy-values", "int-flags", "numpy-flags"])
        t0 = safe_receiver(ctx, dict(base, op={"op": "copy"}), ("random",))
        if t0 is None:
            continue
        t0_obs, _ = observe(t0)
        ids = {ax: [str(i) for i in t0.ids(axis=ax)] for ax in AX}
        pick = rng.random()
        ax = rng.choice(AX)
        if pick < 0.22:
            # reorderings: permutation, then inverse; or a non-permutation
            kind = rng.choice(["perm", "perm", "perm", "subset", "dup", "unknown", "empty", "dup+unknown"])
            order = random_perm(rng, ids[ax])
            if kind == "subset":
                order = order[:rng.randint(1, max(1, len(order) - 1))]
            elif kind == "dup":
                order = order + [order[0]]
            elif kind == "unknown":
                look = core.tricky_unknown_ids(ids[ax])
                order[rng.randrange(len(order))] = rng.choice(look) if look and rng.random() < 0.7 else "not an id"
            elif kind == "dup+unknown":
                look = core.tricky_unknown_ids(ids[ax])
                order = [order[0]] + order + [rng.choice(look) if look else "not an id"]
            elif kind == "empty":
                order = []
            case = dict(base, op={"op": "sort_order", "order": order, "axis": ax, "style": style,
                                  "order_type": rng.choice([None, None] + CONTAINERS[1:])})
            r, _ = evaluate(ctx, case, ("random", "order=" + kind), nontrivial=len(ids[ax]) >= 2)
            ctx.count("order-kind=%s" % kind)
            if kind == "perm":
                ctx.count("perm-length=%d" % len(order))
            if r is not None and kind == "perm":
                back = mk_case(spec, route, hist + [case["op"]], {"op": "sort_order", "order": ids[ax], "axis": ax},
                               containers=containers)
                r2, _ = evaluate(ctx, back, ("random", "inverse"))
                if r2 is not None:
                    check_restored(ctx, back, t0_obs, r2, "sort_order_then_inverse")
        elif pick < 0.34:
            f = rng.choice(list(SORT_FS) + ["default", "default"])
            case = dict(base, op={"op": "sort", "f": f, "axis": ax, "style": style})
            evaluate(ctx, case, ("random", "sort_f=" + f), nontrivial=len(ids[ax]) >= 2)
            ctx.count("sort_f=%s" % f)
        elif pick < 0.56:
            how = (rng.choice(RELS), rng.choice(RELS))
            if rng.random() < 0.5:
                how = (rng.choice(["same", "permuted", "reversed"]), rng.choice(["same", "permuted", "reversed"]))
            other = gen_other(rng, ids["observation"], ids["sample"], how)
            oroute = rng.choice(["dense", "csc", "sort_roundtrip"])
            ocont = gen_containers(rng) if rng.random() < 0.5 else None
            for a in ALIGN_AXES + (("bogus",) if rng.random() < 0.1 else ()):
                case = dict(base, op={"op": "align_to", "other": other, "other_route": oroute, "axis": a,
                                      "style": style, "other_containers": ocont})
                evaluate(ctx, case, ("random", "align=%s/%s" % how))
                ctx.count("align-relation=%s/%s" % tuple("equal" if h in ("same", "permuted", "reversed") else "unequal"
                                                         for h in how))
        elif pick < 0.66:
            case = dict(base, op={"op": "transpose"})
            r, _ = evaluate(ctx, case, ("random",))
            if r is not None:
                back = mk_case(spec, route, hist + [case["op"]], {"op": "transpose"}, containers=containers)
                r2, _ = evaluate(ctx, back, ("random", "transpose-twice"))
                if r2 is not None:
                    check_restored(ctx, back, t0_obs, r2, "transpose_twice")
        elif pick < 0.70:
            evaluate(ctx, dict(base, op={"op": "copy"}), ("random",))
        else:
            kind = rng.choice(MAP_KINDS)
            m = gen_map(rng, ids[ax], kind)
            ctx.count("map-kind=%s" % kind)
            for strict in (True, False):
                for inplace in (True, False):
                    case = dict(base, op={"op": "update_ids", "id_map": m, "axis": ax, "strict": strict,
                                          "inplace": inplace, "style": style})
                    r, _ = evaluate(ctx, case, ("random", "map=" + kind))
                    if r is not None and kind in ("total-injective", "lengthen-total", "shorten", "cycle") and not inplace:
                        inv = [[b, a] for a, b in m]
                        back = mk_case(spec, route, hist + [case["op"]],
                                       {"op": "update_ids", "id_map": inv, "axis": ax, "strict": strict, "inplace": True},
                                       containers=containers)
                        r2, _ = evaluate(ctx, back, ("random", "inverse-renaming"))
                        if r2 is not None:
                            check_restored(ctx, back, t0_obs, r2, "rename_then_inverse")


def aliasing_stream(ctx, specs):
    """tables derived from one another stay alive; one of them is renamed IN PLACE (names that fit the width of
    the existing ID array: shorter, same length, a rotation of the existing IDs); every other live table must be
    unchanged and must still answer through its own lookups"""
    rng = ctx.rng
    for spec in specs:
        for dk in ("sort_order", "sort", "transpose", "copy", "align_to", "update_ids"):
            for direction in ("rename-derived", "rename-source"):
                for ax in AX:
                    dax = rng.choice(AX)
                    if dk == "sort_order":
                        d = {"op": dk, "order": random_perm(rng, spec["obs" if dax == "observation" else "samp"]),
                             "axis": dax}
                    elif dk == "sort":
                        d = {"op": dk, "f": rng.choice(["default", "reverse", "rotate"]), "axis": dax}
                    elif dk == "align_to":
                        d = {"op": dk, "other": gen_other(rng, spec["obs"], spec["samp"], ("permuted", "reversed")),
                             "axis": "both"}
                    elif dk == "update_ids":
                        d = {"op": dk, "id_map": gen_map(rng, spec["obs" if dax == "observation" else "samp"],
                                                         "partial-injective"),
                             "axis": dax, "strict": False, "inplace": False}
                    else:
                        d = {"op": dk}
                    case = mk_case(spec, "dense", [d] if direction == "rename-derived" else [], None,
                                   rng.choice([None, "col", {"seed": rng.randrange(10 ** 6)}]))
                    if direction == "rename-source":
                        case["derive"] = [d, {"op": "transpose"}]
                    ids = ids_of(dict(case, op={"op": "copy"}), ax)
                    kind = rng.choice(["shorten", "same-length", "cycle", "swap", "shorten-partial"])
                    case["op"] = {"op": "update_ids", "id_map": gen_map(rng, ids, kind), "axis": ax,
                                  "strict": False, "inplace": True}
                    evaluate(ctx, case, ("aliasing", direction, "derived-by=" + dk, "map=" + kind))
                    ctx.count("aliasing=%s/%s" % (direction, dk))


def value_alias_one(ctx, va, tags=()):
    """va = {"spec", "route", "poke", "derive": op, "direction", "vaxis"}: a table is left in some layout, a table is
    derived from it by an operation of this property, then the values of ONE of the two are changed in place and —
    before anything else is asked of either — the OTHER must still hold what it held"""
    spec, d = va["spec"], va["derive"]

    def mk():
        t = build_table(spec, va["route"])
        poke = va["poke"]
        if t.shape[0] and t.shape[1]:
            if poke == "col":
                t.data(t.ids()[0], axis="sample")
            elif poke == "row":
                t.data(t.ids(axis="observation")[0], axis="observation")
            elif isinstance(poke, dict):
                core.poke_layout(t, random.Random(poke["seed"]), 3)
        return t
    twin = mk()
    src_was = observe(build_table(spec, va["route"]))[0]
    der_was = observe(apply_op(twin, d))[0]
    t = mk()
    r = apply_op(t, d)
    ctx.case({"value_alias": va})
    full = {"case": {"value_alias": va}}
    if r is t:
        ctx.fail(full, "bystander.unchanged_and_coherent", tuple(tags) + ("derived-table-is-the-receiver",))
        return
    changed, other, was = (r, t, src_was) if va["direction"] == "change-derived" else (t, r, der_was)
    changed.transform(lambda v, i, m: v * 3 + 1, axis=va["vaxis"], inplace=True)
    now, bad = observe(other)
    ctx.count("value-alias=%s/%s" % (d["op"], va["direction"]))
    if bad or now != was:
        ctx.fail(full, "bystander.unchanged_and_coherent",
                 tuple(tags) + ("value-alias", "derived-by=" + d["op"], va["direction"]) + tuple(bad or ["content changed"]))


def value_aliasing_stream(ctx, specs):
    rng = ctx.rng
    for spec in specs:
        if not spec["obs"] or not spec["samp"]:
            continue
        for dk in ("transpose", "copy", "sort_order", "sort", "update_ids"):
            for poke in ("col", "row", {"seed": rng.randrange(10 ** 6)}):
                for direction in ("change-derived", "change-source"):
                    dax = rng.choice(AX)
                    if dk == "sort_order":
                        d = {"op": dk, "order": random_perm(rng, spec["obs" if dax == "observation" else "samp"]), "axis": dax}
                    elif dk == "sort":
                        d = {"op": dk, "f": rng.choice(["default", "reverse", "rotate"]), "axis": dax}
                    elif dk == "update_ids":
                        d = {"op": dk, "id_map": gen_map(rng, spec["obs" if dax == "observation" else "samp"], "partial-injective"),
                             "axis": dax, "strict": False, "inplace": False}
                    else:
                        d = {"op": dk}
                    value_alias_one(ctx, {"spec": spec, "route": rng.choice(["dense", "csr", "csc"]), "poke": poke, "derive": d,
                                          "direction": direction, "vaxis": rng.choice(AX)}, ("value-aliasing",))


def share_labels(rng, spec):
    """give the two axes (partly) the same ID text, each in its own order"""
    obs, samp = spec["obs"], spec["samp"]
    k = min(len(obs), len(samp))
    shared = random_perm(rng, obs)[:k]
    rest = [x for x in samp if x not in obs][:len(samp) - k]
    new = random_perm(rng, shared + rest)
    if len(set(new)) == len(samp):
        spec["samp"] = new


def numbered_spec(rng, n_axis, axis, other=None, md=True, shuffled=False):
    """S1..Sn on one axis: the numeric order is not the lexicographic one (S10 < S2 as text)"""
    other = other or rng.choice([2, 3])
    n, m = (other, n_axis) if axis == "sample" else (n_axis, other)
    obs = ["O%d" % (i + 1) for i in range(n)]
    samp = ["S%d" % (i + 1) for i in range(m)]
    if shuffled:
        rng.shuffle(obs)
        rng.shuffle(samp)
    # every cell distinct, a third of them zero
    rows = [[float(1 + i * m + j) if (i + j) % 3 else 0.0 for j in range(m)] for i in range(n)]
    return {"obs": obs, "samp": samp, "rows": rows,
            "omd": [{"k": "md-" + i} for i in obs] if md else None,
            "smd": [{"k": "md-" + i} for i in samp] if md else None, "type": None}


def wide_stream(ctx, sizes):
    """tables with many IDs on the reordered axis (thresholds met in fast paths: 64, 128, 256), current order not
    lexicographic; permutation + inverse, sort, align_to, transpose, update_ids; arguments in non-axis order"""
    rng = ctx.rng
    for k, n_axis in enumerate(sizes):
        wax = AX[k % 2]
        oax = AX[1 - k % 2]
        spec = numbered_spec(rng, n_axis, wax, md=(k % 3 != 2), shuffled=(k % 4 == 3))
        ids = spec["samp"] if wax == "sample" else spec["obs"]
        route = rng.choice(["dense", "csc", "csr_unsorted"])
        poke = {"seed": rng.randrange(10 ** 6)}
        cont = gen_containers(rng) if k % 2 else None
        t0_obs = observe(build_table(spec, route, cont))[0]
        perm = random_perm(rng, ids)
        case = mk_case(spec, route, [], {"op": "sort_order", "order": perm, "axis": wax}, poke, cont)
        r, _ = evaluate(ctx, case, ("wide",))
        if r is not None:
            back = mk_case(spec, route, [case["op"]], {"op": "sort_order", "order": list(ids), "axis": wax}, poke, cont)
            r2, _ = evaluate(ctx, back, ("wide", "inverse"))
            if r2 is not None:
                check_restored(ctx, back, t0_obs, r2, "sort_order_then_inverse")
        big = n_axis > 256 and ctx.quick()      # the largest tables of a quick run get the shorter programme
        for f in (("default",) if big else ("default", "sorted")):
            # from the numeric order and from a shuffled one
            if not big:
                evaluate(ctx, mk_case(spec, route, [], {"op": "sort", "f": f, "axis": wax}, poke, cont), ("wide",))
            evaluate(ctx, mk_case(spec, route, [case["op"]], {"op": "sort", "f": f, "axis": wax}, poke, cont), ("wide",))
        other = gen_other(rng, spec["obs"], spec["samp"], ("permuted", "permuted"))
        for a in ((rng.choice(["both", "detect", wax]),) if big else ("both", "detect", wax)):
            evaluate(ctx, mk_case(spec, route, [], {"op": "align_to", "other": other, "axis": a}, poke, cont), ("wide",))
        if k % 2 == 0 and not big:
            evaluate(ctx, mk_case(spec, route, [case["op"]], {"op": "transpose"}, poke, cont), ("wide",))
            # after a transpose the long axis is the other one
            evaluate(ctx, mk_case(spec, route, [{"op": "transpose"}],
                                  {"op": "sort_order", "order": perm, "axis": oax}, poke, cont), ("wide",))
        evaluate(ctx, mk_case(spec, route, [case["op"]],
                              {"op": "update_ids", "id_map": gen_map(rng, ids, rng.choice(["lengthen", "cycle"])),
                               "axis": wax, "strict": False, "inplace": k % 2 == 0}, poke, cont), ("wide",))
        ctx.count("wide-axis-length=%s" % ("64-127" if n_axis < 128 else "128-255" if n_axis < 256 else
                                           "256-511" if n_axis < 512 else ">=512"))


def metadata_aliasing_stream(ctx, specs):
    """a table is derived from one that has metadata; then the metadata of ONE of the two is edited in place
    (category added, overwritten, deleted); the other must keep every entry it had when it was made"""
    rng = ctx.rng
    for spec in specs:
        for dk in ("sort_order", "sort", "align_to", "transpose", "copy", "update_ids"):
            for ax in AX:
                ids = spec["obs"] if ax == "observation" else spec["samp"]
                md = spec["omd" if ax == "observation" else "smd"]
                keys = sorted({k for e in (md or []) for k in e})
                dax = rng.choice(AX)
                dids = spec["obs"] if dax == "observation" else spec["samp"]
                if dk == "sort_order":
                    by = {"op": dk, "order": random_perm(rng, dids), "axis": dax}
                elif dk == "sort":
                    by = {"op": dk, "f": "reverse", "axis": dax}
                elif dk == "align_to":
                    by = {"op": dk, "other": gen_other(rng, spec["obs"], spec["samp"], ("permuted", "permuted")),
                          "axis": "both"}
                elif dk == "update_ids":
                    by = {"op": dk, "id_map": gen_map(rng, dids, "lengthen"), "axis": dax, "strict": False,
                          "inplace": False}
                else:
                    by = {"op": dk}
                edits = [{"op": "add_metadata", "ids": list(ids), "axis": ax, "key": "added"}]
                if keys:
                    edits.append({"op": "add_metadata", "ids": list(ids)[:2], "axis": ax, "key": keys[0]})
                    edits.append({"op": "del_metadata", "keys": [keys[-1]], "axis": ax})
                for e in edits:
                    if dk in ("transpose",):
                        e = dict(e)          # IDs of `ax` sit on the other axis of the transposed table
                    # (a) the source is edited after the derivation  (b) the derived table is edited
                    evaluate(ctx, mk_case(spec, "dense", [{"op": "derive", "by": by}, e], {"op": "copy"}),
                             ("metadata-aliasing", "edit-source", "derived-by=" + dk))
                    if dk != "transpose":
                        evaluate(ctx, mk_case(spec, "dense", [by, e], {"op": "copy"}),
                                 ("metadata-aliasing", "edit-derived", "derived-by=" + dk))
                    ctx.count("metadata-aliasing=%s" % dk)


def degenerate_shape_stream(ctx):
    """tables with an axis without IDs (built so, or emptied by a filter): outside the property's 1..N x 1..M
    domain as stated, but every operation is defined on them and the theorems cover them (`valid` admits them)"""
    rng = ctx.rng
    three = ["s1", "s10", "s2"]
    specs = [
        {"obs": [], "samp": list(three), "rows": [], "omd": None, "smd": [{"k": "md-" + i} for i in three], "type": None},
        {"obs": ["o2", "o1"], "samp": [], "rows": [[], []], "omd": [{"k": "md-o2"}, {"k": "md-o1"}], "smd": None,
         "type": "OTU table"},
        {"obs": [], "samp": [], "rows": [], "omd": None, "smd": None, "type": None},
    ]
    full = {"obs": ["o2", "o1"], "samp": list(three), "rows": [[1.0, 0.0, 2.0], [0.0, 3.0, 4.0]],
            "omd": [{"k": "md-o2"}, {"k": "md-o1"}], "smd": [{"k": "md-" + i} for i in three], "type": None}
    cases = [(sp, []) for sp in specs]
    cases.append((full, [{"op": "filter_keep", "ids": [], "axis": "observation"}]))
    cases.append((full, [{"op": "filter_keep", "ids": [], "axis": "sample"}]))
    for spec, hist in cases:
        for route in ("dense", "csc"):
            base = mk_case(spec, route, hist, {"op": "copy"})
            t0 = safe_receiver(ctx, base, ("degenerate-shape",))
            if t0 is None:
                continue
            t0_obs = observe(t0)[0]
            ids = {ax: [str(i) for i in t0.ids(axis=ax)] for ax in AX}
            ops = [{"op": "transpose"}, {"op": "copy"}]
            for ax in AX:
                ops.append({"op": "sort_order", "order": random_perm(rng, ids[ax]), "axis": ax})
                ops.append({"op": "sort", "f": rng.choice(["default", "reverse"]), "axis": ax})
                if ids[ax]:
                    for inplace in (True, False):
                        ops.append({"op": "update_ids", "id_map": gen_map(rng, ids[ax], "lengthen"), "axis": ax,
                                    "strict": False, "inplace": inplace})
                        ops.append({"op": "update_ids", "id_map": gen_map(rng, ids[ax], "cycle"), "axis": ax,
                                    "strict": True, "inplace": inplace})
            other = dict(spec if not hist else {"obs": ids["observation"], "samp": ids["sample"], "rows": [
                [0.0] * len(ids["sample"])] * len(ids["observation"]), "type": None}, omd=None, smd=None)
            other = dict(other, obs=random_perm(rng, ids["observation"]), samp=random_perm(rng, ids["sample"]))
            for a in ALIGN_AXES:
                ops.append({"op": "align_to", "other": other, "axis": a})
            for op in ops:
                r, _ = evaluate(ctx, mk_case(spec, route, hist, op), ("degenerate-shape",), nontrivial=False)
                if op["op"] == "transpose" and r is not None:
                    r2, _ = evaluate(ctx, mk_case(spec, route, hist + [op], {"op": "transpose"}),
                                     ("degenerate-shape", "transpose-twice"), nontrivial=False)
                    if r2 is not None:
                        check_restored(ctx, mk_case(spec, route, hist + [op], {"op": "transpose"}), t0_obs, r2,
                                       "transpose_twice")
            ctx.count("degenerate-shape=%dx%d" % (len(ids["observation"]), len(ids["sample"])))


def unicode_stream(ctx, n_nasty):
    """IDs that are different texts although they look or normalise alike: NFC and NFD spellings of one text on ONE
    axis (core.twin_ids), texts with '%', quotes, U+2028/2029/0085, form feed, braces, '#', blanks
    (core.NASTY_TEXTS); all permutations of short axes, sort, align_to, renaming one spelling into another text,
    renaming onto the twin spelling, transpose"""
    rng = ctx.rng
    axes = []
    for pair in core.NORMALISATION_PAIRS[: (2 if ctx.quick() else len(core.NORMALISATION_PAIRS))]:
        axes.append([pair[0], pair[1], "tea"])
    axes.append(core.twin_ids(rng, 2))
    for _ in range(n_nasty):
        axes.append(rng.sample(core.NASTY_TEXTS, 3))
    for k, ids in enumerate(axes):
        ids = list(ids)
        for wax in AX:
            n = len(ids)
            oth = ["o-%s" % x for x in ids[:2]] if k % 2 else ["q1", "q2"]
            obs, samp = (oth, ids) if wax == "sample" else (ids, oth)
            rows = [[float(1 + i * len(samp) + j) if (i + j) % 3 else 0.0 for j in range(len(samp))]
                    for i in range(len(obs))]
            spec = {"obs": obs, "samp": samp, "rows": rows, "omd": [{"who": "o:" + x, "text": x} for x in obs],
                    "smd": [{"who": "s:" + x} for x in samp], "type": None}
            cont = gen_containers(rng) if k % 2 else None
            t0_obs = observe(build_table(spec, "dense", cont))[0]
            perms = list(itertools.permutations(ids)) if n <= 3 else rng.sample(list(itertools.permutations(ids)), 6)
            for p in perms:
                case = mk_case(spec, "dense", [], {"op": "sort_order", "order": list(p), "axis": wax}, None, cont)
                r, _ = evaluate(ctx, case, ("unicode",))
                if r is not None:
                    back = mk_case(spec, "dense", [case["op"]], {"op": "sort_order", "order": ids, "axis": wax}, None, cont)
                    r2, _ = evaluate(ctx, back, ("unicode", "inverse"))
                    if r2 is not None:
                        check_restored(ctx, back, t0_obs, r2, "sort_order_then_inverse")
            for f in ("default", "reverse"):
                evaluate(ctx, mk_case(spec, "csc", [], {"op": "sort", "f": f, "axis": wax}, None, cont), ("unicode",))
            other = gen_other(rng, obs, samp, ("permuted", "permuted"))
            for a in ALIGN_AXES:
                evaluate(ctx, mk_case(spec, "dense", [], {"op": "align_to", "other": other, "axis": a}, None, cont),
                         ("unicode",))
            evaluate(ctx, mk_case(spec, "dense", [], {"op": "transpose"}, None, cont), ("unicode",))
            evaluate(ctx, mk_case(spec, "dense", [{"op": "transpose"}],
                                  {"op": "sort_order", "order": list(perms[-1]),
                                   "axis": AX[1 - AX.index(wax)]}, None, cont), ("unicode",))
            maps = [[[ids[0], ids[0] + "_much_longer_id"]],                  # one spelling renamed, its twin kept
                    [[ids[0], ids[1]], [ids[1], ids[0]]],                    # the two spellings change places
                    [[ids[0], ids[1]]],                                      # onto the twin: a collision
                    [[i, rng.choice(core.NASTY_TEXTS) + str(j)] for j, i in enumerate(ids)]]
            for m in maps:
                for strict in (True, False):
                    for inplace in (True, False):
                        evaluate(ctx, mk_case(spec, "dense", [], {"op": "update_ids", "id_map": m, "axis": wax,
                                                                  "strict": strict, "inplace": inplace}, None, cont),
                                 ("unicode",))
            ctx.count("unicode-axis=%s" % ("twins" if k <= len(axes) - n_nasty - 1 else "nasty"))


def odd_unicode_ids(rng, spec):
    """put canonically equivalent twins / nasty texts among the IDs of a random spec"""
    for key in ("obs", "samp"):
        ids = spec[key]
        if rng.random() < 0.5:
            new = core.twin_ids(rng, 1) if len(ids) >= 2 and rng.random() < 0.6 else [rng.choice(core.NASTY_TEXTS)]
            pos = rng.sample(range(len(ids)), min(len(new), len(ids)))
            for p_, x in zip(pos, new):
                if x not in ids:
                    ids[p_] = x
    for key in ("omd", "smd"):
        if spec[key] is not None and rng.random() < 0.5:
            for e in spec[key]:
                if e and rng.random() < 0.5:
                    e["note"] = rng.choice(core.NASTY_TEXTS + [a for pr in core.NORMALISATION_PAIRS for a in pr])


def nested_md(rng, ids):
    """metadata nested two and more levels (KEGG_Pathways style lists of lists, dicts of dicts / lists, a tuple holding
    lists), next to None and numpy scalars as they come back from files, categories named like fields or IDs"""
    import numpy as np
    out = []
    for k, i in enumerate(ids):
        out.append({"KEGG_Pathways": [["Metabolism", "Carbohydrate %d" % k], ["Genetic", "Translation", i]],
                    "info": {"depth": {"reads": [k, k + 1], "ok": True}, "tags": ["t%d" % k]},
                    "pair": (["left", i], ["right"]),
                    "taxonomy": ["k__A", "p__%d" % k],
                    "id": np.int64(k), "shape": np.float64(k + 0.5), "flag": np.bool_(k % 2 == 0), "none": None,
                    str(ids[0]): "named like an ID"})
    return out


def inner_paths(v, path=()):
    """paths (below a metadata value) to every mutable container that can be edited in place"""
    found = []
    if isinstance(v, list):
        found.append(list(path))
        for j, x in enumerate(v):
            found += inner_paths(x, path + (j,))
    elif isinstance(v, tuple):
        for j, x in enumerate(v):
            found += inner_paths(x, path + (j,))
    elif isinstance(v, dict):
        found.append(list(path))
        for j, x in v.items():
            found += inner_paths(x, path + (j,))
    return found


DEEP_COPYING = ["copy", "transpose", "update_ids"]     # operations documented to return entirely new tables


def nested_metadata_stream(ctx, n):
    """metadata nested several levels; a table is derived by an operation that returns an entirely new table
    (copy, transpose — also twice —, update_ids(inplace=False)), chains of them; then a mutable object INSIDE the
    metadata of one ID is edited in place (any depth) through the source or through the derived table; every other
    live table must keep what it had.  (sort_order/sort/align_to hand the metadata VALUES of the source on to the
    result — the code promises no copy there — so edits after those are not judged here.)"""
    rng = ctx.rng
    for it in range(n):
        no, ns = rng.randint(2, 3), rng.randint(2, 3)
        obs, samp = core.gen_ids(rng, no, "O", "ascii"), core.gen_ids(rng, ns, "S", "ascii")
        spec = {"obs": obs, "samp": samp, "rows": core.gen_grid(rng, no, ns, 0.7, ("count",)),
                "omd": nested_md(rng, obs) if it % 3 != 1 else None,
                "smd": nested_md(rng, samp) if it % 3 != 2 else None, "type": None}
        steps = []
        for _ in range(rng.choice([1, 1, 2, 3])):
            dk = rng.choice(DEEP_COPYING)
            if dk == "update_ids":
                ax = rng.choice(AX)
                # names unlikely to exist already, whatever happened before
                by = {"op": dk, "id_map": [], "axis": ax, "strict": False, "inplace": False, "_fresh": True}
            else:
                by = {"op": dk}
            steps.append(by)
        # lay the steps out as history: some derivations keep the receiver (bystander = derived table),
        # some move on to the derived table (bystander = source)
        hist = []
        cont = gen_containers(rng) if rng.random() < 0.3 else None
        t = build_table(spec, "dense", cont)
        for by in steps:
            by = dict(by)
            if by.pop("_fresh", False):
                cur = [str(i) for i in t.ids(axis=by["axis"])]
                by["id_map"] = [[cur[0], cur[0] + "_renamed_%d" % len(hist)]]
            if rng.random() < 0.5:
                hist.append({"op": "derive", "by": by})
                apply_op(t, by)
            else:
                hist.append(by)
                t = apply_op(t, by)
        # one or two in-place edits of inner objects of the receiver's metadata
        for _ in range(rng.choice([1, 2])):
            cands = []
            for ax in AX:
                md = t.metadata(axis=ax)
                if md is None:
                    continue
                for i, e in zip(t.ids(axis=ax), md):
                    for key, v in e.items():
                        for pth in inner_paths(v):
                            cands.append({"op": "edit_inner", "axis": ax, "id": str(i), "key": key, "path": pth})
            if not cands:
                break
            deep = [c for c in cands if len(c["path"]) >= 1]
            e = rng.choice(deep if deep and rng.random() < 0.7 else cands)
            hist.append(e)
            apply_op(t, e)
            ctx.count("inner-edit-depth=%d" % (1 + len(e["path"])))
        evaluate(ctx, mk_case(spec, "dense", hist, {"op": rng.choice(["copy", "transpose", "copy"])}, None, cont),
                 ("nested-metadata",))
        # and the operations themselves on nested metadata
        ax = rng.choice(AX)
        ids = spec["obs"] if ax == "observation" else spec["samp"]
        evaluate(ctx, mk_case(spec, "csc", [], {"op": "sort_order", "order": random_perm(rng, ids), "axis": ax}, None, cont),
                 ("nested-metadata",))


def container_stream(ctx, specs):
    """every operation on tables whose IDs were handed over in every accepted kind of container"""
    rng = ctx.rng
    pairs = [{"obs": k, "samp": k} for k in CONTAINERS] + [{"obs": "pandas_index", "samp": "list"},
                                                           {"obs": "array_str", "samp": "array_object"}]
    for spec in specs:
        for cont in pairs:
            for ax in AX:
                ids = spec["obs"] if ax == "observation" else spec["samp"]
                ops = [{"op": "sort_order", "order": random_perm(rng, ids), "axis": ax,
                        "order_type": rng.choice(CONTAINERS)},
                       {"op": "sort", "f": rng.choice(["default", "reverse"]), "axis": ax}]
                for kind in ("shorten-partial", "only-absent-keys", "lengthen", "lookalike-keys"):
                    for inplace in (True, False):
                        ops.append({"op": "update_ids", "id_map": gen_map(rng, ids, kind), "axis": ax,
                                    "strict": False, "inplace": inplace})
                ops.append({"op": "update_ids", "id_map": gen_map(rng, ids, "shorten"), "axis": ax, "strict": True,
                            "inplace": rng.random() < 0.5})
                for op in ops:
                    evaluate(ctx, mk_case(spec, rng.choice(["dense", "csc"]), [], op, None, cont), ("containers",))
            other = gen_other(rng, spec["obs"], spec["samp"], ("permuted", "reversed"))
            evaluate(ctx, mk_case(spec, "dense", [], {"op": "align_to", "other": other, "axis": rng.choice(ALIGN_AXES),
                                                      "other_containers": gen_containers(rng)}, None, cont), ("containers",))
            evaluate(ctx, mk_case(spec, "dense", [], {"op": "transpose"}, None, cont), ("containers",))
            evaluate(ctx, mk_case(spec, "dense", [{"op": "transpose"}], {"op": "copy"}, None, cont), ("containers",))
            ctx.count("containers=%s/%s" % (cont["obs"], cont["samp"]))


COOC_FS = ["default", "sorted", "reverse", "bylen"]


def cooccurrence_stream(ctx, labels, orders, fs, tag):
    """square tables carrying the SAME labels on both axes (co-occurrence style), each axis in its own order —
    one sorted and the other not, both, neither; sort on every axis, the two-step sorts, sort_order, align_to"""
    rng = ctx.rng
    n = len(labels)
    for po in orders:
        for ps in orders:
            spec = {"obs": list(po), "samp": list(ps),
                    "rows": [[float(1 + labels.index(o) * n + labels.index(s2)) if (labels.index(o) + 2 * labels.index(s2)) % 4
                              else 0.0 for s2 in ps] for o in po],
                    "omd": [{"who": "obs-" + o} for o in po], "smd": [{"who": "samp-" + s2} for s2 in ps], "type": None}
            cont = gen_containers(rng) if rng.random() < 0.3 else None
            for f in fs:
                for ax in AX:
                    op = {"op": "sort", "f": f, "axis": ax}
                    evaluate(ctx, mk_case(spec, "dense", [], op, None, cont), (tag,))
                    # the usual idiom: sort one axis, then the other
                    oax = AX[1 - AX.index(ax)]
                    evaluate(ctx, mk_case(spec, "dense", [{"op": "sort", "f": f, "axis": oax}], op, None, cont),
                             (tag, "two-step"))
                    ctx.count("cooccurrence=sort/%s" % f)
            ax = rng.choice(AX)
            evaluate(ctx, mk_case(spec, "dense", [], {"op": "sort_order", "order": random_perm(rng, labels), "axis": ax},
                                  None, cont), (tag,))
            other = dict(spec, obs=random_perm(rng, labels), samp=random_perm(rng, labels), omd=None, smd=None)
            evaluate(ctx, mk_case(spec, "dense", [], {"op": "align_to", "other": other,
                                                      "axis": rng.choice(ALIGN_AXES)}, None, cont), (tag,))
            ctx.count("cooccurrence=tables")


def small_specs(rng):
    """a few asymmetric tables with axes of length 1..4, with and without metadata, odd ids"""
    out = []
    shapes = [(3, 4), (4, 2), (4, 4), (1, 3), (2, 1)]
    for k, (n, m) in enumerate(shapes):
        obs = core.gen_ids(rng, n, "O", "mixed" if k % 2 == 0 else "ascii")
        samp = core.gen_ids(rng, m, "S", "mixed")
        # every cell distinct so that any misplaced value is visible
        rows = [[float(1 + i * m + j) if (i + 2 * j) % 5 != 0 else 0.0 for j in range(m)] for i in range(n)]
        out.append({"obs": obs, "samp": samp, "rows": rows,
                    "omd": core.gen_md(rng, obs, "mixed") if k % 3 != 1 else None,
                    "smd": core.gen_md(rng, samp, "text") if k % 3 != 2 else None,
                    "type": core.TYPES[k % len(core.TYPES)]})
    return out


def run(ctx):
    ctx.rule = ("case = (table spec, layout route, history of prior operations, operation); operations: sort_order "
                "(all permutations of axes of length <= 4 on fixed asymmetric tables, random permutations beyond, "
                "sub-lists, duplicates, unknown ids), sort (named family of sort functions incl. non-permutations), "
                "align_to (other table with equal/permuted/unequal id sets x sample/observation/both/detect/unknown), "
                "transpose, copy, update_ids (total/partial, injective/colliding, lengthening/shortening, extra keys "
                "x strict x inplace); each followed by the inverse operation where one exists. non-trivial = the "
                "axis operated on has >= 2 ids; distinct = distinct (spec, route, history, op)")
    ctx.trusted = ["harness observation of a table by id (get_value_by_ids, metadata(id), data(id)) cross-checked "
                   "with the positional view (ids(), matrix_data, metadata())",
                   "sort functions are a named family; the list a function returned is an input of the model"]
    ctx.assumptions = ["values are only carried, never computed with: exact as rationals of the stored doubles"]
    quick = ctx.quick()
    # the thorough tier is sharded over worker processes (each with its own random stream): every worker runs the
    # fixed parts on its own random small tables and takes its share of the large tables and of the random cases
    wi, nw = getattr(ctx, "worker", (0, 1))
    specs = small_specs(ctx.rng)
    degenerate_stream(ctx, specs)
    # a call with a user function first, default calls afterwards (nothing may stick at module level)
    evaluate(ctx, mk_case(specs[0], "dense", [], {"op": "sort", "f": "reverse", "axis": "sample"}), ("fixed",))
    fixed_corpus(ctx)
    aliasing_stream(ctx, specs[:2] if quick else specs)
    value_aliasing_stream(ctx, specs[:3] if quick else specs)
    container_stream(ctx, specs[:1] if quick else specs[:3])
    metadata_aliasing_stream(ctx, [specs[0]] if quick else [specs[0], specs[2]])
    degenerate_shape_stream(ctx)
    unicode_stream(ctx, 1 if quick else 3)
    nested_metadata_stream(ctx, 45 if quick else 250)
    rng = ctx.rng
    if quick:
        wide_stream(ctx, [rng.randint(129, 200), rng.randint(257, 300), rng.randint(513, 560)])
    else:
        sizes = [rng.randint(64, 127), 128, rng.randint(129, 255), 256, rng.randint(257, 400), 512,
                 rng.randint(513, 700), 1024, 64, rng.randint(128, 140), rng.randint(256, 300)] + \
                [rng.randint(130, 320) for _ in range(5)]
        wide_stream(ctx, sizes[wi::nw] if nw > 1 else sizes)
    # shared labels on both axes: all pairs of initial orders of 3 labels; a sample of the 4-label ones
    l3 = ["taxon2", "taxon10", "taxon1"]
    cooccurrence_stream(ctx, l3, list(itertools.permutations(l3)), ["default", "reverse"] if quick else COOC_FS, "cooccurrence")
    l4 = ["b", "a10", "a9", "B"]
    p4 = list(itertools.permutations(l4))
    cooccurrence_stream(ctx, l4, rng.sample(p4, 3 if quick else 12) + [tuple(sorted(l4))],
                        ["default", "sorted"] if quick else COOC_FS, "cooccurrence")
    routes = ["dense", "csc", "csr_unsorted"] if quick else list(core.ROUTES)
    if not quick and nw > 1:
        routes = [r for k, r in enumerate(routes) if k % nw == wi % len(routes) or (k + 4) % nw == wi % len(routes)]
    exhaustive_perms(ctx, specs[:3] if quick else specs, routes if not quick else routes[:2])
    ctx.exhaustive = False
    if quick:
        op_stream(ctx, 270, 6)
        op_stream(ctx, 75, 9)
    else:
        op_stream(ctx, 16000 // nw, 6)
        op_stream(ctx, 8000 // nw, 12)


def replay(ctx, rec):
    full = rec["case"]
    if "value_alias" in full.get("case", {}):
        value_alias_one(ctx, full["case"]["value_alias"], ("replay",))
        return
    case = full["case"] if "spec" not in full else full
    if case.get("op") is None:
        case = dict(case, op={"op": "copy"})
    r, _ = evaluate(ctx, case, ("replay",))
    if "what" in full and r is not None:
        # a round trip: the table the result must have the content of travels in the request
        check_restored(ctx, case, full["request"]["table"], r, full["what"], ("replay",))
