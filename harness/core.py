"""Shared harness machinery: driver processes, run context, canonicalisation, generators.

Everything random derives from one ``random.Random(seed)`` per context so that a failing case
replays exactly.  Floats never cross the boundary as floats: ``frac`` turns a finite double into
its exact rational text "p/q".
"""
import hashlib
import json
import os
import random
import subprocess
import sys
import time
from fractions import Fraction

ROOT = os.path.dirname(os.path.dirname(os.path.abspath(__file__)))
LEAN = os.path.join(ROOT, "lean")
REPO = os.environ.get("BIOM_REPO", "/repo")

if REPO not in sys.path:
    sys.path.insert(0, REPO)


# ----------------------------------------------------------------------------- driver
class Driver:
    """One compiled Lean driver process speaking JSON lines."""

    def __init__(self, prop):
        exe = os.path.join(LEAN, ".lake", "build", "bin", "driver_%s" % prop.lower())
        if not os.path.exists(exe):
            raise RuntimeError("driver not built: %s (run setup)" % exe)
        self.exe = exe
        self.proc = subprocess.Popen([exe], stdin=subprocess.PIPE, stdout=subprocess.PIPE,
                                     text=True, bufsize=1)
        self.calls = 0

    def ask(self, req):
        self.calls += 1
        line = json.dumps(req, ensure_ascii=False, separators=(",", ":"))
        self.proc.stdin.write(line + "\n")
        self.proc.stdin.flush()
        out = self.proc.stdout.readline()
        if not out:
            raise RuntimeError("driver died on request: %s" % line[:400])
        resp = json.loads(out)
        if "driver_error" in resp:
            raise RuntimeError("driver error: %s on %s" % (resp["driver_error"], line[:600]))
        return resp

    def close(self):
        try:
            self.proc.stdin.close()
            self.proc.wait(timeout=5)
        except Exception:
            self.proc.kill()


# ----------------------------------------------------------------------------- numbers
def frac(v):
    """exact rational text of a finite float / int / numpy scalar"""
    f = Fraction(float(v)) if not isinstance(v, (int, Fraction)) else Fraction(v)
    if f.denominator == 1:
        return str(f.numerator)
    return "%d/%d" % (f.numerator, f.denominator)


def unfrac(s):
    return Fraction(s)


def grid_frac(g):
    return [[frac(v) for v in row] for row in g]


# ----------------------------------------------------------------------------- canonical views
def canon_value(v):
    """metadata value -> plain python (numpy scalars/arrays converted)"""
    import numpy as np
    if isinstance(v, dict):
        return {str(k): canon_value(x) for k, x in v.items()}
    if isinstance(v, (list, tuple)):
        return [canon_value(x) for x in v]
    if isinstance(v, np.ndarray):
        return [canon_value(x) for x in v.tolist()]
    if isinstance(v, np.generic):
        return canon_value(v.item())
    if isinstance(v, bytes):
        return v.decode("utf8")
    if isinstance(v, float) and v == int(v) and abs(v) < 2 ** 53:
        return v
    return v


def canon_md_entry(m):
    if m is None:
        return {}
    return {str(k): json.dumps(canon_value(v), sort_keys=True, ensure_ascii=False) for k, v in m.items()}


def canon_md(md):
    """None, or list of {key: canonical text}"""
    if md is None:
        return None
    return [canon_md_entry(m) for m in md]


def table_obs(t):
    """observable content of a biom Table as the JSON the Lean codec expects"""
    import numpy as np
    dense = t.matrix_data.toarray() if t.matrix_data.shape[0] * t.matrix_data.shape[1] > 0 else \
        np.zeros(t.matrix_data.shape)
    n_obs = len(t.ids(axis="observation"))
    n_samp = len(t.ids())
    rows = [[frac(x) for x in dense[i]] for i in range(dense.shape[0])]
    return {
        "obs": [str(i) for i in t.ids(axis="observation")],
        "samp": [str(i) for i in t.ids()],
        "rows": rows,
        "omd": canon_md(t.metadata(axis="observation")),
        "smd": canon_md(t.metadata(axis="sample")),
        "type": t.type,
        "shape": [int(t.shape[0]), int(t.shape[1])],
        "n_obs": n_obs, "n_samp": n_samp,
    }


def spec_obs(spec):
    """the same JSON for a generator spec (see gen_spec)"""
    return {
        "obs": list(spec["obs"]), "samp": list(spec["samp"]),
        "rows": [[frac(x) for x in r] for r in spec["rows"]],
        "omd": canon_md(spec.get("omd")), "smd": canon_md(spec.get("smd")),
        "type": spec.get("type"),
    }


ERR_ENUM = ["TableException", "UnknownIDError", "UnknownAxisError", "DisjointIDError"]


def err_name(e):
    """exception -> small enum (messages are never compared)"""
    n = type(e).__name__
    if n == "TableException":
        return "TableException"
    if n == "UnknownIDError":
        return "UnknownID"
    if n == "UnknownAxisError":
        return "UnknownAxis"
    if n == "DisjointIDError":
        return "DisjointID"
    if isinstance(e, (UnicodeError, ValueError)):
        return "Value"
    if isinstance(e, IndexError):
        return "Index"
    if isinstance(e, KeyError):
        return "Key"
    if isinstance(e, TypeError):
        return "Type"
    return "Other"


# ----------------------------------------------------------------------------- generators
ASCII_IDS = ["a", "b", "c", "d", "e", "f", "g", "h", "i", "j", "k", "l", "m", "n"]
ODD_IDS = ["o 1", "x/y", "é1", "日本", "a.b", "s-#1", "q'q", 'd"q', "back\\sl", "Z" * 17, "µ", "t|u", "1", "10", "2"]
TYPES = [None, "OTU table", "Pathway table", "Function table", "Ortholog table", "Gene table",
         "Metabolite table", "Taxon table"]


def gen_ids(rng, n, prefix, alphabet="mixed"):
    pool = []
    if alphabet == "ascii":
        pool = [prefix + x for x in ASCII_IDS]
    else:
        pool = [prefix + x for x in ASCII_IDS] + [prefix + x for x in ODD_IDS]
    rng.shuffle(pool)
    out = pool[:n]
    k = 0
    while len(out) < n:
        out.append("%s%d" % (prefix, k))
        k += 1
    return out


VALUE_CLASSES = ["count", "smallcount", "dyadic", "neg", "big", "tiny", "bits"]


def gen_value(rng, cls):
    if cls == "count":
        return float(rng.randint(1, 50))
    if cls == "smallcount":
        return float(rng.randint(1, 3))
    if cls == "dyadic":
        return rng.randint(1, 64) / float(2 ** rng.randint(0, 6))
    if cls == "neg":
        return -float(rng.randint(1, 20)) / float(2 ** rng.randint(0, 3))
    if cls == "big":
        return float(rng.choice([1e300, 1.7976931348623157e308, 2.0 ** 70, 123456789012345.0]))
    if cls == "tiny":
        return float(rng.choice([5e-324, 1e-7, 1e-300, 2.0 ** -40, 0.1234567891]))
    if cls == "bits":
        import struct
        while True:
            b = rng.getrandbits(64)
            v = struct.unpack("<d", struct.pack("<Q", b))[0]
            if v == v and v not in (float("inf"), float("-inf")) and v != 0.0:
                return v
    raise ValueError(cls)


def gen_grid(rng, n, m, density=None, classes=("count",)):
    if density is None:
        density = rng.choice([0.0, 0.2, 0.5, 0.8, 1.0])
    g = []
    for _ in range(n):
        row = []
        for _ in range(m):
            if rng.random() < density:
                row.append(gen_value(rng, rng.choice(classes)))
            else:
                row.append(0.0)
        g.append(row)
    # sometimes force an all-zero row / column
    if n > 1 and rng.random() < 0.2:
        g[rng.randrange(n)] = [0.0] * m
    if m > 1 and rng.random() < 0.2:
        j = rng.randrange(m)
        for r in g:
            r[j] = 0.0
    return g


def gen_md(rng, ids, kind=None, keys=None):
    """per-category homogeneous metadata, same categories on every id"""
    if kind is None:
        kind = rng.choice(["none", "text", "num", "tax", "mixed"])
    if kind == "none":
        return None
    md = []
    for i, id_ in enumerate(ids):
        e = {}
        if kind in ("text", "mixed"):
            e["grp"] = rng.choice(["a", "b", "c"])
            e["na/me"] = "v%d" % i
        if kind in ("num", "mixed"):
            e["depth"] = rng.randint(0, 5)
        if kind in ("tax", "mixed"):
            e["taxonomy"] = ["k__%s" % rng.choice("AB"), "p__%s" % rng.choice("xyz")]
        md.append(e)
    return md


def gen_spec(rng, max_n=5, max_m=5, min_n=1, min_m=1, classes=("count",), alphabet="mixed", md=True,
             density=None):
    n = rng.randint(min_n, max_n)
    m = rng.randint(min_m, max_m)
    obs = gen_ids(rng, n, "O", alphabet)
    samp = gen_ids(rng, m, "S", alphabet)
    spec = {"obs": obs, "samp": samp, "rows": gen_grid(rng, n, m, density, classes),
            "omd": gen_md(rng, obs) if md else None, "smd": gen_md(rng, samp) if md else None,
            "type": rng.choice(TYPES)}
    return spec


ROUTES = ["dense", "csr", "csc", "coo", "csr_unsorted", "csr_zeros", "sort_roundtrip", "transpose2", "lil"]


def build(spec, route="dense", rng=None):
    """materialise a spec as a biom Table through a given layout route"""
    import numpy as np
    import scipy.sparse as sp
    from biom import Table
    import copy
    arr = np.array(spec["rows"], dtype=float).reshape(len(spec["obs"]), len(spec["samp"]))
    omd = copy.deepcopy(spec.get("omd"))
    smd = copy.deepcopy(spec.get("smd"))
    kw = dict(observation_metadata=omd, sample_metadata=smd, type=spec.get("type"))
    if "table_id" in spec:
        kw["table_id"] = spec["table_id"]
    if route == "dense":
        return Table(arr, spec["obs"], spec["samp"], **kw)
    if route == "csr":
        return Table(sp.csr_matrix(arr), spec["obs"], spec["samp"], **kw)
    if route == "csc":
        return Table(sp.csc_matrix(arr), spec["obs"], spec["samp"], **kw)
    if route == "coo":
        return Table(sp.coo_matrix(arr), spec["obs"], spec["samp"], **kw)
    if route == "lil":
        return Table(sp.lil_matrix(arr), spec["obs"], spec["samp"], **kw)
    if route == "csr_unsorted":
        m = sp.csr_matrix(arr)
        # reverse the entries inside every row
        for i in range(m.shape[0]):
            s, e = m.indptr[i], m.indptr[i + 1]
            m.indices[s:e] = m.indices[s:e][::-1].copy()
            m.data[s:e] = m.data[s:e][::-1].copy()
        m.has_sorted_indices = False
        return Table(m, spec["obs"], spec["samp"], **kw)
    if route == "csr_zeros":
        # explicit zeros stored wherever the grid is zero (up to a few)
        rows, cols, vals = [], [], []
        for i in range(arr.shape[0]):
            for j in range(arr.shape[1]):
                rows.append(i); cols.append(j); vals.append(arr[i, j])
        m = sp.csr_matrix((np.array(vals, dtype=float), (np.array(rows, dtype=int), np.array(cols, dtype=int))),
                          shape=arr.shape)
        return Table(m, spec["obs"], spec["samp"], **kw)
    if route == "sort_roundtrip":
        t = Table(arr, spec["obs"], spec["samp"], **kw)
        if len(spec["samp"]) > 0 and len(spec["obs"]) > 0:
            t2 = t.sort_order(list(reversed(spec["samp"]))).sort_order(list(reversed(spec["obs"])), axis="observation")
            t = t2.sort_order(spec["samp"]).sort_order(spec["obs"], axis="observation")
            t.table_id = spec.get("table_id", None)
        return t
    if route == "transpose2":
        t = Table(arr, spec["obs"], spec["samp"], **kw)
        t2 = t.transpose().transpose()
        t2.type = spec.get("type")
        t2.table_id = spec.get("table_id", None)
        return t2
    raise ValueError(route)


def layout_facts(t):
    m = t.matrix_data
    facts = {"format": m.getformat(), "nnz_stored": int(m.nnz)}
    if hasattr(m, "has_sorted_indices"):
        facts["sorted"] = bool(m.has_sorted_indices)
    try:
        facts["stored_zeros"] = int((m.data == 0).sum())
    except Exception:
        pass
    return facts


# ----------------------------------------------------------------------------- run context
class Ctx:
    def __init__(self, prop, tier="quick", seed=0, worker=(0, 1)):
        self.prop = prop
        self.tier = tier
        self.seed = seed
        # thorough runs are sharded over worker processes: (index, count); deterministic
        # enumerations may shard with `ctx.mine(k)`, random streams differ per worker
        self.worker = worker
        self.rng = random.Random(seed * 1000003 + int(prop[1:]) + 7919 * worker[0])
        self.t0 = time.time()
        self.evaluations = 0
        self.distinct = set()
        self.nontrivial = 0
        self.samples = []
        self.dist = {}
        self.violations = []       # (kind, case, clause, tags)
        self.divergences = []
        self.known_hits = {}
        self.notes = []
        self.exhaustive = False
        self.rule = ""
        self._driver = None
        kf = json.load(open(os.path.join(ROOT, "known_findings.json")))
        self.known = [k for k in kf.get("known", []) if k.get("property") == prop]

    @property
    def driver(self):
        if self._driver is None:
            self._driver = Driver(self.prop)
        return self._driver

    def quick(self):
        return self.tier == "quick"

    def mine(self, k):
        """True if item number k of a deterministic enumeration belongs to this worker"""
        return k % self.worker[1] == self.worker[0]

    def dump(self):
        """state of a worker, for the parent to merge"""
        return {"evaluations": self.evaluations, "distinct": sorted(self.distinct), "nontrivial": self.nontrivial,
                "samples": self.samples, "dist": self.dist, "violations": self.violations,
                "divergences": self.divergences[:50], "n_divergences": len(self.divergences),
                "known_hits": self.known_hits, "notes": self.notes, "exhaustive": self.exhaustive, "rule": self.rule,
                "driver_calls": self._driver.calls if self._driver else 0,
                "trusted": list(getattr(self, "trusted", [])), "assumptions": list(getattr(self, "assumptions", []))}

    def merge(self, d):
        self.evaluations += d["evaluations"]
        new = set(d["distinct"]) - self.distinct
        self.distinct |= new
        # non-trivial distinct cases: a worker's own count is exact for its shard; across workers the same
        # case may repeat, so scale by the fraction of its distinct cases that are new here (conservative)
        if d["distinct"]:
            self.nontrivial += int(d["nontrivial"] * len(new) / len(d["distinct"]))
        if len(self.samples) < 3:
            self.samples += d["samples"][:3 - len(self.samples)]
        for k, v in d["dist"].items():
            self.dist[k] = self.dist.get(k, 0) + v
        self.violations += d["violations"]
        self.divergences += d["divergences"]
        for k, v in d["known_hits"].items():
            if k in self.known_hits:
                self.known_hits[k]["n"] += v["n"]
            else:
                self.known_hits[k] = v
        self.notes += [n for n in d["notes"] if n not in self.notes]
        self.exhaustive = self.exhaustive or d["exhaustive"]
        self.rule = self.rule or d["rule"]
        self.extra_driver_calls = getattr(self, "extra_driver_calls", 0) + d["driver_calls"]
        self.trusted = sorted(set(getattr(self, "trusted", [])) | set(d["trusted"]))
        self.assumptions = sorted(set(getattr(self, "assumptions", [])) | set(d["assumptions"]))

    def count(self, key, n=1):
        self.dist[key] = self.dist.get(key, 0) + n

    def case(self, case, nontrivial=True, sample_every=0):
        """register one evaluated case; returns True if it is new (distinct)"""
        self.evaluations += 1
        self.journal(case)
        h = hashlib.sha1(json.dumps(case, sort_keys=True, ensure_ascii=False, default=str).encode()).hexdigest()
        new = h not in self.distinct
        if new:
            self.distinct.add(h)
            if nontrivial:
                self.nontrivial += 1
        if len(self.samples) < 3 and new and nontrivial:
            self.samples.append(case)
        return new

    def journal(self, case):
        """remember the case being worked on, so that a hard crash of the interpreter (segfault/abort inside the
        code under test) can still be reported with the input that caused it"""
        path = os.environ.get("VERIF_JOURNAL")
        if not path:
            return
        try:
            # one descriptor kept open, rewritten in place: a few microseconds per case
            fd = getattr(self, "_journal_fd", None)
            if fd is None:
                fd = self._journal_fd = os.open(path, os.O_WRONLY | os.O_CREAT | os.O_TRUNC, 0o644)
            data = json.dumps({"case": case, "n": self.evaluations}, default=str, ensure_ascii=False).encode()
            os.pwrite(fd, data, 0)
            os.ftruncate(fd, len(data))
        except Exception:
            pass

    def match_known(self, clause, tags):
        for k in self.known:
            m = k.get("match", {})
            if m.get("clause") not in (None, clause):
                continue
            if all(t in tags for t in m.get("tags", [])):
                return k
        return None

    def fail(self, case, clause, tags=(), kind="holds", detail=None):
        """the property's predicate is false on the implementation's own observation"""
        k = self.match_known(clause, tags) if kind == "holds" else None
        if k is not None:
            self.known_hits.setdefault(k["id"], {"finding": k, "n": 0, "example": case})["n"] += 1
            return
        rec = {"kind": kind, "clause": clause, "tags": list(tags), "case": case, "detail": detail}
        if kind == "holds":
            self.violations.append(rec)
        else:
            self.divergences.append(rec)

    def diverge(self, case, what, tags=(), detail=None):
        """model and implementation disagree although the predicate holds"""
        self.fail(case, what, tags, kind="diverge", detail=detail)

    def time_left(self, budget):
        return budget - (time.time() - self.t0)

    def close(self):
        if self._driver is not None:
            self._driver.close()


# ----------------------------------------------------------------------------- stressors shared by the harnesses
# Recurring themes of changes that escaped first versions of the checks (DESIGN.md 0.5): behaviour depending on the
# sparse layout left behind by earlier reads, on caches keyed by object identity, on ID text (fixed-width arrays),
# on sizes, on process-level state, on aliasing between derived tables.
def poke_layout(t, rng, max_reads=2):
    """leave the table in a random internal layout by a few read-only accessor calls; returns what was done"""
    done = []
    if t.shape[0] == 0 or t.shape[1] == 0:
        return done
    obs = t.ids(axis="observation")
    samp = t.ids()
    for _ in range(rng.randint(0, max_reads)):
        c = rng.choice(["data_samp", "data_obs", "iter_samp", "iter_obs", "nnz", "cell", "sum", "str"])
        try:
            if c == "data_samp":
                t.data(rng.choice(list(samp)), axis="sample")
            elif c == "data_obs":
                t.data(rng.choice(list(obs)), axis="observation")
            elif c == "iter_samp":
                list(t.iter(axis="sample"))
            elif c == "iter_obs":
                list(t.iter(axis="observation"))
            elif c == "nnz":
                t.nnz
            elif c == "cell":
                t.get_value_by_ids(rng.choice(list(obs)), rng.choice(list(samp)))
            elif c == "sum":
                t.sum("sample")
            else:
                str(t)
            done.append(c)
        except Exception as e:  # a read that raises is the caller's business to notice
            done.append(c + "!" + type(e).__name__)
    return done


def tricky_unknown_ids(ids):
    """texts that are NOT in `ids` but look like members: extensions, prefixes, case variants, blanks"""
    have = set(str(i) for i in ids)
    out = []
    for i in list(have)[:4]:
        for cand in (i + "0", i + " ", " " + i, i + "x", i[:-1], i.upper(), i.lower(), i + i):
            if cand and cand not in have and cand not in out:
                out.append(cand)
    longest = max([len(i) for i in have], default=1)
    for i in list(have)[:2]:
        cand = i + "_" * (longest + 2)
        if cand not in have:
            out.append(cand)
    return out


# canonically equivalent but DISTINCT texts (NFC spelling, NFD spelling): the library keeps them apart as two IDs
NORMALISATION_PAIRS = [("caf\u00e9", "cafe\u0301"), ("\u00c5ngstr\u00f6m", "A\u030angstro\u0308m"), ("\u03a9hm", "\u2126hm"),
                       ("\ud55c", "\u1112\u1161\u11ab"), ("\u00f1u", "n\u0303u")]

# texts that trip naive text handling: format-string characters, quoting, line separators other than LF
NASTY_TEXTS = ["50%", "x%%y", "otu_%s", "%(id)s", "\"quoted\" start", "\"unbalanced", "a'b",
               "ls\u2028x", "ps\u2029x", "nel\u0085x", "ff\x0cx", "vt\x0bx", "{brace}", "back\\slash", "#hash", " lead", "trail "]


def twin_ids(rng, k=1):
    """k pairs of canonically equivalent, distinct ID texts (both members of a pair are meant to sit on ONE axis)"""
    pairs = list(NORMALISATION_PAIRS)
    rng.shuffle(pairs)
    out = []
    for a, b in pairs[:k]:
        out += [a, b]
    return out


def wide_spec(rng, n_axis=None, other=None, axis="sample", classes=("count",), md=False):
    """a table with many IDs on one axis (size-dependent fast paths: thresholds such as 64 IDs)"""
    n_axis = n_axis or rng.choice([64, 70, 100, 130])
    other = other or rng.choice([2, 3, 4])
    n, m = (other, n_axis) if axis == "sample" else (n_axis, other)
    obs = ["O%d" % i for i in range(n)]
    samp = ["S%d" % i for i in range(m)]
    return {"obs": obs, "samp": samp, "rows": gen_grid(rng, n, m, 0.6, classes),
            "omd": gen_md(rng, obs, "text") if md else None, "smd": gen_md(rng, samp, "text") if md else None,
            "type": None}
