"""C03 — classic TSV export/import round trip.

For every case: build a table (every `core.build` route, optional prior operations), export it with
the real `to_tsv` / `delimited_self` / `biom convert --to-tsv`, re-import the text through every
reader (list of lines, handle, `parse_biom_table`, path, gzip path, `biom convert` back to
JSON/HDF5), and let the Lean driver (a) evaluate `holds` on what the real code returned, (b) compare
the real text with the model's `toTsv`, the real `_extract_data_from_tsv` result with the model's
`extractData`, and every re-imported table with the model's `fromTsv`.
"""
import gzip
import io
import math
import os
import random
import shutil

from . import core

TMP = "/tmp/c03/run%d" % os.getpid()      # private to this (worker) process; removed at the end

# ----------------------------------------------------------------------------- encoding helpers


def num_json(v):
    v = float(v)
    if math.isnan(v):
        return {"special": "nan"}
    if math.isinf(v):
        return {"special": "inf" if v > 0 else "-inf"}
    return core.frac(v)


def py_float(s):
    """the contract of the external `float(text)`: value or None (ValueError)"""
    try:
        return num_json(float(s))
    except ValueError:
        return None


def parse_oracle(line_lists, extra=()):
    texts = set(extra)
    for lines in line_lists:
        for l in lines:
            fs = l.split("\t")
            for f in fs:
                texts.add(f)
                texts.add(f.strip())
            texts.add(l.rsplit("\t", 1)[-1].strip())
    return [[s, py_float(s)] for s in sorted(texts)]


def md_val(v):
    """metadata value of the modelled family: text, or list of texts; anything else -> None"""
    import numpy as np
    if isinstance(v, bytes):
        v = v.decode("utf8")
    if isinstance(v, str):
        return str(v)
    if isinstance(v, (list, tuple, np.ndarray)):
        out = []
        for x in (v.tolist() if isinstance(v, np.ndarray) else v):
            if isinstance(x, bytes):
                x = x.decode("utf8")
            if not isinstance(x, str):
                return None
            out.append(str(x))
        return out
    return None


def dense_rows(t):
    import numpy as np
    m = t.matrix_data
    arr = m.toarray() if m.shape[0] * m.shape[1] > 0 else np.zeros(m.shape)
    return [[num_json(x) for x in arr[i]] for i in range(arr.shape[0])]


def observe_export(t, mdmode):
    """what the property calls the table: IDs, grid, the values of the exported category"""
    e = {"obs": [str(i) for i in t.ids(axis="observation")], "samp": [str(i) for i in t.ids()],
         "rows": dense_rows(t), "md": None, "headerKey": None, "headerValue": None}
    if mdmode is not None:
        e["headerKey"] = mdmode["key"]
        e["headerValue"] = mdmode["value"]
        md = t.metadata(axis="observation")
        if md is not None:
            e["md"] = [md_val(m.get(mdmode["key"])) for m in md]
    return e


def observe_import(t):
    md = t.metadata(axis="observation")
    omd = None
    if md is not None:
        omd = []
        for m in md:
            ks = list(m.keys())
            if len(ks) != 1:
                omd.append(["?keys:%r" % (sorted(map(str, ks)),), "?"])
                continue
            v = md_val(m[ks[0]])
            omd.append([str(ks[0]), v if v is not None else "?type:%r" % (m[ks[0]],)])
    return {"obs": [str(i) for i in t.ids(axis="observation")], "samp": [str(i) for i in t.ids()],
            "rows": dense_rows(t), "omd": omd}


def guarded(f, profile=None):
    """run a reader (optionally under a non-default error profile) and observe its table"""
    import warnings
    try:
        if profile is None:
            return observe_import(f())
        import biom.err
        profile = dict(profile)
        wf = profile.pop("_warnings", "ignore")
        with warnings.catch_warnings():
            warnings.simplefilter(wf)
            with biom.err.errstate(**profile):
                return observe_import(f())
    except Exception as e:  # noqa
        return {"error": core.err_name(e), "message": "%s: %s" % (type(e).__name__, str(e)[:200])}


# ----------------------------------------------------------------------------- the real library


class Lib:
    def __init__(self):
        import biom
        import biom.cli
        import biom.cli.table_converter as tc
        import biom.parse
        import biom.util
        from click.testing import CliRunner
        # the sub-command object is invoked directly: the group's on-close hook re-opens fd 1
        # (broken-pipe workaround), which under CliRunner closes the real stdout of this process
        self.biom = biom
        self.Table = biom.Table
        self.tc = tc
        self.cli = tc.convert
        self.runner = CliRunner()
        self.parse = biom.parse
        self.util = biom.util
        self.formatters = dict(tc.observation_metadata_formatters)
        self.formatters["str"] = str
        self.processors = dict(tc.observation_metadata_types)

    def convert(self, args):
        r = self.runner.invoke(self.cli, list(args))
        if r.exit_code != 0:
            exc = r.exception
            raise exc if isinstance(exc, Exception) else RuntimeError("biom convert exit %r" % r.exit_code)


def write_gzip(path, data, rng):
    """the same bytes as one of the shapes a gzip file legitimately has (RFC 1952): one member at some level,
    several members cut anywhere (mid-line, at a line end, an empty member), members appended later,
    a member carrying a file name and a time stamp"""
    shape = rng.choice(["single", "single-level1", "members", "members", "appended", "named", "blocks"])
    if shape == "single":
        with gzip.open(path, "wb") as f:
            f.write(data)
    elif shape == "single-level1":
        with gzip.open(path, "wb", compresslevel=1) as f:
            f.write(data)
    elif shape in ("members", "blocks"):
        k = rng.randint(2, 4) if shape == "members" else max(2, len(data) // 64)
        cuts = sorted(rng.randint(0, len(data)) for _ in range(k - 1))
        if shape == "members" and rng.random() < 0.5 and b"\n" in data:
            nl = [i + 1 for i, b in enumerate(data) if b == 10]
            cuts[0] = rng.choice(nl)
            cuts.sort()
        parts = [data[a:b] for a, b in zip([0] + cuts, cuts + [len(data)])]
        with open(path, "wb") as f:
            for part in parts:
                f.write(gzip.compress(part, compresslevel=rng.choice([1, 6, 9])))
    elif shape == "appended":
        cut = rng.randint(0, len(data))
        with gzip.open(path, "wb") as f:
            f.write(data[:cut])
        with gzip.open(path, "ab") as f:
            f.write(data[cut:])
    else:
        with open(path, "wb") as raw:
            with gzip.GzipFile(filename="table é.txt", mode="wb", fileobj=raw, mtime=rng.randint(0, 2 ** 31)) as f:
                f.write(data)
    return shape


class AnyKey(dict):
    """a mapping that also answers IDs it was not given (a misread table asks for them)"""

    def __missing__(self, k):
        return {"unknown": str(k)}


def extra_cli_args(extra, samp_ids, direction):
    """rarely used flags of `biom convert` that must not disturb IDs, grid or the category"""
    args = []
    if direction != "from-tsv":
        return args
    if extra.get("table_type"):
        args += ["--table-type", extra["table_type"]]
    if extra.get("sample_md") and all(
            i == i.strip() and i and not any(c in i for c in "\t\n\r#\x0b\x0c\x1c\x1d\x1e\x85\u2028\u2029") and
            '"' not in i for i in samp_ids):
        fp = tmp("smd.txt")
        with open(fp, "w", encoding="utf-8", newline="") as f:
            f.write("#SampleID\tsite\n")
            for j, i in enumerate(samp_ids):
                f.write("%s\tsite %d\n" % (i, j))
        args += ["-m", fp]
    else:
        extra["sample_md"] = False
    return args


def tmp(name):
    os.makedirs(TMP, exist_ok=True)
    return os.path.join(TMP, name)


def rm(*paths):
    for p in paths:
        try:
            os.remove(p)
        except OSError:
            pass


# ----------------------------------------------------------------------------- generators

ID_INNER = ["a", "B7", "x y", "a  b", "x/y", "é1", "日本", "a.b", "s-#1", "q'q", 'd"q', "back\\sl", "Z" * 17, "µ",
            "t|u", "1", "10", "2.5", "1e5", "nan", "inf", "-3", "k;v", "a,b", "{x}", "[0]", "a\x0bb", "a\x0cb",
            "a\x1cb", "a\x1db", "a\x1eb", "a\x85b", "a b", "a b", "a\xa0b", "a\x00b", "a　b", "%s", "\\t",
            "OTU ID", "taxonomy", "a#", "_", "0", "0.0", "e", "1_0", "١٢", "Infinity", "None", "😀"]


# characters that some text handling treats as markup; each must be able to stand FIRST, inside and LAST in a field
SPECIALS = ['"', "'", "%", "\\", "{", "}", "[", "(", ",", ";", ":", "|", "=", "+", "-", "@", "!", "?", "*", "&", "^", "~",
            "`", "$", "<", ">", "/", ".", "_", "0", "e", "#", "\ufeff", "\u200b", "\u00ad", '""', "'\"", "%s", "\\t", "\\n"]


def decorate(rng, x, p=0.3, first_hash_ok=False):
    """put a special character first and/or last"""
    if rng.random() < p:
        c = rng.choice(SPECIALS)
        if first_hash_ok or not c.startswith("#"):
            x = c + x
    if rng.random() < p / 2:
        x = x + rng.choice(SPECIALS)
    return x


def gen_ids(rng, n, prefix_pool, first_hash_ok=False):
    out, seen = [], set()
    nasty = [x for x in core.NASTY_TEXTS if x == x.strip() and (first_hash_ok or not x.startswith("#"))]
    if n >= 2 and rng.random() < 0.15:
        # canonically equivalent spellings (NFC / NFD) are DISTINCT IDs
        out = core.twin_ids(rng, 1)[:n]
        seen = set(out)
    while len(out) < n:
        x = rng.choice(ID_INNER) if rng.random() < 0.85 else rng.choice(nasty)
        if rng.random() < 0.5:
            x = rng.choice(prefix_pool) + x
        x = decorate(rng, x, 0.25, first_hash_ok)
        if rng.random() < 0.15:
            x = x + rng.choice(["#", " z", ".1", "\x1cq"])
        if x in seen or x.startswith("#"):
            x = "%s%d" % (rng.choice(prefix_pool), len(out))
            if x in seen:
                continue
        seen.add(x)
        out.append(x)
    return out


TAX_ELEMS = ["k__Bacteria", "p__Firmicutes", "c__Bacilli", "g__", "s__x y", "é", "12", "1.5", "nan", "a,b", "k__A|B",
             "日本", "x\x1cy", "1e3", "0"]
TEXTS = ["x y", "z", "12", "1e5", "nan", "é", "a; b", "None", "k__A", "3.0", "inf", "1_0", "-", "a\x1cb"]


def gen_omd(rng, n, kind):
    import numpy as np
    md = []
    with_conf = rng.random() < 0.5
    as_array = rng.random() < 0.1           # values typed as they come back from an HDF5 file
    for i in range(n):
        e = {}
        if kind == "tax":
            # ragged lists (the first is not the longest), now and then an unclassified observation: []
            e["taxonomy"] = [decorate(rng, rng.choice(TAX_ELEMS), 0.2, True).replace(";", ",")
                             for _ in range(rng.choice([0, 1, 1, 2, 3, 4, 7]) if i else rng.choice([1, 1, 2]))]
            if as_array:
                e["taxonomy"] = np.array(e["taxonomy"], dtype=object)
            if with_conf:
                e["confidence"] = rng.random()
        elif kind == "text":
            e["note"] = decorate(rng, rng.choice(TEXTS), 0.25, True) if rng.random() < 0.8 else "v%d" % i
            if rng.random() < 0.15:
                e["note"] = ""                      # an entry with nothing in it, next to entries with text
            if as_array:
                e["note"] = np.str_(e["note"])
            if with_conf:
                e["taxonomy"] = ["k__A"]
        elif kind == "numeric-tax":
            e["taxonomy"] = [rng.choice(["12", "1.5", "nan", "1e3", "0", "-2", "inf", "1_0"])]
        elif kind == "numeric-text":
            e["note"] = rng.choice(["12", "1.5", "nan", "1e3", "0", " 7", "-2"])
        md.append(e)
    return md


def gen_spec(rng, max_n, max_m, shape=None, omd_kind=None):
    n, m = shape if shape else (rng.randint(1, max_n), rng.randint(1, max_m))
    classes = rng.choice([("count",), ("smallcount",), ("dyadic", "count"), ("neg", "dyadic"), ("big", "tiny"),
                          ("bits",), tuple(core.VALUE_CLASSES), ("tiny", "count"), ("big", "neg")])
    obs = gen_ids(rng, n, ["O", "otu ", "é", "GG_"])
    samp = gen_ids(rng, m, ["S", "smp.", "日", "PC."], first_hash_ok=True)
    if rng.random() < 0.1:
        # the same text on both axes
        k = rng.randrange(min(n, m)) if min(n, m) > 0 else 0
        if obs[k] not in samp:
            samp[k] = obs[k]
    if omd_kind is None:
        omd_kind = rng.choice(["none", "tax", "tax", "text"])
    return {"obs": obs, "samp": samp, "rows": core.gen_grid(rng, n, m, None, classes),
            "omd": None if omd_kind == "none" else gen_omd(rng, n, omd_kind),
            "smd": core.gen_md(rng, samp, rng.choice(["none", "text", "tax"])), "type": rng.choice(core.TYPES)}


HISTORIES = ["none", "none", "sort_samples", "sort_obs", "transpose", "filter_samples", "filter_obs", "subsample",
             "norm", "pa", "transform_zero", "copy", "sort_then_filter",
             # export, then change the SAME objects in place, then the export under test (stale caches)
             "export_then_transform", "export_then_pa", "export_then_norm", "export_then_update_ids",
             "export_then_md_mutate", "export_then_sort_inplace_ids", "export_then_filter_inplace",
             "export_then_filter_inplace"]

LONG_TAILS = ["_" * 9 + "long", " with a much longer name é日本", ".%s" % ("x" * 40), "é" * 12]


def pre_export(t, rng):
    """ask the exporters once, in random order (whatever they memoise is now keyed to these objects)"""
    md = t.metadata(axis="observation")
    key = None
    if md is not None:
        ks = [k for k in md[0].keys() if all(k in m_ and md_val(m_[k]) is not None for m_ in md)]
        key = rng.choice(sorted(ks)) if ks else None
    calls = ["to_tsv", "str", "delimited_self", "direct_io", "md"]
    rng.shuffle(calls)
    for c in calls[:rng.randint(1, len(calls))]:
        try:
            if c == "to_tsv":
                t.to_tsv()
            elif c == "str":
                str(t)
            elif c == "delimited_self":
                t.delimited_self()
            elif c == "direct_io":
                t.to_tsv(direct_io=io.StringIO())
            elif key is not None:
                v = md_val(md[0][key])
                t.to_tsv(header_key=key, header_value=key,
                         metadata_formatter=(lambda x: "; ".join(x)) if isinstance(v, list) else str)
        except Exception:  # noqa  (judged in the export under test)
            pass


def apply_history(t, h, hseed):
    import numpy as np
    rng = random.Random(hseed)
    if h == "none":
        return t
    if h == "copy":
        return t.copy()
    if h == "sort_samples":
        ids = list(t.ids()); rng.shuffle(ids)
        return t.sort_order(ids)
    if h == "sort_obs":
        ids = list(t.ids(axis="observation")); rng.shuffle(ids)
        return t.sort_order(ids, axis="observation")
    if h == "transpose":
        return t.transpose()
    if h in ("filter_samples", "filter_obs"):
        ax = "sample" if h == "filter_samples" else "observation"
        ids = list(t.ids(axis=ax))
        keep = set(rng.sample(ids, rng.randint(1, len(ids))))
        return t.filter(lambda v, i, m: i in keep, axis=ax, inplace=False)
    if h == "sort_then_filter":
        ids = list(t.ids()); rng.shuffle(ids)
        t2 = t.sort_order(ids)
        oids = list(t2.ids(axis="observation"))
        keep = set(rng.sample(oids, rng.randint(1, len(oids))))
        return t2.filter(lambda v, i, m: i in keep, axis="observation", inplace=False)
    if h == "subsample":
        arr = t.matrix_data.toarray()
        if (arr < 0).any() or (arr != np.floor(arr)).any() or arr.max() > 1e6:
            return None
        sums = arr.sum(axis=0)
        if sums.max() < 1:
            return None
        n = int(rng.randint(1, int(sums.max())))
        r = t.subsample(n, seed=rng.randint(0, 10 ** 6))
        return r
    if h == "norm":
        arr = t.matrix_data.toarray()
        with np.errstate(over="ignore"):
            sums = arr.sum(axis=0)
        if (sums == 0).any() or not np.isfinite(sums).all():
            return None
        return t.norm(inplace=False)
    if h == "pa":
        return t.pa(inplace=False)
    if h == "transform_zero":
        cut = rng.choice([1.0, 2.0, 10.0])
        return t.transform(lambda v, i, m: np.where(v > cut, 0.0, v), inplace=False)
    if h.startswith("export_then_"):
        core.poke_layout(t, rng)
        pre_export(t, rng)
        ax = rng.choice(["sample", "observation"])
        if h == "export_then_transform":
            k = rng.choice([2.0, 0.5, -1.0, 0.0])
            with np.errstate(over="ignore"):
                t.transform(lambda v, i, m: v * k, axis=ax, inplace=True)
        elif h == "export_then_pa":
            t.pa(inplace=True)
        elif h == "export_then_norm":
            arr = t.matrix_data.toarray()
            with np.errstate(over="ignore"):
                sums = arr.sum(axis=0 if ax == "sample" else 1)
            if (sums == 0).any() or not np.isfinite(sums).all():
                return None
            t.norm(axis=ax, inplace=True)
        elif h == "export_then_update_ids":
            # new IDs longer than every existing one (IDs live in fixed-width arrays)
            ids = list(t.ids(axis=ax))
            longest = max(len(i) for i in ids)
            new = {}
            for j, i in enumerate(ids):
                if rng.random() < 0.7:
                    new[i] = i + rng.choice(LONG_TAILS) + "_" * max(0, longest - len(i)) + str(j)
            t.update_ids(new, axis=ax, strict=False, inplace=True)
        elif h == "export_then_md_mutate":
            md = t.metadata(axis="observation")
            if md is None:
                t.add_metadata({i: {"taxonomy": ["k__new", "p__%d" % j]}
                                for j, i in enumerate(t.ids(axis="observation"))}, axis="observation")
            else:
                for j, m_ in enumerate(md):
                    for k_ in list(m_.keys()):
                        if isinstance(md_val(m_[k_]), list):
                            m_[k_] = ["changed", "p__%d" % j]
                        elif isinstance(md_val(m_[k_]), str):
                            m_[k_] = "changed %d" % j
                if rng.random() < 0.4 and len(md[0]) > 1:
                    t.del_metadata(keys=[sorted(md[0].keys())[0]], axis="observation")
        elif h == "export_then_filter_inplace":
            # the SAME table object loses IDs on an axis in place (by ID list, by predicate, or through remove_empty)
            ids = list(t.ids(axis=ax))
            keep = set(rng.sample(ids, rng.randint(1, len(ids))))
            how = rng.choice(["ids", "predicate", "remove_empty"])
            if how == "ids":
                t.filter([i for i in ids if i in keep], axis=ax, inplace=True)
            elif how == "predicate":
                t.filter(lambda v, i, m: i in keep, axis=ax, inplace=True)
            else:
                t.remove_empty(axis=ax, inplace=True)
            if 0 in t.shape:
                return None
        elif h == "export_then_sort_inplace_ids":
            # same matrix object, other IDs: rename two IDs into each other's text
            ids = list(t.ids(axis=ax))
            if len(ids) < 2:
                return None
            a, b = rng.sample(ids, 2)
            t.update_ids({a: b, b: a}, axis=ax, strict=False, inplace=True)
        return t
    raise ValueError(h)


def pick_mdmode(rng, t):
    """an exportable category of the table as it is now, with a formatter/processor pair"""
    md = t.metadata(axis="observation")
    if md is None:
        return None
    keys = [k for k in md[0].keys() if all(k in m and md_val(m[k]) is not None for m in md)]
    if not keys or rng.random() < 0.2:
        return None
    k = rng.choice(sorted(keys))
    is_list = all(isinstance(md_val(m[k]), list) for m in md)
    is_text = all(isinstance(md_val(m[k]), str) for m in md)
    if is_list:
        fm, pr = "sc_separated", rng.choice(["sc_separated", "taxonomy"])
    elif is_text:
        fm, pr = rng.choice([("naive", "naive"), ("str", "naive")])
    else:
        return None
    if rng.random() < 0.15:
        # a RELATION between an argument and the table: the column is named like one of its IDs
        pool = [str(i) for i in t.ids()] + [str(i) for i in t.ids(axis="observation")]
        pool = [i for i in pool if i and i == i.strip() and not any(c in i for c in "\t\n\r")]
        if pool:
            return {"key": k, "value": rng.choice(pool), "formatter": fm, "processor": pr}
    value = k if rng.random() < 0.6 else decorate(rng, rng.choice(["Consensus Lineage", "tax", "é md", "12", "x#y"]),
                                                   0.4, True)
    return {"key": k, "value": value, "formatter": fm, "processor": pr}


# ----------------------------------------------------------------------------- one case


def guard_facts(e, mdtexts, inverse_ok=True):
    """which hypotheses of the theorems does this case meet"""
    def clean(s):
        return s != "" and s == s.strip() and not any(c in s for c in "\t\n\r")
    ids_ok = all(clean(s) and not s.startswith("#") for s in e["obs"]) and all(clean(s) for s in e["samp"])
    md_ok = True
    some_non_numeric = True
    if e["headerKey"] is not None and e["md"] is None:
        md_ok = False          # a category the table does not have: not an export of a category
    if mdtexts is not None:
        md_ok = all(not any(c in s for c in "\t\n\r") for s in mdtexts) and clean(e["headerValue"] or "") \
            and inverse_ok
        some_non_numeric = any(py_float(s.strip()) is None for s in mdtexts)
    return ids_ok, md_ok, some_non_numeric


def check_case(ctx, lib, case, tags=()):
    import numpy as np
    spec, route, hist, hseed = case["spec"], case["route"], case["history"], case["hseed"]
    t = core.build(spec, route)
    src = t                                   # stays alive: tables derived from it must not share state with it
    src_before = observe_export(src, None), core.canon_md(src.metadata(axis="observation"))
    try:
        t = apply_history(t, hist, hseed)
    except Exception as ex:  # noqa  (an operation refusing its input is not this property's business)
        ctx.count("history-refused:%s" % hist)
        return None
    if t is None:
        ctx.count("history-not-applicable:%s" % hist)
        return None
    if not np.isfinite(t.matrix_data.data).all():
        ctx.count("history-gave-nonfinite")
        return None
    mdmode = case.get("mdmode", "auto")
    if mdmode == "auto":
        mdmode = pick_mdmode(random.Random(hseed + 1), t)
    e = observe_export(t, mdmode)
    if e["md"] is not None and any(v is None for v in e["md"]):
        mdmode = None
        e = observe_export(t, None)
    n, m = len(e["obs"]), len(e["samp"])
    fm_name = mdmode["formatter"] if mdmode else "naive"
    pr_name = mdmode["processor"] if mdmode else "naive"
    fm, pr = lib.formatters[fm_name], lib.processors[pr_name]
    kw = {}
    if mdmode:
        kw = dict(header_key=mdmode["key"], header_value=mdmode["value"], metadata_formatter=fm)
    colname = case.get("colname")
    if colname:
        kw["observation_column_name"] = colname
        e["colName"] = colname
    profile = case.get("profile")
    tags = list(tags) + ["route=" + route, "history=" + hist, "md=" + (fm_name if mdmode else "none")]
    if profile:
        tags.append("profile=%s" % sorted(profile.items()))
    # the reference observation `e` is taken; now leave the matrix in whatever layout reads leave behind
    if case.get("poke"):
        for c in core.poke_layout(t, random.Random(hseed + 2)):
            ctx.count("layout-poked-before-export")

    # ---- export through the API
    try:
        s = t.to_tsv(**kw)
        impl_lines = s.split("\n")
    except Exception as ex:  # noqa
        s = None
        impl_lines = {"error": core.err_name(ex)}
    texts = {"api": s}
    variants_equal = True
    if s is not None:
        buf = io.StringIO()
        t.to_tsv(direct_io=buf, **kw)
        texts["direct_io"] = buf.getvalue()
        if texts["direct_io"] != s + "\n":
            variants_equal = False
        if t.delimited_self("\t", kw.get("header_key"), kw.get("header_value"), kw.get("metadata_formatter", str),
                            kw.get("observation_column_name", "#OTU ID")) != s:
            variants_equal = False
        if not mdmode and not colname and str(t) != s:
            variants_equal = False

    # ---- export through `biom convert --to-tsv`
    use_cli = s is not None and fm_name in ("sc_separated", "naive") and case.get("cli", True) and not colname
    cli_extra = case.get("cli_extra") or {}
    cli_fmt = case.get("clifmt", "json")
    cli_error = None
    if use_cli:
        src_fp, out = tmp("in.biom"), tmp("out.tsv")
        rm(out)
        try:
            if cli_fmt == "json":
                with open(src_fp, "w", encoding="utf-8") as f:
                    f.write(t.to_json("c03"))
            else:
                import h5py
                with h5py.File(src_fp, "w") as f:
                    t.to_hdf5(f, "c03")
        except Exception as ex:  # noqa  (writing the BIOM input file is C01/C02's business)
            ctx.count("cli-input-file-not-writable:%s" % cli_fmt)
            use_cli = False
        if use_cli:
            # the command exports the table IN THE FILE: it must be the table of this case (else: C01/C02)
            try:
                held = observe_export(lib.biom.load_table(src_fp), mdmode)
            except Exception:  # noqa
                held = None
            if held != {k: v for k, v in e.items() if k != "colName"}:
                ctx.count("cli-input-file-does-not-hold-the-table:%s (C01/C02)" % cli_fmt)
                use_cli = False
        if use_cli:
            try:
                args = ["-i", src_fp, "-o", out, "--to-tsv"]
                if mdmode:
                    # `--opt=value`: a value may begin with '-'
                    args += ["--header-key=" + mdmode["key"], "--tsv-metadata-formatter", fm_name]
                    if mdmode["value"] != mdmode["key"]:
                        args += ["--output-metadata-id=" + mdmode["value"]]
                args += extra_cli_args(cli_extra, e["samp"], "to-tsv")
                lib.convert(args)
                with open(out, encoding="utf-8", newline="") as f:
                    texts["cli"] = f.read()
            except Exception as ex:  # noqa
                cli_error = "%s: %s" % (type(ex).__name__, str(ex)[:200])
        rm(src_fp, out, tmp("smd.txt"))

    # ---- import
    results = []

    def add(route_name, lines, table, check_md, processor, cli=False, agree_md=True):
        results.append({"route": route_name, "lines": lines, "table": table, "checkMd": bool(check_md),
                        "processor": processor, "cli": cli, "requested": bool(cli and mdmode),
                        "agreeMd": bool(agree_md)})

    ident_ok = mdmode is None or fm_name in ("naive", "str")   # load_table has no processing function
    mapping_failures = []
    if s is not None:
        ls = s.split("\n")
        given = list(ls)
        add("lines", ls, guarded(lambda: lib.Table.from_tsv(given, None, None, pr), profile), True, pr_name)
        if given != ls:
            mapping_failures.append("from_tsv changed the caller's list of lines")
        add("handle", list(io.StringIO(s)), guarded(lambda: lib.Table.from_tsv(io.StringIO(s), None, None, pr), profile),
            True, pr_name)
        d = texts["direct_io"]
        add("direct_io", list(io.StringIO(d)), guarded(lambda: lib.Table.from_tsv(io.StringIO(d), None, None, pr), profile),
            True, pr_name)
        add("parse_lines", ls, guarded(lambda: lib.parse.parse_biom_table(list(ls)), profile), ident_ok, "naive")
        add("parse_handle", list(io.StringIO(s)), guarded(lambda: lib.parse.parse_biom_table(io.StringIO(s)), profile),
            ident_ok, "naive")
        # rarely used arguments: md_parse instead of the processing function; ID -> metadata mappings
        if case.get("rare", True):
            # the SAME list object as in the "lines" call, and one keyword dict shared by two calls
            shared_kw = {"md_parse": pr}
            add("lines:md_parse", ls,
                guarded(lambda: lib.Table.from_tsv(given, None, None, lambda x: x, **shared_kw), profile),
                True, pr_name)
            add("lines:md_parse-again", ls,
                guarded(lambda: lib.Table.from_tsv(given, None, None, lambda x: x, **shared_kw), profile),
                True, pr_name)
            if given != ls or shared_kw != {"md_parse": pr}:
                mapping_failures.append("from_tsv changed an argument object of the caller")
            # md_parse fed from lines that still carry their line ends (a handle, readlines())
            add("handle:md_parse", list(io.StringIO(s)),
                guarded(lambda: lib.Table.from_tsv(io.StringIO(s), None, None, lambda x: x, md_parse=pr), profile),
                True, pr_name)
            add("readlines:md_parse", list(io.StringIO(s)),
                guarded(lambda: lib.Table.from_tsv(io.StringIO(s).readlines(), None, None, lambda x: x, md_parse=pr), profile),
                True, pr_name)
            smap = AnyKey({i: {"where": "site %s" % i, "n": j} for j, i in enumerate(e["samp"])})
            omap = AnyKey({i: {"mapped": "obs %s" % i} for i in e["obs"]})
            kept = {}

            def with_maps():
                lib.Table.from_tsv(given, omap, smap, pr)           # the same mapping objects twice
                kept["t"] = lib.Table.from_tsv(given, omap, smap, pr)
                return kept["t"]
            r_maps = guarded(with_maps, profile)
            add("lines:mappings", ls, dict(r_maps, omd=None) if "error" not in r_maps else r_maps, False, pr_name,
                agree_md=False)
            if "t" in kept and "error" not in r_maps and r_maps["obs"] == e["obs"] and r_maps["samp"] == e["samp"]:
                t2 = kept["t"]
                got_s = core.canon_md(t2.metadata(axis="sample"))
                got_o = core.canon_md(t2.metadata(axis="observation"))
                if got_s != core.canon_md([smap[i] for i in e["samp"]]) or \
                        got_o != core.canon_md([omap[i] for i in e["obs"]]):
                    mapping_failures.append("obs_mapping/sample_mapping not attached by ID")
        # the same path is re-used for other content and formats across cases (no per-path memo may survive)
        p, pz = tmp("x.tsv"), tmp("x.tsv.gz")
        same = tmp("same.dat")
        with open(p, "w", encoding="utf-8", newline="") as f:
            f.write(s)
        with open(p, encoding="utf-8") as f:
            view = list(f)
        add("path", view, guarded(lambda: lib.biom.load_table(p), profile), ident_ok, "naive")
        import pathlib
        add("pathlib", view, guarded(lambda: lib.biom.load_table(pathlib.Path(p)), profile), ident_ok, "naive")

        def open_handle():
            with open(p, encoding="utf-8") as fh:
                return lib.biom.load_table(fh)
        add("open-file", view, guarded(open_handle, profile), ident_ok, "naive")
        crng = random.Random(hseed + 5)
        shape = write_gzip(pz, s.encode("utf-8"), crng)
        ctx.count("gzip-container=%s" % shape)
        with io.TextIOWrapper(gzip.open(pz, "rb"), encoding="utf-8") as f:     # reference reader, not biom's
            viewz = list(f)
        add("gzip", viewz, guarded(lambda: lib.biom.load_table(pz), profile), ident_ok, "naive")
        # equivalent plain containers: CRLF line ends, a final newline
        if case.get("rare", True):
            alt = tmp("alt.txt")
            for nm, content in (("crlf", s.replace("\n", "\r\n") + "\r\n"), ("final-newline", s + "\n")):
                with open(alt, "w", encoding="utf-8", newline="") as f:
                    f.write(content)
                with open(alt, encoding="utf-8") as f:
                    valt = list(f)
                add("path:" + nm, valt, guarded(lambda: lib.biom.load_table(alt), profile), ident_ok, "naive")
                if nm == "crlf":
                    write_gzip(alt, content.encode("utf-8"), crng)
                    with io.TextIOWrapper(gzip.open(alt, "rb"), encoding="utf-8") as f:
                        valt = list(f)
                    add("gzip:crlf", valt, guarded(lambda: lib.biom.load_table(alt), profile), ident_ok, "naive")
            rm(alt)
        if case.get("same_path"):
            order = ["gz", "plain", "json"] if hseed % 2 else ["json", "plain", "gz"]
            for kind in order:
                if kind == "gz":
                    write_gzip(same, s.encode("utf-8"), crng)
                    add("same-path:gzip", viewz, guarded(lambda: lib.biom.load_table(same), profile), ident_ok, "naive")
                elif kind == "plain":
                    with open(same, "w", encoding="utf-8", newline="") as f:
                        f.write(s)
                    add("same-path:plain", view, guarded(lambda: lib.biom.load_table(same), profile), ident_ok, "naive")
                else:
                    try:
                        with open(same, "w", encoding="utf-8") as f:
                            f.write(t.to_json("c03"))
                        lib.biom.load_table(same)
                    except Exception:  # noqa  (C02's business; only there to occupy the path with another format)
                        pass
            rm(same)
        # `biom convert` back to a BIOM file, from the plain and from the gzip file
        if use_cli and cli_error is None:
            for nm in ("cli", "cli-gzip"):
                back = tmp("back.biom")
                rm(back)
                if nm == "cli":
                    # the file `biom convert --to-tsv` wrote is the one converted back
                    with open(p, "w", encoding="utf-8", newline="") as f:
                        f.write(texts.get("cli", s))
                    with open(p, encoding="utf-8") as f:
                        view_cli = list(f)
                    src_used = p
                else:
                    view_cli, src_used = viewz, pz
                args = ["-i", src_used, "-o", back, "--to-json" if cli_fmt == "json" else "--to-hdf5"]
                if mdmode:
                    args += ["--process-obs-metadata", pr_name]
                args += extra_cli_args(cli_extra, e["samp"], "from-tsv")
                want_type = cli_extra.get("table_type") or "Table"
                handed = {}
                real_writer = lib.tc.write_biom_table

                def spy(table, fmt, path):
                    handed["t"] = table
                    try:
                        return real_writer(table, fmt, path)
                    except Exception as wex:  # noqa
                        handed["writer_exc"] = wex
                        raise
                lib.tc.write_biom_table = spy
                try:
                    lib.convert(args)
                    conv_exc = None
                except Exception as ex:  # noqa
                    conv_exc = ex
                finally:
                    lib.tc.write_biom_table = real_writer

                # the codec refusing the finished table (e.g. HDF5 and a category name with '/') is C01/C02's business
                writer_refused = "writer_exc" in handed

                def table_handed():
                    if conv_exc is not None and not writer_refused:
                        raise conv_exc
                    return handed["t"]

                def table_loaded():
                    if conv_exc is not None:
                        raise conv_exc
                    return lib.biom.load_table(back)
                # list-valued metadata under a name HDF5 has no list formatter for is C01's business
                file_md = cli_fmt == "json" or mdmode is None or fm_name == "naive" or mdmode["value"] == "taxonomy"
                # plain text under one of the names HDF5 writes as a list of levels (taxonomy, KEGG_Pathways, ...) comes back
                # from the file as a list, '' as None: "flat taxonomy text" is one of the out-of-domain inputs of C04's mdDomain —
                # the file's IDs and grid are judged, its metadata is not (the table handed to the writer is judged in full)
                if (cli_fmt != "json" and mdmode is not None and fm_name == "naive"
                        and mdmode["value"] in ("taxonomy", "Taxonomy", "KEGG_Pathways", "collapsed_ids")):
                    file_md = False
                add(nm + ":table", view_cli, guarded(table_handed), True, pr_name, cli=True)
                if writer_refused:
                    ctx.count("cli-output-file-not-writable:%s (table handed to the writer is judged)" % cli_fmt)
                else:
                    readable = True
                    if not file_md:
                        # list-valued metadata under a name HDF5 has no list formatter for: with a '/' in that name the
                        # written file holds a nested group and cannot be read back at all (outside C04's mdDomain, C01's
                        # business) — counted, not judged; the table handed to the writer has been judged above
                        try:
                            table_loaded()
                        except Exception:  # noqa
                            readable = False
                            ctx.count("hdf5-file-with-list-under-generic-name-unreadable (C01/C04 domain)")
                    if readable:
                        add(nm + ":file-" + cli_fmt, view_cli, guarded(table_loaded), file_md, pr_name, cli=True,
                            agree_md=file_md)
                if (conv_exc is None or writer_refused) and "t" in handed:
                    if handed["t"].type != want_type:
                        mapping_failures.append("--table-type not honoured: %r" % (handed["t"].type,))
                    if cli_extra.get("sample_md"):
                        got = core.canon_md(handed["t"].metadata(axis="sample"))
                        want = core.canon_md([{"site": "site %d" % j} for j in range(len(e["samp"]))])
                        if got != want:
                            mapping_failures.append("--sample-metadata-fp not attached by ID")
                if not file_md:
                    ctx.count("hdf5-list-metadata-under-generic-name: grid and IDs only (C01)")
                rm(back)
        rm(p, pz)

    # ---- the real extractor on the real text (list and handle), for the model correspondence
    extract_reqs = []
    if s is not None:
        for nm, lines, arg in (("list", s.split("\n"), s.split("\n")), ("handle", list(io.StringIO(s)), io.StringIO(s))):
            try:
                sid, oid, data, md_, name = lib.Table._extract_data_from_tsv(arg)
                impl = {"samp": list(sid), "obs": list(oid),
                        "triples": [[int(a), int(b), num_json(c)] for a, b, c in data],
                        "md": None if md_ is None else list(md_), "mdName": name}
            except Exception as ex:  # noqa
                impl = {"error": core.err_name(ex)}
            extract_reqs.append((nm, lines, impl))

    # ---- oracles for the two external functions, and their contract
    vals = sorted({float(x) for r in t.matrix_data.toarray().tolist() for x in r} | {0.0})
    fmt_or = [[num_json(v), str(np.float64(v))] for v in vals]
    for v, (_, txt) in zip(vals, fmt_or):
        ok = float(txt) == v and txt == txt.strip() and not any(c.isspace() for c in txt) and txt != ""
        ctx.count("contract:float-text-ok" if ok else "contract:float-text-VIOLATED")
        if not ok:
            ctx.diverge(case, "str(float64)/float() contract violated for %r" % (v,), tags)
    mdtexts = None
    if mdmode and e["md"] is not None:
        mdtexts = [fm(x) for x in (m_.get(mdmode["key"]) for m_ in t.metadata(axis="observation"))]
    all_lines = [r["lines"] for r in results] + ([impl_lines] if s is not None else [])
    par_or = parse_oracle(all_lines, extra=[x[1] for x in fmt_or] + (mdtexts or []) + [x.strip() for x in (mdtexts or [])])

    req = {"op": "roundtrip", "export": e, "formatter": fm_name, "fmtOracle": fmt_or, "parseOracle": par_or,
           "implLines": impl_lines, "results": results}
    # "re-imported with the inverse processing function": the pair must be inverse on these values
    inverse_ok = True
    if mdtexts is not None:
        inverse_ok = all(md_val(pr(txt.strip())) == v for txt, v in zip(mdtexts, e["md"]))
    if not inverse_ok:
        # IDs and grid are still demanded; the category clause needs the inverse processing function
        for res in results:
            res["checkMd"] = False
        ctx.count("pair-not-inverse-on-these-values: IDs and grid only")
    ids_ok, md_ok, some_non_numeric = guard_facts(e, mdtexts, True)
    in_guard = ids_ok and md_ok and some_non_numeric and n >= 1 and m >= 1
    ctx.case({"export": e, "md": mdmode, "route": route, "history": hist},
             nontrivial=(n >= 1 and m >= 1 and s is not None))
    r = ctx.driver.ask(req)

    ctx.count("shape=%s" % ("1x1" if (n, m) == (1, 1) else "single-sample" if m == 1 else
                            "single-observation" if n == 1 else "empty" if n * m == 0 else "general"))
    ctx.count("md=%s" % (fm_name + ">" + pr_name if mdmode else "none"))
    ctx.count("history=" + hist)
    ctx.count("layout=%s" % route)
    if s is not None:
        nz = sum(1 for row in e["rows"] for x in row if x != "0")
        ctx.count("sparsity=%s" % ("all-zero" if nz == 0 else "dense" if nz == n * m else "mixed"))
        if any(("e" in x[1]) for x in fmt_or):
            ctx.count("values=exponent-notation")
    if "cli" in texts:
        ctx.count("cli-export=%s" % ("same-text" if texts["cli"] == s else "DIFFERENT-text"))
        if texts["cli"] != s:
            ctx.diverge(case, "`biom convert --to-tsv` wrote a text different from to_tsv()", tags,
                        detail={"api": s, "cli": texts["cli"]})
    if cli_error is not None:
        ctx.count("cli-export=ERROR")
        if in_guard:
            ctx.fail(case, "cli_export_ok", tags + ["route=cli"], detail=cli_error)
    if not variants_equal:
        ctx.diverge(case, "to_tsv(direct_io=...) / delimited_self / str() disagree with to_tsv()", tags)

    if not in_guard:
        # outside the property's guard (e.g. every formatted metadata text parses as a number):
        # nothing is demanded of the real code; the model must still predict what it does
        ctx.count("outside-guard:%s" % ("ids" if not ids_ok else "md-text" if not md_ok else "numeric-md-column"))
        if not r["holds"]:
            ctx.count("outside-guard:misread-as-predicted" if r["agree"] else "outside-guard:misread")
        if not r["agree"]:
            ctx.diverge(case, "model differs (outside guard): %s" % r["what"], tags, detail={"model": r["model"]})
    else:
        if inverse_ok:
            ctx.count("theorem-guard=%s" % ("met" if r["guard"] else "NOT-MET"))
        if inverse_ok and not r["guard"]:
            ctx.diverge(case, "a case inside the property's guard does not meet the theorems' hypotheses (guardB)", tags)
        if not r["model_holds"]:
            ctx.diverge(case, "theorem model_holds contradicted by the driver", tags)
        if not r["holds"]:
            clause, _, rt = r["clause"].partition("@")
            ctx.fail(case, clause, tags + ["reader=" + rt], detail={"clause": r["clause"], "results": results})
        elif not r["agree"]:
            ctx.diverge(case, "model differs: %s" % r["what"], tags, detail={"model": r["model"]})
    # exporting is a read: the table, and the table it was derived from, are what they were
    if observe_export(t, mdmode) != {k: v for k, v in e.items() if k != "colName"}:
        ctx.fail(case, "export_changed_table", tags, detail="table differs after to_tsv/str/delimited_self")
    if t is not src and hist not in ("none",):
        if (observe_export(src, None), core.canon_md(src.metadata(axis="observation"))) != src_before:
            ctx.fail(case, "source_table_changed", tags, detail="the table %s was derived from changed" % hist)
    for what in mapping_failures:
        if in_guard:
            ctx.fail(case, "argument_honoured", tags, detail=what)
    for nm, lines, impl in extract_reqs:
        rr = ctx.driver.ask({"op": "extract", "lines": lines, "parseOracle": parse_oracle([lines]), "impl": impl})
        ctx.count("extract(%s)=%s" % (nm, "agree" if rr["agree"] else "DIFFER"))
        if not rr["agree"]:
            ctx.diverge(case, "_extract_data_from_tsv (%s) differs from extractData" % nm, tags,
                        detail={"impl": impl, "model": rr["model"]})
    for res in results:
        ctx.count("reader=%s:%s" % (res["route"], "error" if "error" in res["table"] else "ok"))
    return r


# ----------------------------------------------------------------------------- hand-written classic tables


def extract_case(ctx, lib, lines, tags=()):
    """arbitrary text through the real extractor (list and handle) and the model"""
    text = "".join(lines)
    for nm in ("list", "handle"):
        if nm == "list":
            view, arg = list(lines), list(lines)
        else:
            view, arg = list(io.StringIO(text)), io.StringIO(text)
        try:
            sid, oid, data, md_, name = lib.Table._extract_data_from_tsv(arg)
            impl = {"samp": list(sid), "obs": list(oid), "triples": [[int(a), int(b), num_json(c)] for a, b, c in data],
                    "md": None if md_ is None else list(md_), "mdName": name}
        except Exception as ex:  # noqa
            impl = {"error": core.err_name(ex)}
        case = {"extract_lines": view}
        new = ctx.case(case, nontrivial=len(view) >= 2)
        rr = ctx.driver.ask({"op": "extract", "lines": view, "parseOracle": parse_oracle([view]), "impl": impl})
        ctx.count("classic-text(%s)=%s" % (nm, "error:" + impl["error"] if "error" in impl else
                                             "md-column" if impl["md"] is not None else "numeric-last-column"))
        if not rr["agree"]:
            ctx.diverge(case, "_extract_data_from_tsv (%s) differs from extractData" % nm, list(tags),
                        detail={"impl": impl, "model": rr["model"]})


def gen_classic(rng):
    """a classic table as a person or another tool would write it"""
    eol = rng.choice(["\n", "\n", "\n", "", "\r\n", " \n"])
    n, m = rng.randint(0, 4), rng.randint(0, 4)
    lines = []
    for _ in range(rng.choice([0, 0, 1, 2])):
        lines.append(rng.choice(["# Constructed from biom file", "#comment\twith\ttabs", "#", "# QIIME v1.9", "", "  "]))
    samp = [decorate(rng, "S%d" % j, 0.15, True) for j in range(m)]
    md = rng.choice([None, None, "text", "numeric", "mixed", "blankish"])
    hdr_first = rng.choice(["#OTU ID", "#OTU ID", "OTU", "", "# x"])
    hdr = [hdr_first] + samp + (["taxonomy"] if md and rng.random() < 0.9 else [])
    if rng.random() < 0.9:
        lines.append("\t".join(hdr))
    if rng.random() < 0.25:
        lines.append(rng.choice(["", " ", "#late comment"]))
    for i in range(n):
        vals = []
        for j in range(m):
            vals.append(rng.choice(["0", "1", "2.5", "0.0", "1e-3", "-4", " 7", "7 ", "x", "", "nan", "1_0", "3"]
                                   if rng.random() < 0.25 else ["0", "1", "2", "10", "0.0"]))
        row = [decorate(rng, "%s%d" % (rng.choice(["O", "#O", " O", "o "]) if rng.random() < 0.2 else "O", i), 0.2, True)] \
            + vals
        if md == "text":
            row.append(decorate(rng, rng.choice(["k__A; p__b", "x", "a b ", " lead"]), 0.3, True))
        elif md == "numeric":
            row.append(rng.choice(["1", "2.5", "nan", "1e3"]))
        elif md == "mixed":
            row.append(rng.choice(["1", "x", "2.5", "k__A"]))
        elif md == "blankish":
            row.append(rng.choice(["", " ", "x"]))
        lines.append("\t".join(row))
        if rng.random() < 0.15:
            lines.append(rng.choice(["", "#c", "   "]))
    return [l + eol for l in lines]


# ----------------------------------------------------------------------------- systematic: character x position x role


def position_cases():
    """every special character first / inside / last in every kind of field the text has: first and later
    observation ID, first / middle / LAST sample ID, metadata text (list element and plain text), header value"""
    roles = ["obs0", "obs1", "samp0", "samp_mid", "samp_last", "md_elem", "md_text", "header_value"]
    k = 0
    for c in SPECIALS:
        for pos in ("first", "inside", "last"):
            word = {"first": c + "w", "inside": "w" + c + "w", "last": "w" + c}[pos]
            role = roles[k % len(roles)]
            second = roles[(k // len(roles) + k + 3) % len(roles)]
            k += 1
            for r in {role, second}:
                obs, samp = ["O1", "O2"], ["S1", "S2", "S3"]
                omd, mdmode = None, None
                if r == "obs0":
                    obs[0] = word
                elif r == "obs1":
                    obs[1] = word
                elif r == "samp0":
                    samp[0] = word
                elif r == "samp_mid":
                    samp[1] = word
                elif r == "samp_last":
                    samp[2] = word
                elif r == "md_elem":
                    if ";" in word:
                        continue
                    omd = [{"taxonomy": [word, "p__x"]}, {"taxonomy": ["k__y", word]}]
                    mdmode = {"key": "taxonomy", "value": "taxonomy", "formatter": "sc_separated", "processor": "taxonomy"}
                elif r == "md_text":
                    omd = [{"note": word}, {"note": "plain"}]
                    mdmode = {"key": "note", "value": "note", "formatter": "naive", "processor": "naive"}
                else:
                    omd = [{"taxonomy": ["k__A"]}, {"taxonomy": ["k__B", "p__c"]}]
                    mdmode = {"key": "taxonomy", "value": word, "formatter": "sc_separated", "processor": "sc_separated"}
                if obs[0].startswith("#") or obs[1].startswith("#"):
                    continue            # outside the guard: a comment line
                yield {"spec": {"obs": obs, "samp": samp, "rows": [[1.0, 0.0, 2.5], [0.0, 3.0, 4.0]], "omd": omd,
                                "smd": None, "type": None},
                       "route": "dense", "history": "none", "hseed": k, "mdmode": mdmode, "clifmt": "json",
                       "cli": k % 4 == 0, "rare": False}, ("position", "char=%r" % c, "pos=" + pos, "role=" + r)


# ----------------------------------------------------------------------------- fixed corpus


def fixed_corpus():
    cases = []

    def add(spec, route="dense", history="none", mdmode=None, tags=(), clifmt="json"):
        cases.append(({"spec": spec, "route": route, "history": history, "hseed": 1, "mdmode": mdmode,
                       "clifmt": clifmt}, tags))

    def sp(obs, samp, rows, omd=None):
        return {"obs": obs, "samp": samp, "rows": rows, "omd": omd, "smd": None, "type": None}
    # repaired: e8ba4fdc — a table without any non-zero value could not be re-imported
    for shape in ((1, 1), (1, 2), (2, 1), (2, 2), (3, 3)):
        add(sp(["O%d" % i for i in range(shape[0])], ["S%d" % j for j in range(shape[1])],
               [[0.0] * shape[1] for _ in range(shape[0])]), tags=("fixed:e8ba4fdc",))
    # repaired: c5ad5131 — gzip reader split lines at U+001C..1E, VT, FF, NEL, LS, PS inside an ID
    for ch in "\x1c\x1d\x1e\x0b\x0c\x85  ":
        add(sp(["a%sb" % ch, "c"], ["S1", "S2"], [[1.5, 0.0], [0.0, 2.0]]), tags=("fixed:c5ad5131",))
        add(sp(["O1", "O2"], ["a%sb" % ch, "c"], [[1.5, 0.0], [0.0, 2.0]]), tags=("fixed:c5ad5131",))
    # shapes and values the property names
    add(sp(["O1"], ["S1", "S2", "S3"], [[5e-324, 1.7976931348623157e308, -2.5]]))
    add(sp(["O1", "O2", "O3"], ["S1"], [[1e-7], [0.1234567891], [123456789012345680000.0]]))
    add(sp(["O1"], ["S1"], [[-1e22]]))
    add(sp(["1", "2", "3"], ["1", "2", "3"], [[1.0, 2.0, 3.0], [4.0, 5.0, 6.0], [7.0, 8.0, 9.0]]))
    add(sp(["nan", "inf"], ["1e5", "-0.5"], [[0.0, 0.5], [0.25, 0.0]]))
    tax = [{"taxonomy": ["k__A", "p__b c"]}, {"taxonomy": ["k__B"]}]
    md_tax = {"key": "taxonomy", "value": "taxonomy", "formatter": "sc_separated", "processor": "taxonomy"}
    add(sp(["O1", "O2"], ["S1"], [[1.0], [2.0]], tax), mdmode=md_tax)
    add(sp(["O1", "O2"], ["S1", "é"], [[1.0, 0.0], [0.0, 2.5e-9]], tax), mdmode=md_tax, clifmt="hdf5")
    add(sp(["O1", "O2"], ["S1", "é"], [[0.0, 0.0], [0.0, 0.0]], tax),
        mdmode=dict(md_tax, value="Consensus Lineage", processor="sc_separated"))
    add(sp(["O1"], ["S1", "S2"], [[0.0, 3.0]], [{"taxonomy": ["12"]}]), mdmode=md_tax, tags=("numeric-md",))
    add(sp(["O1", "O2"], ["S1", "S2"], [[0.0, 3.0], [1.0, 1.0]], [{"taxonomy": ["12"]}, {"taxonomy": ["x"]}]),
        mdmode=md_tax, tags=("one-numeric-md-row",))
    add(sp(["O1", "O2"], ["S1"], [[1.0], [2.0]], [{"note": "1.5"}, {"note": "nan"}]),
        mdmode={"key": "note", "value": "note", "formatter": "naive", "processor": "naive"}, tags=("numeric-md",))
    add(sp(["O1", "O2"], ["S1"], [[1.0], [2.0]], [{"note": "x y"}, {"note": "z"}]),
        mdmode={"key": "note", "value": "note", "formatter": "str", "processor": "naive"})
    # relations between the arguments and the table: the metadata column / the first column named like an ID
    for hv in ("S1", "S2", "S3", "O1", "taxonomy"):
        for samp in (["S1", "S2", "S3"], ["taxonomy", "S2", "S1"], ["S3", "taxonomy", "O1"]):
            add(sp(["O1", "O2"], samp, [[1.0, 0.0, 2.5], [0.0, 3.0, 4.0]],
                   [{"taxonomy": ["k__A", "p__b"]}, {"taxonomy": ["k__B"]}]),
                mdmode=dict(md_tax, value=hv), tags=("relation:column-named-like-an-id",))
    # header key given, table without observation metadata: header column without a data column
    add(sp(["O1", "O2"], ["S1"], [[1.0], [2.0]]), mdmode=md_tax, tags=("key-without-metadata",))
    return cases


# ----------------------------------------------------------------------------- entry points


COLNAMES = ["#OTU ID", "Feature ID", "#ID", "taxon é", "OTU", "#"]
PROFILES = [{"_warnings": "error"}, {"_warnings": "always"}, {"empty": "raise"}, {"empty": "warn"}, {"empty": "call"}, {"empty": "print"}, {"all": "raise"},
            {"obsdup": "ignore", "empty": "raise"}]


def warm_up(lib):
    """process-level state: call everything once, early, with unusual optional arguments; every later
    default call of the run is then judged as usual"""
    import numpy as np
    t = lib.Table(np.array([[1.0, 0.0], [2.0, 3.5]]), ["w1", "w2"], ["x", "y"],
                  [{"taxonomy": ["k__W", "p__w"], "n": 1}, {"taxonomy": ["k__V"], "n": 2}])
    try:
        t.to_tsv(header_key="n", header_value="number", metadata_formatter=lambda v: "<%s>" % v,
                 observation_column_name="Weird")
        t.delimited_self(delim=",", observation_column_name="C")
        s = t.to_tsv(header_key="taxonomy", header_value="tx", metadata_formatter=lambda v: "|".join(v))
        lib.Table.from_tsv(s.split("\n"), None, None, lambda v: v.split("|"), md_parse=lambda v: v.upper())
        lib.Table._extract_data_from_tsv(["#ID,a,b", "r,1,2"], delim=",", dtype=int)
        lib.Table._extract_data_from_tsv(io.StringIO("#ID\ta\nr\t7\n"), dtype=lambda v: float(v) * 2)
        p = tmp("warm.dat")
        for content in (t.to_json("w"), s):
            with open(p, "w", encoding="utf-8") as f:
                f.write(content)
            lib.biom.load_table(p)
        rm(p)
    except Exception:  # noqa  (nothing is judged here)
        pass


def check_ws(ctx):
    r = ctx.driver.ask({"op": "ws"})
    py = [i for i in range(0x110000) if chr(i).isspace()]
    ok = r["ws"] == py
    ctx.count("contract:str.isspace-table-%s" % ("equal" if ok else "DIFFERENT"))
    if not ok:
        ctx.diverge({"ws": py}, "Lean `ws` differs from Python str.isspace", ())


def run(ctx):
    lib = Lib()
    shutil.rmtree(TMP, ignore_errors=True)
    os.makedirs(TMP, exist_ok=True)
    ctx.rule = ("table spec (1..N x 1..M, IDs with inner blanks/punctuation/non-ASCII/numeric-looking/control characters, "
                "values of every class incl. random bit patterns, every sparsity) x core.build route x prior operation "
                "x exported category (none / list through sc_separated / text through naive or str); exported by "
                "to_tsv, direct_io, delimited_self, str and `biom convert --to-tsv`; re-imported as list of lines, "
                "handle, parse_biom_table, path, gzip path, `biom convert` to JSON/HDF5. distinct = distinct "
                "(table observation, category, route, history); non-trivial = non-empty table that was exported")
    ctx.trusted = ["str(numpy.float64) and float(text) enter the model as oracles; their contract (text re-parses to "
                   "the same double, no blanks) is checked on every value used",
                   "line splitting of files is the readers' (io universal newlines); the model receives the lines the reader yields",
                   "Lean `ws` = Python str.isspace (compared over all code points at start)"]
    try:
        check_ws(ctx)
        warm_up(lib)
        for case, tags in fixed_corpus():
            check_case(ctx, lib, case, tags)
        for k, (case, tags) in enumerate(position_cases()):
            if ctx.mine(k):
                check_case(ctx, lib, case, tags)
                ctx.count("position-case")
        rng = ctx.rng
        # size thresholds: many IDs on one axis, and one text of more than 64 KiB
        for k, (axis, n_axis, other) in enumerate((("sample", None, None), ("observation", None, None),
                                                   ("sample", 64, 1), ("observation", 65, 1),
                                                   ("sample", 100, 100), ("sample", 520, 1),
                                                   ("observation", 515, 2))):
            if not ctx.mine(k):
                continue
            wspec = core.wide_spec(rng, n_axis=n_axis, other=other, axis=axis,
                                   classes=("count",) if (n_axis, other) == (100, 100) else ("count", "tiny", "neg"))
            if k % 2 == 0:
                wspec["omd"] = [{"taxonomy": ["k__A", "p__%d" % i]} for i in range(len(wspec["obs"]))]
            check_case(ctx, lib, {"spec": wspec, "route": rng.choice(core.ROUTES),
                                  "history": rng.choice(["none", "sort_samples", "sort_obs", "export_then_transform"]),
                                  "hseed": rng.randint(0, 10 ** 9), "mdmode": "auto", "clifmt": "json",
                                  "cli": k in (0, 1), "poke": True, "rare": k < 4 or k > 4}, ("wide",))
            ctx.count("wide-case")
        # IDs ending or starting with a blank are outside the guard: the model must predict what happens
        for obs, samp in ((["O1 ", "O2"], ["S1", "S2"]), (["O1", "O2"], ["S1", "S2 "]), (["O1", "O2"], ["S1", "S2\x1c"]),
                          ([" O1", "O2"], [" S1", "S2"]), (["O1", "O2\xa0"], ["S1\u3000", "S2"])):
            check_case(ctx, lib, {"spec": {"obs": obs, "samp": samp, "rows": [[1.0, 0.0], [2.5, 3.0]], "omd": None,
                                           "smd": None, "type": None}, "route": "dense", "history": "none",
                                  "hseed": 3, "mdmode": None}, ("blank-ended-id",))
        budget = 30 if ctx.quick() else 420
        max_n, max_m = (5, 5) if ctx.quick() else (8, 8)
        i = 0
        while ctx.time_left(budget) > 0:
            i += 1
            shape = None
            c = rng.random()
            if c < 0.12:
                shape = (rng.randint(1, max_n), 1)
            elif c < 0.24:
                shape = (1, rng.randint(1, max_m))
            elif c < 0.27:
                shape = (1, 1)
            omd_kind = None
            if rng.random() < 0.06:
                omd_kind = rng.choice(["numeric-tax", "numeric-text"])
            spec = gen_spec(rng, max_n, max_m, shape, omd_kind)
            case = {"spec": spec, "route": rng.choice(core.ROUTES), "history": rng.choice(HISTORIES),
                    "hseed": rng.randint(0, 10 ** 9), "mdmode": "auto", "clifmt": rng.choice(["json", "json", "hdf5"]),
                    "cli": (not ctx.quick()) or i % 3 == 0,
                    "poke": rng.random() < 0.6, "rare": i % 2 == 0, "same_path": i % 5 == 0,
                    "colname": rng.choice(COLNAMES + [x for x in spec["samp"][:1] + spec["obs"][:1]
                                                      if x == x.strip() and x]) if rng.random() < 0.1 else None,
                    "profile": rng.choice(PROFILES) if rng.random() < 0.25 else None,
                    "cli_extra": {"table_type": rng.choice([None, "OTU table", "Taxon table", "Table"]),
                                  "sample_md": rng.random() < 0.3}}
            check_case(ctx, lib, case)
            if i % 4 == 0:
                extract_case(ctx, lib, gen_classic(rng))
        # empty tables are refused by the exporter; the model must say so too
        for spec in ({"obs": [], "samp": ["S1"], "rows": [], "omd": None, "smd": None, "type": None},
                     {"obs": ["O1"], "samp": [], "rows": [[]], "omd": None, "smd": None, "type": None}):
            check_case(ctx, lib, {"spec": spec, "route": "dense", "history": "none", "hseed": 0, "mdmode": None})
        for lines in (["#FeatureID\tSample1"], [], ["#a\n", "#b\n"], ["\n", "x\ty\n", "a\t1\n"], ["x\ty\n", "\n", "a\t1\n"],
                      ["# c\n", "\n", "#OTU ID\tS1\tS2\n", "\n", "O1\t1\t2\n"], ["#OTU ID\tS1\tmd\n", "O1\t1\tk__a\n", "\n"],
                      ["ID\tS1\n", "O1\t1\n", "O2\tx\n"], ["#OTU ID\n", "O1\n"], ["#OTU ID\tS1\n", "O1\t1\t2\n"]):
            extract_case(ctx, lib, lines)
    finally:
        shutil.rmtree(TMP, ignore_errors=True)


def replay(ctx, rec):
    lib = Lib()
    os.makedirs(TMP, exist_ok=True)
    try:
        case = rec["case"]
        if "extract_lines" in case:
            extract_case(ctx, lib, case["extract_lines"])
        elif "spec" in case:
            check_case(ctx, lib, case, rec.get("tags", ()))
        else:
            ctx.notes.append("replay: unknown case kind")
    finally:
        shutil.rmtree(TMP, ignore_errors=True)
