"""C19 — summaries and exports report the numbers that are in the matrix.

For a table built through some layout route and (optionally) a prior operation, every summary of the
REAL library is taken (sum/min/max/nonzero_counts/density/reduce/nonzero, the statistics helper,
`_summarize_table` in its four mode combinations, the `summarize-table`, `table-ids`, `head`,
`export-metadata` commands in-process, `to_dataframe` dense/sparse, `metadata_to_dataframe`).
The table's own content (`matrix_data.toarray()`, IDs, metadata) and the figures go to the Lean
driver, which evaluates `C19.holds…` (figure = direct function of the dense grid) and compares
with the model's answer.

Canonicalisation (DESIGN Appendix B): floats cross as exact rationals; report text is parsed back
into numbers, thousands separators removed; a `%d` figure is compared with the truncation of the
exact figure, a `%1.3f` figure must lie within 0.0005 (+1e-9 slack for the float the code actually
formats) of the exact figure, the printed standard deviation is compared through its square with the
exact variance; numpy `mean` is compared within 2^-40 relative; NaN in a data frame is `null`.
"""
import csv
import functools
import io
import os
import shutil
import warnings
from fractions import Fraction

from . import core

TMP = "/tmp/c19/files-%d" % os.getpid()

RED = {
    "add": lambda a, b: a + b,
    "sub": lambda a, b: a - b,
    "max": lambda a, b: max(a, b),
    "last": lambda a, b: b,
    "affine": lambda a, b: 2 * a + b,
    "first": lambda a, b: a,
}



class _Adder:
    """a callable object (neither a function nor a ufunc)"""

    def __call__(self, a, b):
        return a + b


def red_kinds(name, t=None):
    """the same two-argument function as different KINDS of callable: lambda, operator function, numpy ufunc, builtin,
    functools.partial, callable object, and a function that reads the table (flipping its layout) while the fold runs"""
    import operator
    import numpy as np
    kinds = {
        "add": [("lambda", RED["add"]), ("operator", operator.add), ("ufunc", np.add), ("object", _Adder()),
                ("partial", functools.partial(lambda k, a, b: a + b + k, 0.0))],
        "sub": [("lambda", RED["sub"]), ("operator", operator.sub), ("ufunc", np.subtract)],
        "max": [("lambda", RED["max"]), ("builtin", max), ("ufunc", np.maximum), ("ufunc-fmax", np.fmax)],
        "last": [("lambda", RED["last"])],
        "affine": [("lambda", RED["affine"])],
        "first": [("lambda", RED["first"])],
    }[name]
    if t is not None and name == "add" and t.shape[0] and t.shape[1]:
        def poking(a, b):
            t.data(t.ids(axis="observation")[0], axis="observation")      # a read inside the fold: CSR
            t.data(t.ids()[0], axis="sample")                              # ... and CSC
            return a + b
        kinds = kinds + [("reads-table", poking)]
    return kinds


AXES = ["sample", "observation", "whole"]
ACCESSORS = ["nnz", "density", "repr", "queries", "nonzero", "stats", "report", "frames", "mdframes", "head", "render"]
PROFILES = [None, None, None, {"empty": "raise"}, {"all": "warn"}, {"all": "raise"}, {"empty": "call"}]
ZERO_RULES = ["even-pos", "odd-pos", "below-3", "first", "all-but-first", "above-mean"]


def zero_rule(rule):
    """a transform function that zeroes some of the (stored) values of every vector"""
    import numpy as np

    def f(data, id_, md):
        d = np.array(data, dtype=float)
        idx = np.arange(len(d))
        if rule == "even-pos":
            d[idx % 2 == 0] = 0
        elif rule == "odd-pos":
            d[idx % 2 == 1] = 0
        elif rule == "below-3":
            d[d < 3] = 0
        elif rule == "first":
            d[:1] = 0
        elif rule == "all-but-first":
            d[1:] = 0
        elif rule == "above-mean" and len(d):
            d[d > d.mean()] = 0
        return d
    return f

POSTS = ["none", "none", "sort_rev", "transpose", "filter", "copy", "sort_obs"]


# ----------------------------------------------------------------------------- helpers
def layout(m, kind):
    import numpy as np
    c = m.tocsr() if kind == "csr" else m.tocsc()
    n_major = c.shape[0] if kind == "csr" else c.shape[1]
    n_minor = c.shape[1] if kind == "csr" else c.shape[0]
    return {"nMajor": int(n_major), "nMinor": int(n_minor),
            "indptr": [int(x) for x in c.indptr], "indices": [int(x) for x in c.indices],
            "data": [core.frac(x) for x in np.asarray(c.data, dtype=float)]}


def input_obs(t):
    """the table's own content + the two compressed views of its data"""
    m = t.matrix_data
    return {"table": core.table_obs(t), "csr": layout(m, "csr"), "csc": layout(m, "csc")}


def ans_of(call, wfilter="ignore"):
    import numpy as np
    try:
        with warnings.catch_warnings():
            warnings.simplefilter(wfilter)
            v = call()
    except Exception as e:  # noqa
        return {"err": core.err_name(e)}
    a = np.asarray(v)
    if a.shape == ():
        x = float(a)
        if x == float("inf"):
            return {"inf": False}
        if x == float("-inf"):
            return {"inf": True}
        return {"num": core.frac(x)}
    return {"nums": [core.frac(x) for x in a.tolist()]}


def post_op(t, post, seed):
    """a prior operation that changes the internal layout (and possibly the content)"""
    import random
    rng = random.Random(seed)
    if post == "none":
        return t
    n, m = t.shape
    if post == "sort_rev":
        if m == 0:
            return t
        return t.sort_order(list(reversed(list(t.ids()))))            # fancy column indexing: unsorted indices
    if post == "sort_obs":
        if n == 0:
            return t
        ids = list(t.ids(axis="observation"))
        rng.shuffle(ids)
        return t.sort_order(ids, axis="observation")
    if post == "transpose":
        return t.transpose()                                          # CSC data
    if post == "filter":
        if m < 2:
            return t
        drop = rng.choice(list(t.ids()))
        return t.filter([drop], invert=True, inplace=False)
    if post == "copy":
        return t.copy()
    raise ValueError(post)


def md_entries(t, axis, canon):
    md = t.metadata(axis=axis)
    if md is None:
        return None
    out = []
    for m in md:
        e = []
        for k, v in m.items():
            if isinstance(v, (list, tuple)):
                e.append([str(k), [canon(x) for x in v]])
            else:
                e.append([str(k), canon(v)])
        out.append(e)
    return out


def canon_typed(v):
    """a metadata value / frame cell by KIND and text: text stays text ('0012' is not 12), booleans are not numbers,
    numbers compare by value (pandas may hold an int column as floats)"""
    import json
    import pandas as pd
    if v is None or v is pd.NA or (isinstance(v, float) and v != v):
        return "missing"                       # None in the metadata / the padding of a shorter list
    v = core.canon_value(v)
    if isinstance(v, bool):
        return "bool:%s" % v
    if isinstance(v, (int, float)):
        if v != v:
            return "num:nan"
        if v in (float("inf"), float("-inf")):
            return "num:%s" % v
        return "num:" + core.frac(v)
    if isinstance(v, str):
        return "str:" + v
    if v is None:
        return "none"
    return "json:" + json.dumps(v, sort_keys=True, ensure_ascii=False)


NUMTEXT = ["0012", "007", "1e3", "5.10", "+3", "-0", ".5", "1E-2", "00", "3.", "1e+2", "-7.50", "0.0", "10", "2"]
NANTEXT = ["nan", "NaN", "inf", "-inf", "Infinity", "-Infinity", "NAN"]
BLANKTEXT = [" 5", "5 ", " 12 ", "7  ", "  0.50"]
ODDTEXT = ["1_000", "0x10", "1,5", "", " ", "None", "null", "NA", "1e", "--3"]
BOOLTEXT = ["True", "False", "true", "false", "TRUE"]
MD_CLASSES = ["numtext", "numtext", "nantext", "blanknum", "numtextbutone", "oddtext", "booltext", "ints", "floats",
              "bools", "intstr", "boolint", "numtaxonomy", "withnone", "npscalars", "idnamed", "ragged", "ragged"]


def md_column(rng, cls, n):
    """n values of one metadata category"""
    pick = lambda pool: [rng.choice(pool) for _ in range(n)]          # noqa
    if cls == "numtext":
        return pick(NUMTEXT)
    if cls == "nantext":
        return pick(NANTEXT + NUMTEXT[:3])
    if cls == "blanknum":
        return pick(BLANKTEXT + NUMTEXT[:4])
    if cls == "numtextbutone":
        v = pick(NUMTEXT)
        v[rng.randrange(n)] = rng.choice(["x12", "12x", "n/a"])
        return v
    if cls == "oddtext":
        return pick(ODDTEXT + NUMTEXT[:2])
    if cls == "booltext":
        return pick(BOOLTEXT)
    if cls == "ints":
        return [rng.randint(-3, 40) for _ in range(n)]
    if cls == "floats":
        return [rng.choice([0.5, 10.0, -1.5, 2.25, 1e-07, 3.0]) for _ in range(n)]
    if cls == "bools":
        return [rng.random() < 0.5 for _ in range(n)]
    if cls == "intstr":
        v = [rng.randint(0, 9) for _ in range(n)]
        v[rng.randrange(n)] = rng.choice(["x", "007"])
        return v
    if cls == "withnone":
        v = pick(["a", "b", "0012"])
        v[rng.randrange(n)] = None
        return v
    if cls == "npscalars":
        import numpy as np
        mk = rng.choice([lambda: np.int64(rng.randint(0, 9)), lambda: np.float64(rng.choice([0.5, 2.0, -1.25])),
                         lambda: np.bool_(rng.random() < 0.5)])
        return [mk() for _ in range(n)]
    if cls == "boolint":
        v = [rng.randint(0, 3) for _ in range(n)]
        v[rng.randrange(n)] = True
        return v
    raise ValueError(cls)


def enrich_md(rng, spec, axes=("obs", "samp"), classes=None):
    """extra metadata categories whose values are numeric-looking text, look-alikes of nan/inf/booleans, blanks, real
    ints/floats/bools and mixed columns (same categories, same order on every ID of the axis)"""
    for key in axes:
        ids = spec[key]
        mk = "omd" if key == "obs" else "smd"
        if len(ids) == 0:
            continue
        md = spec.get(mk)
        if md is None:
            md = [{} for _ in ids]
        cls = classes or rng.sample(MD_CLASSES, rng.randint(1, 3))
        ragged = "ragged" in cls
        cls = [c for c in cls if c != "ragged"]
        for c in cls:
            if c == "idnamed":
                # a category named like an ID of the axis / like a field of the frame
                name = rng.choice([ids[0], "id", "index", "columns", "metadata", "shape"])
                for n_, e in enumerate(md):
                    e[name] = "v%d" % n_
                continue
            if c == "numtaxonomy":
                for e in md:
                    e["taxonomy"] = [rng.choice(NUMTEXT), rng.choice(NUMTEXT)]
                continue
            for e, v in zip(md, md_column(rng, c, len(ids))):
                e[c] = v
        if ragged and len(ids) >= 2:
            # a list (or tuple) category of uneven length, last / first / in the middle; the first ID mostly not the longest
            lens = [rng.randint(1, 4) for _ in ids]
            if rng.random() < 0.7:
                lens[0] = 1
                lens[rng.randrange(1, len(ids))] = rng.randint(2, 4)
            as_tuple = rng.random() < 0.3
            where = rng.choice(["last", "first", "middle"])
            undominated = rng.random() < 0.4
            for q, (e, ln) in enumerate(zip(md, lens)):
                v = ["L%d_%s" % (i, rng.choice("abc")) for i in range(ln)]
                items = list(e.items())
                pos = {"last": len(items), "first": 0, "middle": len(items) // 2}[where]
                items.insert(pos, ("lineage", tuple(v) if as_tuple else v))
                if undominated:
                    # a second uneven list whose long ones sit on OTHER IDs: no ID has both at their longest
                    items.append(("route", ["R%d" % i for i in range(5 - ln)]))
                e.clear()
                e.update(items)
        spec[mk] = md
    return spec


def md_kind(md):
    """'homogeneous': every ID carries the same categories in the same order, list-valued ones of the same length;
    'ragged': the same categories, list/tuple-valued ones of uneven length, and SOME ID has every list at its longest
    (the frame takes its column layout from the longest expansion: shorter lists leave their last columns missing,
    every other value stays under its own column - repaired defect 6363233a);
    'ragged-undominated': no single ID has all lists at their longest (repaired defect cc0c0aa1: widths are the per-key
    maxima); 'partial': IDs with differing categories (their missing categories are missing cells).  All kinds are judged;
    the kind is only counted in the evidence"""
    if md is None or len(md) == 0:
        return "homogeneous"
    keys = [[(k, isinstance(v, (list, tuple))) for k, v in m.items()] for m in md]
    if any(k != keys[0] for k in keys):
        return "partial"
    lists = [k for k, is_list in keys[0] if is_list]
    if all(len({len(m[k]) for m in md}) == 1 for k in lists):
        return "homogeneous"
    longest = {k: max(len(m[k]) for m in md) for k in lists}
    if any(all(len(m[k]) == longest[k] for k in lists) for m in md):
        return "ragged"
    return "ragged-undominated"


def homogeneous(md):
    return md_kind(md) != "partial"


def frame_defined(md):
    """since cc0c0aa1 the frame is defined for every annotation: keys in first-seen order, a list category as wide as its
    longest list, missing where an ID lacks the position or the category"""
    return True


def canon_json(v):
    import json
    return json.dumps(core.canon_value(v), sort_keys=True, ensure_ascii=False)


def canon_str(v):
    """the text a TSV field shows; an empty field and a missing value are the same thing there"""
    import numpy as np
    if v is None or (isinstance(v, float) and v != v):
        return "missing"
    if isinstance(v, np.ndarray):
        return str(v)                          # a list category as HDF5 hands it back: written with its own str()
    text = str(core.canon_value(v))
    return text if text != "" else "missing"


def parse_num(s):
    s = s.strip().replace(",", "")
    if s.lower() in ("nan", "-nan"):
        return None
    return core.frac(Fraction(s))


def parse_report(text):
    lines = text.split("\n")
    out = {"total": None, "density": None}
    i = 0

    def after(line, label):
        assert line.startswith(label), (line, label)
        return line[len(label):]
    out["num_samples"] = int(after(lines[0], "Num samples: ").replace(",", ""))
    out["num_observations"] = int(after(lines[1], "Num observations: ").replace(",", ""))
    i = 2
    if lines[i].startswith("Total count: "):
        out["total"] = int(after(lines[i], "Total count: ").replace(",", ""))
        out["density"] = parse_num(after(lines[i + 1], "Table density (fraction of non-zero values): "))
        i += 2
    assert lines[i] == "", lines[i]
    out["summary_title"] = lines[i + 1]
    i += 2
    for key, label in [("min", " Min: "), ("max", " Max: "), ("median", " Median: "), ("mean", " Mean: "),
                       ("std", " Std. dev.: ")]:
        out[key] = parse_num(after(lines[i], label))
        i += 1
    keys = lambda text: text.split("; ") if text else []          # noqa (a first entry without categories prints nothing)
    out["samp_keys"] = keys(after(lines[i], " Sample Metadata Categories: "))
    out["obs_keys"] = keys(after(lines[i + 1], " Observation Metadata Categories: "))
    assert lines[i + 2] == ""
    out["detail_title"] = lines[i + 3]
    detail = []
    for ln in lines[i + 4:]:
        k, v = ln.rsplit(": ", 1)
        detail.append([k, parse_num(v)])
    out["detail"] = detail
    return out


def parse_tsv_table(text):
    lines = text.rstrip("\n").split("\n")
    assert lines[0].startswith("# Constructed from biom file"), lines[0]
    head = lines[1].split("\t")
    samp = head[1:]
    obs, rows = [], []
    for ln in lines[2:]:
        f = ln.split("\t")
        obs.append(f[0])
        rows.append([core.frac(float(x)) for x in f[1:]])
    return {"obs": obs, "samp": samp, "rows": rows}


def nontrivial(tobs):
    n, m = len(tobs["obs"]), len(tobs["samp"])
    nz = sum(1 for r in tobs["rows"] for x in r if x != "0")
    return n >= 2 and m >= 2 and nz >= 2


def asym(tobs):
    return len(tobs["obs"]) != len(tobs["samp"])


class Files:
    """table files for the command-line routes, written under /tmp/c19 and removed right away"""

    def __init__(self):
        os.makedirs(TMP, exist_ok=True)
        self.k = 0

    def write(self, t, fmt):
        import h5py
        self.k += 1
        p = os.path.join(TMP, "table.biom")          # the same path is re-used for HDF5 and JSON content
        if fmt == "hdf5" and not (homogeneous(t.metadata(axis="sample")) and homogeneous(t.metadata(axis="observation"))):
            fmt = "json"                              # to_hdf5 refuses a partially annotated axis (by design)
        if fmt == "hdf5":
            with h5py.File(p, "w") as f:
                t.to_hdf5(f, "c19")
        else:
            with open(p, "w") as f:
                f.write(t.to_json("c19"))
        return p

    @staticmethod
    def rm(*paths):
        for p in paths:
            try:
                os.remove(p)
            except OSError:
                pass


def cli(args):
    """run one biom command in-process: the SUB-COMMAND object is invoked (invoking the click group closes fd 1)"""
    from click.testing import CliRunner
    import biom.cli
    import biom.cli.table_summarizer, biom.cli.table_ids, biom.cli.table_head, biom.cli.metadata_exporter  # noqa
    cmd = {"summarize-table": biom.cli.table_summarizer.summarize_table,
           "table-ids": biom.cli.table_ids.summarize_table,
           "head": biom.cli.table_head.head,
           "export-metadata": biom.cli.metadata_exporter.export_metadata}[args[0]]
    saved = os.dup(1)
    try:
        with warnings.catch_warnings():
            warnings.simplefilter("ignore")
            return CliRunner().invoke(cmd, args[1:])
    finally:
        os.dup2(saved, 1)
        os.close(saved)


# ----------------------------------------------------------------------------- checks
def core_driver_errors():
    """failures of the machinery itself (driver died, unknown accessor): never to be reported as a finding"""
    return (RuntimeError, KeyboardInterrupt, AssertionError)


class Checker:
    def __init__(self, ctx):
        self.ctx = ctx
        self.files = Files()
        self.recipe = None
        self.cli_rng = None
        self.wfilter = "ignore"
        self.vrng = None

    def ask(self, req, case, tags, nt=True, known_clause=None, known_tags=()):
        ctx = self.ctx
        ctx.case(case, nontrivial=nt)
        r = ctx.driver.ask(req)
        ctx.count("op=" + req["op"])
        if r.get("layout_ok") is False:
            ctx.diverge(dict(case, req=req, recipe=self.recipe), "layout contract not met (WF / same content / no stored zero)", tags)
        if r.get("model_holds") is False:
            ctx.diverge(dict(case, req=req, recipe=self.recipe), "theorem model_holds contradicted by the driver", tags)
        if not r["holds"]:
            tg = list(tags)
            if known_clause is not None and r["clause"] == known_clause:
                tg += list(known_tags)
            ctx.fail(dict(case, req=req, recipe=self.recipe), r["clause"], tg, detail={"model": r["model"]})
        elif not r["agree"]:
            ctx.diverge(dict(case, req=req, recipe=self.recipe), "observation differs from the model: %s" % req["op"], tags,
                        detail={"model": r["model"], "disagree": r.get("disagree")})
        return r

    # every check gets `t` (real table), `inp` (its own content, taken BEFORE the summaries run)
    def queries(self, t, inp, tag, tags, only=None, exact=True, order=None, poke=None):
        """all axes/modes of every array summary; `only`: restrict to these query names; `exact=False`: leave out the
        figures that add floats up (after `norm` the values are no dyadic fractions); `order`: an rng that shuffles
        the order in which the accessors are called"""
        import numpy as np
        vr = order if order is not None else self.vrng          # variation of binding / flag spelling / callable kind
        kw = lambda: vr is not None and vr.random() < 0.4       # noqa  keyword instead of positional binding

        def flag(b):
            """a flag as bool, numpy bool or int"""
            if vr is None:
                return b
            return vr.choice([b, b, np.bool_(b), int(b)])
        specs = []
        for ax in AXES:
            specs.append(({"q": "sum", "axis": ax}, (lambda ax=ax: t.sum(axis=ax)) if kw() else (lambda ax=ax: t.sum(ax))))
            specs.append(({"q": "min", "axis": ax}, (lambda ax=ax: t.min(axis=ax)) if kw() else (lambda ax=ax: t.min(ax))))
            specs.append(({"q": "max", "axis": ax}, (lambda ax=ax: t.max(axis=ax)) if kw() else (lambda ax=ax: t.max(ax))))
            for b in (True, False):
                fb = flag(b)
                specs.append(({"q": "nzc", "axis": ax, "binary": b},
                              (lambda ax=ax, fb=fb: t.nonzero_counts(axis=ax, binary=fb)) if kw() else
                              (lambda ax=ax, fb=fb: t.nonzero_counts(ax, fb))))
        # the documented defaults: sum() is 'whole', min()/max() are 'sample', nonzero_counts(axis) is binary
        specs.append(({"q": "sum", "axis": "whole"}, lambda: t.sum()))
        specs.append(({"q": "min", "axis": "sample"}, lambda: t.min()))
        specs.append(({"q": "max", "axis": "sample"}, lambda: t.max()))
        specs.append(({"q": "nzc", "axis": "observation", "binary": True}, lambda: t.nonzero_counts("observation")))
        specs.append(({"q": "density"}, lambda: t.get_table_density()))
        specs.append(({"q": "nnz"}, lambda: t.nnz))
        for ax in AXES[:2]:
            for fname in RED:
                kinds = red_kinds(fname, t)
                kind, f = kinds[0] if vr is None else vr.choice(kinds)
                self.ctx.count("reduce-callable=%s" % kind)
                specs.append(({"q": "reduce", "f": fname, "axis": ax},
                              (lambda ax=ax, f=f: t.reduce(f=f, axis=ax)) if kw() else (lambda ax=ax, f=f: t.reduce(f, ax))))
        if max(t.shape) > 30:
            # 2a+b over a long vector leaves the range where binary64 arithmetic is exact (generator contract)
            specs = [x for x in specs if x[0].get("f") != "affine"]
        if only is not None:
            specs = [x for x in specs if x[0]["q"] in only]
        if not exact:
            specs = [x for x in specs if x[0]["q"] in ("min", "max", "density", "nnz") or
                     (x[0]["q"] == "nzc" and x[0]["binary"])]
        if order is not None:
            order.shuffle(specs)
        items = []
        for q, call in specs:
            if poke is not None and poke.random() < 0.25:
                core.poke_layout(t, poke, 1)       # the layout a previous read left behind
            items.append((q, ans_of(call, self.wfilter)))
        for q, a in items:
            if q["q"] in ("min", "max") and "nums" in a:
                self.ctx.count("query-%s=values" % q["q"])
            if "err" in a:
                self.ctx.count("query-%s=%s" % (q["q"], a["err"]))
            elif "inf" in a:
                self.ctx.count("query-%s=inf" % q["q"])
        req = {"op": "queries", "input": inp, "items": [{"query": q, "ans": a} for q, a in items]}
        self.ask(req, {"check": "queries", "tag": tag, "only": only}, tags, nt=nontrivial(inp["table"]))

    def repr_(self, t, inp, tag, tags):
        import re
        text = repr(t)
        m = re.match(r"^(\d+) x (\d+) (.*) with (\d+) nonzero entries \((-?\d+)% dense\)$", text, re.S)
        if m is None:
            self.ctx.fail({"check": "repr", "tag": tag, "text": text, "recipe": self.recipe}, "repr.format", tags)
            return
        ob = {"rows": int(m.group(1)), "cols": int(m.group(2)), "nnz": int(m.group(4)), "pct": int(m.group(5))}
        self.ask({"op": "repr", "input": inp, "repr": ob}, {"check": "repr", "tag": tag}, tags,
                 nt=nontrivial(inp["table"]))

    def nonzero(self, t, inp, tag, tags):
        pairs = [[str(o), str(s)] for o, s in t.nonzero()]
        self.ask({"op": "nonzero", "input": inp, "pairs": pairs}, {"check": "nonzero", "tag": tag}, tags,
                 nt=nontrivial(inp["table"]))

    def stats(self, t, inp, tag, tags, binaries=(False, True)):
        from biom.util import compute_counts_per_sample_stats
        for b in binaries:
            import numpy as np
            vr = self.vrng
            fb = b if vr is None else vr.choice([b, np.bool_(b), int(b)])
            if vr is not None and vr.random() < 0.5:
                mn, mx, med, mean, counts = compute_counts_per_sample_stats(t, binary_counts=fb)
            else:
                mn, mx, med, mean, counts = compute_counts_per_sample_stats(t, fb)
            st = {"min": core.frac(mn), "max": core.frac(mx), "median": core.frac(med), "mean": core.frac(mean),
                  "counts": [[str(k), core.frac(v)] for k, v in counts.items()]}
            self.ask({"op": "stats", "table": inp["table"], "binary": b, "stats": st},
                     {"check": "stats", "binary": b, "tag": tag}, tags, nt=nontrivial(inp["table"]))

    def report(self, t, inp, tag, tags, via="api", quals=(False, True)):
        from biom.cli.table_summarizer import _summarize_table
        for q in quals:
            for o in (False, True):
                if via == "api":
                    try:
                        import numpy as np
                        vr = self.vrng
                        fq, fo = (q, o) if vr is None else (vr.choice([q, np.bool_(q), int(q)]),
                                                            vr.choice([o, np.bool_(o), int(o)]))
                        with warnings.catch_warnings():
                            warnings.simplefilter(self.wfilter if len(inp["table"]["samp"]) and len(inp["table"]["obs"])
                                                  else "ignore")     # std of no counts warns by nature
                            if vr is not None and vr.random() < 0.4:
                                text = _summarize_table(t, fq, fo)
                            elif not q and not o and vr is not None and vr.random() < 0.5:
                                text = _summarize_table(t)
                            else:
                                text = _summarize_table(t, qualitative=fq, observations=fo)
                    except Exception as e:  # noqa
                        self.ctx.case({"check": "report", "tag": tag, "q": q, "o": o, "raised": True}, nontrivial=True)
                        self.ctx.fail({"check": "report", "tag": tag, "table": inp["table"], "qualitative": q,
                                       "observations": o, "error": "%s: %s" % (type(e).__name__, e),
                                       "recipe": self.recipe}, "report raised", list(tags) + [type(e).__name__])
                        continue
                else:
                    fp = self.files.write(t, via)
                    out = os.path.join(TMP, "summary.txt")
                    args = ["summarize-table", "-i", fp] + (["--qualitative"] if q else []) + \
                           (["--observations"] if o else [])
                    use_file = (q != o) if self.cli_rng is None else self.cli_rng.random() < 0.5
                    r = cli(args + (["-o", out] if use_file else []))
                    if r.exception is not None:
                        self.files.rm(fp, out)
                        self.ctx.fail({"check": "report", "tag": tag, "via": via}, "summarize-table raised",
                                      list(tags) + [type(r.exception).__name__])
                        continue
                    if use_file:
                        text = open(out).read()
                    else:
                        text = r.output[:-1] if r.output.endswith("\n") else r.output
                    self.files.rm(fp, out)
                printed = parse_report(text)
                mode = "q%d-o%d" % (q, o)
                self.ctx.count("report-mode=%s/%s" % (mode, via))
                self.ask({"op": "report", "input": inp, "qualitative": q, "observations": o, "printed": printed},
                         {"check": "report", "mode": mode, "via": via, "tag": tag}, tags,
                         nt=nontrivial(inp["table"]))

    def ids_cli(self, t, inp, tag, tags, fmt):
        fp = self.files.write(t, fmt)
        for o in (False, True):
            r = cli(["table-ids", "-i", fp] + (["--observations"] if o else []))
            if r.exception is not None:
                self.ctx.fail({"check": "ids", "tag": tag}, "table-ids raised", list(tags) + [type(r.exception).__name__])
                continue
            listed = r.output.split("\n")[:-1]
            self.ask({"op": "ids", "table": inp["table"], "observations": o, "listed": listed},
                     {"check": "ids", "observations": o, "tag": tag}, tags, nt=nontrivial(inp["table"]))
        self.files.rm(fp)

    def head(self, t, inp, tag, tags, fmt, n, m, to_file):
        fp = self.files.write(t, fmt)
        out = os.path.join(TMP, "head.txt")
        args = ["head", "-i", fp] + (["-n", str(n)] if n is not None else []) + \
               (["-m", str(m)] if m is not None else []) + (["-o", out] if to_file else [])
        n = 5 if n is None else n                    # the command's defaults
        m = 5 if m is None else m
        r = cli(args)
        if r.exception is not None and not isinstance(r.exception, SystemExit):
            res = {"error": core.err_name(r.exception)}
        elif r.exception is not None:
            res = {"error": "Other"}
        else:
            text = open(out).read() if to_file else r.output
            res = {"ok": parse_tsv_table(text)}
        self.files.rm(fp, out)
        self.ctx.count("head=%s" % ("ok" if "ok" in res else res["error"]))
        self.ask({"op": "head", "table": inp["table"], "n": n, "m": m, "result": res},
                 {"check": "head", "n": n, "m": m, "tag": tag}, tags, nt=nontrivial(inp["table"]))

    def head_api(self, t, inp, tag, tags, n, m):
        try:
            if n is None and m is None:
                h = t.head()                        # defaults: 5 x 5
                n = m = 5
            elif self.vrng is not None and self.vrng.random() < 0.5:
                h = t.head(n=n, m=m)
            else:
                h = t.head(n, m)
            res = {"ok": {k: core.table_obs(h)[k] for k in ("obs", "samp", "rows")}}
        except Exception as e:  # noqa
            res = {"error": core.err_name(e)}
        # the API refuses n, m <= 0 with IndexError where the command says ValueError: class not compared
        r = self.ctx.driver.ask({"op": "head", "table": inp["table"], "n": n, "m": m, "result": res})
        self.ctx.case({"check": "head-api", "n": n, "m": m, "tag": tag}, nontrivial=nontrivial(inp["table"]))
        self.ctx.count("op=head-api")
        if not r["holds"]:
            self.ctx.fail({"check": "head-api", "tag": tag, "n": n, "m": m, "table": inp["table"], "result": res,
                           "recipe": self.recipe},
                          r["clause"], list(tags) + ["head-api"])
        elif not r["agree"] and "ok" in res:
            self.ctx.diverge({"check": "head-api", "tag": tag, "n": n, "m": m}, "head differs from the model", tags)

    def render(self, t, inp, tag, tags, rng=None):
        """the whole table as delimited text (str(table), to_tsv with its rarely used arguments): every ID and every value
        shown is the table's, judged as `head` with n, m = the table's shape"""
        n, m = t.shape
        if n == 0 or m == 0:
            return                                   # nothing can be printed (the method refuses)
        hows = [("str", lambda: str(t)), ("to_tsv", lambda: t.to_tsv())]
        if rng is not None:
            def via_io():
                buf = io.StringIO()
                t.to_tsv(direct_io=buf)
                return buf.getvalue()
            hows = [rng.choice(hows + [("to_tsv-direct_io", via_io),
                                       ("to_tsv-colname", lambda: t.to_tsv(observation_column_name="#Obs%ID"))])]
        for how, mk in hows:
            try:
                res = {"ok": parse_tsv_table(mk())}
            except Exception as e:  # noqa
                res = {"error": core.err_name(e)}
            self.ctx.count("render=%s/%s" % (how, "ok" if "ok" in res else res["error"]))
            self.ask({"op": "head", "table": inp["table"], "n": n, "m": m, "result": res},
                     {"check": "render", "how": how, "tag": tag}, tags, nt=nontrivial(inp["table"]))

    def frames(self, t, inp, tag, tags):
        import numpy as np
        for sparse in (False, True):
            vr = self.vrng
            dense = (not sparse) if vr is None else vr.choice([not sparse, np.bool_(not sparse), int(not sparse)])
            if sparse and (vr is None or vr.random() < 0.5):
                df = t.to_dataframe()                                    # the default is the sparse frame
            elif vr is not None and vr.random() < 0.5:
                df = t.to_dataframe(dense)
            else:
                df = t.to_dataframe(dense=dense)
            arr = np.asarray(df, dtype=float).reshape(len(df.index), len(df.columns))
            cells = [[None if x != x else core.frac(x) for x in row] for row in arr.tolist()]
            fr = {"index": [str(x) for x in df.index], "columns": [str(x) for x in df.columns], "cells": cells}
            if sparse:
                self.ctx.count("sparse-frame-has-nan=%s" % any(c is None for row in cells for c in row))
            self.ask({"op": "frame", "input": inp, "sparse": sparse, "frame": fr},
                     {"check": "frame", "sparse": sparse, "tag": tag},
                     list(tags) + (["to_dataframe-sparse"] if sparse else ["to_dataframe-dense"]),
                     nt=nontrivial(inp["table"]),
                     known_clause="frame.sparse.values", known_tags=["nan-for-zero"])

    def mdframes(self, t, inp, tag, tags):
        for axis in ("sample", "observation"):
            if not frame_defined(t.metadata(axis=axis)):
                self.ctx.count("mdframe=skipped-%s" % md_kind(t.metadata(axis=axis)))
                continue
            self.ctx.count("mdframe-metadata=%s" % md_kind(t.metadata(axis=axis)))
            ids = [str(x) for x in t.ids(axis=axis)]
            md = md_entries(t, axis, canon_typed)
            try:
                df = t.metadata_to_dataframe(axis)
                # cell by cell (a 2-d `.values` would fold the columns into one common dtype)
                res = {"ok": {"index": [str(x) for x in df.index], "columns": [str(x) for x in df.columns],
                              "rows": [[canon_typed(df.iloc[i, j]) for j in range(df.shape[1])]
                                       for i in range(df.shape[0])]}}
            except Exception as e:  # noqa
                res = {"error": core.err_name(e)}
            self.ctx.count("mdframe=%s" % ("ok" if "ok" in res else res["error"]))
            self.ask({"op": "mdframe", "ids": ids, "md": md, "result": res},
                     {"check": "mdframe", "axis": axis, "tag": tag}, tags, nt=md is not None)

    def export_md(self, t, inp, tag, tags, fmt, which="both"):
        fp = self.files.write(t, fmt)
        outs = {"sample": os.path.join(TMP, "smd.tsv"), "observation": os.path.join(TMP, "omd.tsv")}
        self.files.rm(*outs.values())
        flags = {"sample": ["-m" if self.files.k % 2 else "--sample-metadata-fp", outs["sample"]],
                 "observation": ["--observation-metadata-fp", outs["observation"]]}
        asked = ["sample", "observation"] if which == "both" else [which]
        r = cli(["export-metadata", "-i", fp] + [x for a in asked for x in flags[a]])
        if r.exception is not None:
            self.ctx.fail({"check": "export-metadata", "tag": tag}, "export-metadata raised",
                          list(tags) + [type(r.exception).__name__])
            self.files.rm(fp, *outs.values())
            return
        from biom import load_table
        seen = load_table(fp)                      # the table the command sees (key order as loaded)
        for axis in ("sample", "observation"):
            if axis not in asked:
                if os.path.exists(outs[axis]):
                    self.ctx.fail({"check": "export-metadata", "tag": tag, "recipe": self.recipe},
                                  "export-metadata wrote a file that was not asked for", list(tags) + [axis])
                continue
            if md_kind(seen.metadata(axis=axis)) == "partial":
                # pandas holds an int/bool column with a missing cell as floats/objects: the TSV TEXT of the numbers
                # changes ('3' -> '3.0'); the frame itself is judged (numbers by value) in `mdframes`
                self.ctx.count("export-metadata=skipped-partial")
                continue
            ids = [str(x) for x in t.ids(axis=axis)]
            md = md_entries(seen, axis, canon_str)
            if (md is None) != (t.metadata(axis=axis) is None) or (
                    md is not None and [sorted(k for k, _ in e) for e in md] !=
                    [sorted(str(k) for k in m) for m in t.metadata(axis=axis)]):
                self.ctx.notes.append("export-metadata: loaded table's metadata keys differ from the written table's")
            if os.path.exists(outs[axis]):
                with open(outs[axis], newline="") as f:
                    rows = list(csv.reader(f, delimiter="\t"))
                res = {"ok": {"index": [x[0] for x in rows[1:]], "columns": rows[0][1:],
                              "rows": [[c if c != "" else "missing" for c in x[1:]] for x in rows[1:]]}}
            else:
                res = {"error": "Key"}
            self.ctx.count("export-metadata=%s" % ("ok" if "ok" in res else "no-metadata"))
            self.ask({"op": "mdframe", "ids": ids, "md": md, "result": res},
                     {"check": "export-metadata", "axis": axis, "tag": tag}, tags, nt=md is not None)
        self.files.rm(fp, *outs.values())

    def unchanged(self, t, before, what, tag, tags):
        """a summary or an export is a read: the table's own content must be what it was"""
        after = core.table_obs(t)
        if after != before:
            self.ctx.fail({"check": "readonly", "what": what, "tag": tag, "before": before, "after": after,
                           "recipe": self.recipe}, "readonly: the table changed under a read (%s)" % what.split(":")[0],
                          list(tags) + ["readonly"])

    def group(self, t, name, tag, tags, rng=None, exact=True):
        """one accessor group on the table AS IT IS NOW: its own content and layout are read first, then the real
        summary is asked, then the content is read again (reads must not change it)"""
        inp = input_obs(t)
        gtag = "%s:%s" % (tag, name)
        try:
            self._dispatch(t, inp, name, gtag, tags, rng, exact)
        except core_driver_errors():
            raise
        except Exception as e:  # noqa  a summary of a legitimate table that raises reports nothing at all
            self.ctx.case({"check": name, "tag": gtag, "raised": True}, nontrivial=True)
            self.ctx.fail({"check": name, "tag": gtag, "table": inp["table"], "error": "%s: %s" % (type(e).__name__, e),
                           "recipe": self.recipe}, "%s raised" % name.split("-")[0], list(tags) + [type(e).__name__])
        self.unchanged(t, inp["table"], name, gtag, tags)
        return inp

    def _dispatch(self, t, inp, name, gtag, tags, rng, exact):
        if name in ("nnz", "density"):
            self.queries(t, inp, gtag, tags, only=[name])
        elif name.startswith("q-"):
            self.queries(t, inp, gtag, tags, only=[name[2:]], exact=exact, order=rng)
        elif name == "queries":
            self.queries(t, inp, gtag, tags, exact=exact, order=rng, poke=rng)
        elif name == "repr":
            self.repr_(t, inp, gtag, tags)
        elif name == "nonzero":
            self.nonzero(t, inp, gtag, tags)
        elif name == "stats":
            self.stats(t, inp, gtag, tags, binaries=(False, True) if exact else (True,))
        elif name == "report":
            self.report(t, inp, gtag, tags, "api", quals=(False, True) if exact else (True,))
        elif name == "frames":
            self.frames(t, inp, gtag, tags)
        elif name == "mdframes":
            self.mdframes(t, inp, gtag, tags)
        elif name == "render":
            self.render(t, inp, gtag, tags, rng)
        elif name == "head":
            if rng is None or rng.random() < 0.2:
                self.head_api(t, inp, gtag, tags, None, None)
            else:
                self.head_api(t, inp, gtag, tags, rng.choice([-1, 0, 1, 2, 3, 9]), rng.choice([1, 1, 2, 4, 9, 70]))
        else:
            raise RuntimeError("unknown accessor group " + name)

    def all_api(self, t, tag, tags, seed=None, exact=True):
        """every accessor group once.  seed=None: the fixed order (nonzero first, on the layout exactly as built);
        otherwise: random order, a random layout left behind by read-only calls before a share of the groups
        (core.poke_layout), a share under a non-default error profile"""
        import random
        import biom.err
        inp = input_obs(t)
        lf = core.layout_facts(t)
        self.ctx.count("layout=%s/%s" % (lf.get("format"), "sorted" if lf.get("sorted", True) else "unsorted"))
        self.ctx.count("shape=%s" % ("non-square" if asym(inp["table"]) else "square"))
        groups = ["nonzero", "queries", "repr", "stats", "report", "frames", "mdframes", "render"]
        if seed is None:
            for g in groups:
                self.group(t, g, tag, tags, exact=exact)
            return inp
        rng = random.Random(seed)
        groups.append("head")
        rng.shuffle(groups)
        profile = rng.choice(PROFILES)
        self.ctx.count("profile=%s" % ("default" if profile is None else "+".join("%s=%s" % kv for kv in profile.items())))
        # the caller's warnings filter is not the library's business: 'error' turns any warning into an exception
        wfilter = rng.choice(["ignore", "ignore", "always", "error"]) if profile != {"all": "warn"} else "ignore"
        self.ctx.count("warnings-filter=%s" % wfilter)
        for g in groups:
            if rng.random() < 0.6:
                for c in core.poke_layout(t, rng):
                    self.ctx.count("poke=%s" % c)
            self.ctx.count("layout-at-call=%s" % t.matrix_data.getformat())
            self.wfilter = wfilter
            self.vrng = rng
            try:
                with warnings.catch_warnings():
                    warnings.simplefilter(wfilter)
                    if profile is None:
                        self.group(t, g, tag, tags, rng, exact=exact)
                    else:
                        with biom.err.errstate(**profile):
                            self.group(t, g, tag, tags, rng, exact=exact)
            finally:
                self.wfilter = "ignore"
                self.vrng = None
        return inp

    # ------------------------------------------------------------------ histories
    def access(self, t, name, tag, tags, rng, exact=True):
        self.vrng = rng
        try:
            self.group(t, name, tag, tags, rng, exact=exact)
        finally:
            self.vrng = None

    def history(self, base, hseed, tag, tags, script=None):
        """summaries -> an in-place change -> summaries again; the second answers are judged against the table's
        content after the change.  Everything random derives from `hseed` (replayable)."""
        import random
        import numpy as np
        rng = random.Random(hseed)
        script = script or {}
        self.recipe = {"kind": "history", "base": base, "hseed": hseed, "script": script}
        t = from_recipe(base)
        dense0 = t.matrix_data.toarray()
        # phase 1: some accessors, random order
        first = script.get("first") or rng.sample(ACCESSORS, rng.randint(1, 4))
        for name in first:
            self.access(t, name, tag + ":p1", tags, rng)
        # tables derived from this one and exports taken from it stay alive across the change
        derived, exports = self.derive(t, rng)
        # bring the data into a chosen layout, then (mostly) ask a figure that goes through nnz once more
        walk = script.get("walk") or rng.choice(["as-is", "obs-walk", "samp-walk"])
        if walk == "obs-walk":
            for _ in t.iter_data(axis="observation", dense=False):
                pass
        elif walk == "samp-walk":
            for _ in t.iter_data(axis="sample", dense=False):
                pass
        probe = script.get("probe") or rng.choice(["nnz", "density", "repr", "report", "nnz", "none", "queries", "stats",
                                                   "frames", "mdframes", "head", "nonzero", "q-sum", "q-sum", "q-min",
                                                   "q-max", "q-nzc", "q-reduce"])
        if probe != "none":
            self.access(t, probe, tag + ":probe", tags, rng)
        fmt = t.matrix_data.getformat()
        # the change
        changes = ["zero", "zero", "zero", "zero", "pa", "filter", "update_ids", "scale", "del_md", "add_md", "md_mutate",
                   "rotate_ids", "group_md"]
        if dense0.size and (dense0 >= 0).all():
            changes.append("norm")
        change = script.get("change") or rng.choice(changes)
        axis = script.get("axis") or rng.choice(["observation", "sample"])
        exact = True
        if change == "zero":
            rule = script.get("rule") or rng.choice(ZERO_RULES)
            t.transform(zero_rule(rule), axis=axis, inplace=True)
            change = "zero:" + rule
        elif change == "scale":
            t.transform(lambda d, i, m: d / 2.0, axis=axis, inplace=True)
        elif change == "pa":
            t.pa(inplace=True)
        elif change == "filter":
            ids = list(t.ids(axis=axis))
            if len(ids) >= 2:
                t.filter([rng.choice(ids)], axis=axis, invert=True, inplace=True)
            else:
                change = "filter-skipped"
        elif change == "update_ids":
            # new IDs longer than every existing one (IDs live in fixed-width arrays)
            longest = max(len(str(i)) for i in list(t.ids()) + list(t.ids(axis="observation")))
            t.update_ids({i: "%s_%s" % (i, "r" * (longest + 3)) for i in t.ids(axis=axis)}, axis=axis, inplace=True)
        elif change == "norm":
            t.norm(axis=axis, inplace=True)
            exact = False
        elif change == "rotate_ids":
            ids = list(t.ids(axis=axis))
            # every ID takes the place of its neighbour: lookups shared with derived tables must not follow
            t.update_ids({ids[i]: ids[(i + 1) % len(ids)] for i in range(len(ids))}, axis=axis, inplace=True)
        elif change == "group_md":
            t.add_group_metadata({"tree": ("newick", "(a,b);")}, axis=axis)
        elif change == "del_md":
            md = t.metadata(axis=axis)
            if md is not None and len(md) and len(md[0]):
                t.del_metadata(keys=[rng.choice(sorted(md[0].keys()))], axis=axis)
            else:
                change = "del_md-skipped"
        elif change == "add_md":
            t.add_metadata({i: {"extra": "x%d" % n} for n, i in enumerate(t.ids(axis=axis))}, axis=axis)
        elif change == "md_mutate":
            md = t.metadata(axis=axis)
            if md is not None and len(md) and "grp" in md[0]:
                for e in md:
                    e["grp"] = "mutated-" + str(e["grp"])       # the entry dicts stay the same objects
            else:
                change = "md_mutate-skipped"
        dense1 = t.matrix_data.toarray()
        fewer = dense1.shape == dense0.shape and int((dense1 != 0).sum()) < int((dense0 != 0).sum())
        same_obj_axis = (fmt == "csr" and axis == "observation") or (fmt == "csc" and axis == "sample")
        self.ctx.count("history-change=%s" % change.split(":")[0])
        self.ctx.count("history=%s/%s-axis/%s%s" % (fmt, axis[:4], "layout-kept" if same_obj_axis else "converted",
                                                    "/cells-zeroed" if fewer else ""))
        self.ctx.count("history-probe=%s" % probe)
        htags = tags + ("history", change.split(":")[0], axis)
        self.still(derived, exports, tag + ":after-change", htags)
        # phase 2: every accessor, random order
        second = list(ACCESSORS)
        rng.shuffle(second)
        if probe != "none":
            second = [probe] + second              # the same read again, first
        for name in second:
            self.access(t, name, tag + ":p2:" + change, htags, rng, exact=exact)
        # one of the derived tables answers for itself, then is changed in place: the source and the others stay
        if derived:
            dname = rng.choice(sorted(derived))
            d = derived[dname][0]
            for name in rng.sample(ACCESSORS, 3):
                self.access(d, name, tag + ":derived-" + dname, htags + ("derived", dname), rng)
            src = core.table_obs(t)
            if d.shape[0] and d.shape[1]:
                d.transform(zero_rule(rng.choice(ZERO_RULES)), axis=rng.choice(["observation", "sample"]), inplace=True)
                dids = list(d.ids())
                if rng.random() < 0.5 and len(dids) >= 2:
                    d.update_ids({dids[i]: dids[(i + 1) % len(dids)] for i in range(len(dids))}, inplace=True)
                else:
                    d.update_ids({i: "%s_zz" % i for i in dids}, inplace=True)
            derived[dname] = (d, core.table_obs(d))
            self.unchanged(t, src, "alias:change-of-derived-" + dname, tag, htags + ("alias",))
            self.still(derived, {}, tag + ":after-derived-change", htags)

    def derive(self, t, rng):
        """tables derived from `t` and arrays/frames exported from it, with what they hold now"""
        import numpy as np
        derived = {}
        n, m = t.shape
        try:
            derived["copy"] = t.copy()
            derived["transpose"] = t.transpose()
            derived["head"] = t.head(max(1, n - 1), max(1, m - 1))
            if m >= 1:
                derived["sorted"] = t.sort_order(list(reversed(list(t.ids()))))
            if n >= 2:
                derived["filtered"] = t.filter(list(t.ids(axis="observation"))[:1], axis="observation", invert=True,
                                               inplace=False)
        except Exception as e:  # noqa
            self.ctx.notes.append("derive: %s" % type(e).__name__)
        derived = {k: (d, core.table_obs(d)) for k, d in derived.items()}
        exports = {}
        for name, mk in [("frame-dense", lambda: t.to_dataframe(dense=True)), ("frame-sparse", lambda: t.to_dataframe()),
                         ("sum-sample", lambda: t.sum("sample")), ("sum-observation", lambda: t.sum("observation")),
                         ("nzc", lambda: t.nonzero_counts("sample")), ("matrix-copy", lambda: t.matrix_data.copy())]:
            try:
                x = mk()
            except Exception:  # noqa  judged by the accessor of that export
                continue
            exports[name] = (x, self.snap(x))
        for axis in ("sample", "observation"):
            if t.metadata(axis=axis) is not None and frame_defined(t.metadata(axis=axis)):
                try:
                    x = t.metadata_to_dataframe(axis)
                except Exception:  # noqa  judged (as a raise) by the `mdframes` accessor, not here
                    continue
                exports["mdframe-" + axis] = (x, self.snap(x))
        return derived, exports

    @staticmethod
    def snap(x):
        import numpy as np
        if hasattr(x, "toarray"):
            return [[core.frac(v) for v in r] for r in x.toarray().tolist()]
        if hasattr(x, "index") and hasattr(x, "columns"):
            vals = np.asarray(x)
            return {"index": [str(i) for i in x.index], "columns": [str(c) for c in x.columns],
                    "values": [[repr(v) for v in r] for r in vals.tolist()]}
        return [core.frac(v) for v in np.asarray(x, dtype=float).ravel().tolist()]

    def still(self, derived, exports, tag, tags):
        """every other live table and every export taken earlier is what it was"""
        for name, (d, before) in derived.items():
            self.ctx.case({"check": "alias", "what": name, "tag": tag}, nontrivial=True)
            self.ctx.count("op=alias")
            self.unchanged(d, before, "alias:derived-" + name, tag, tuple(tags) + ("alias",))
        for name, (x, before) in exports.items():
            self.ctx.case({"check": "alias", "what": name, "tag": tag}, nontrivial=True)
            self.ctx.count("op=alias")
            if self.snap(x) != before:
                self.ctx.fail({"check": "alias", "what": name, "tag": tag, "before": before, "after": self.snap(x),
                               "recipe": self.recipe}, "alias: an export taken earlier changed with the table (%s)" % name,
                              list(tags) + ["alias"])


# ----------------------------------------------------------------------------- corpus
def fixed_corpus():
    """the original failing inputs of the repaired defects first"""
    import numpy as np
    import scipy.sparse as sp
    from biom import Table
    out = []
    # repaired defect cc0c0aa1: two uneven list categories, no ID has both at their longest
    out.append(("ragged-undominated", lambda: Table(
        np.array([[1., 2], [3, 4]]), ["A", "B"], ["c", "d"],
        [{"t": ["t0", "t1", "t2"], "p": ["p0"]}, {"t": ["u0"], "p": ["q0", "q1", "q2"]}],
        [{"w": ("x",), "n": 1, "v": ["1", "2"]}, {"w": ("x", "y", "z"), "n": 2, "v": ["3"]}])))
    # repaired defect 6363233a: an uneven list category FOLLOWED by another category (values must stay in their columns)
    out.append(("ragged-list-not-last", lambda: Table(
        np.array([[1., 2], [3, 4]]), ["a", "b"], ["c", "d"],
        [{"taxonomy": ["k__A", "p__x"], "grp": "g1"}, {"taxonomy": ["k__A", "p__x", "c__z"], "grp": "g2"}],
        [{"path": ("r", "s", "t"), "n": 7}, {"path": ("r",), "n": 8}])))
    # repaired defect e53d552b: a sparse input that stores an explicit zero
    # 2x3, row 0 stores an explicit 0 at column 1: min over observations must be [3, 2], not [0, 2]
    m = sp.csr_matrix((np.array([3.0, 0.0, 5.0, 2.0]), np.array([0, 1, 2, 1]), np.array([0, 3, 4])), shape=(2, 3))
    out.append(("stored-zero-csr", lambda m=m: Table(m.copy(), ["o1", "o2"], ["s1", "s2", "s3"])))
    mc = sp.csc_matrix((np.array([0.0, -4.0, 7.0, 0.0, 1.5]), np.array([0, 1, 0, 2, 2]), np.array([0, 2, 4, 5])),
                       shape=(3, 3))
    out.append(("stored-zero-csc", lambda mc=mc: Table(mc.copy(), ["o1", "o2", "o3"], ["s1", "s2", "s3"])))
    # asymmetric fixtures: every axis mix-up changes a figure
    a = np.array([[0, 2.5, 0, 1], [0, 0, 0, -3], [4, 0, 0, 0.0625]])
    out.append(("asym-3x4", lambda a=a: Table(a, ["o1", "o2", "o3"], ["s1", "s2", "s3", "s4"])))
    b = np.array([[1.0, 2, 3, 4, 5], [6, 7, 8, 9, 10]])
    out.append(("full-2x5", lambda b=b: Table(b, ["x", "y"], ["a", "b", "c", "d", "e"],
                                               [{"taxonomy": ["k__A", "p__x"]}, {"taxonomy": ["k__B", "p__y"]}],
                                               [{"grp": "a", "depth": i} for i in range(5)])))
    out.append(("single-column", lambda: Table(np.array([[1.0], [2.0], [0.0]]), ["a", "b", "c"], ["x"])))
    out.append(("single-row", lambda: Table(np.array([[0.0, 2.0, 8.0]]), ["a"], ["x", "y", "z"])))
    out.append(("ties-in-detail", lambda: Table(np.array([[1.0, 1, 0, 2], [1, 1, 2, 0]]), ["a", "b"],
                                                 ["s4", "s3", "s2", "s1"])))
    out.append(("head-empty-lead", lambda: Table(np.array([[0.0, 0, 3], [1, 2, 0], [0, 0, 0], [0, 0, 7]]),
                                                  ["a", "b", "c", "d"], ["x", "y", "z"])))
    out.append(("md-numeric-text", lambda: Table(
        np.array([[1.0, 0, 2], [0, 3, 4]]), ["o1", "o2"], ["s1", "s2", "s3"],
        [{"barcode": "0012", "well": "1e3", "n": 3, "ok": True}, {"barcode": "007", "well": "5.10", "n": 4, "ok": False}],
        [{"plate": "00", "dose": "+3", "taxonomy": ["01", "2e1"]}, {"plate": "-0", "dose": ".5", "taxonomy": ["1", "3."]},
         {"plate": "10", "dose": " 5", "taxonomy": ["007", "1E-2"]}])))
    na = ["50%", "x%%y", "otu_%s", "%(id)s", "\"quoted\" start", "ls\u2028x", "#hash", " lead", "caf\u00e9", "cafe\u0301"]
    nb = ["x%%y", "50%", "\"unbalanced", "a'b", "ps\u2029x", "nel\u0085x", "ff\x0cx", "vt\x0bx", "{brace}", "back\\slash",
          "trail ", "\u03a9hm", "\u2126hm"]
    out.append(("nasty-ids", lambda: Table(np.arange(1.0, len(na) * len(nb) + 1).reshape(len(na), len(nb)) % 7, na, nb,
                                            [{"k%": "v%d" % i, "\"q": "50%"} for i in range(len(na))],
                                            [{"#k": "x%%y", "p": "%s"} for i in range(len(nb))])))
    out.append(("ragged-lists", lambda: Table(
        np.array([[1.0, 0, 2], [0, 3, 4]]), ["o1", "o2"], ["s1", "s2", "s3"],
        [{"grp": "a", "taxonomy": ["k__A", "p__x"]}, {"grp": "b", "taxonomy": ["k__A", "p__x", "c__y", "o__z"]}],
        [{"path": ("r",), "n": 1, "z": "u"}, {"path": ("r", "s", "t"), "n": 2, "z": "v"},
         {"path": ("r", "s"), "n": 3, "z": "w"}])))
    out.append(("print-tie-0.0625", lambda: Table(np.array([[0.0625, 0.0], [0.0, 0.1875]]), ["a", "b"], ["x", "y"])))
    return out


def empty_tables():
    import numpy as np
    from biom import Table
    return [("empty-2x0", lambda: Table(np.zeros((2, 0)), ["a", "b"], [])),
            ("empty-0x3", lambda: Table(np.zeros((0, 3)), [], ["x", "y", "z"])),
            ("empty-0x0", lambda: Table(np.zeros((0, 0)), [], []))]


def gen_table(rng, quick):
    r = rng.random()
    if r < 0.25:
        classes = ("count",)
    elif r < 0.45:
        classes = ("smallcount",)
    elif r < 0.7:
        classes = ("dyadic", "count")
    else:
        classes = ("neg", "dyadic", "count")
    mx = 6 if quick else 8
    dens = rng.choice([None, None, 0.5, 0.7, 0.9, 1.0])
    spec = core.gen_spec(rng, max_n=mx, max_m=mx, classes=classes, md=True, density=dens)
    # non-square most of the time
    if len(spec["obs"]) == len(spec["samp"]) and rng.random() < 0.8:
        spec = core.gen_spec(rng, max_n=mx, max_m=mx, classes=classes, md=True, density=dens)
    if rng.random() < 0.35:
        trick_ids(rng, spec)
    if rng.random() < 0.3:
        nasty_ids(rng, spec)
    if rng.random() < 0.45:
        enrich_md(rng, spec)
    if rng.random() < 0.08:
        partial_md(rng, spec)
    r = rng.random()
    if r < 0.08:
        revalue(rng, spec, BIGINT)
        classes = ("bigint",)
    elif r < 0.16:
        revalue(rng, spec, WILD)
        classes = ("wild",)
    route = rng.choice(core.ROUTES)
    post = rng.choice(POSTS)
    return spec, route, post, classes


# integers beyond the float32 mantissa; small enough that binary64 rounding inside numpy's mean/std stays far below the
# precision the report prints (with 2**40-sized counts the float std itself is off by ~1e-4: runtime rounding, not modelled)
BIGINT = [float(2 ** 24 + 1), float(2 ** 24 + 3), float(2 ** 26 + 5), float(2 ** 27 + 1), -float(2 ** 25 + 1)]
# denormals, non-dyadic fractions, huge values: sums are NOT exact, only the figures that do not add floats are judged
WILD = [5e-324, 2.0 ** -1040, 0.1, 0.3, 1.0 / 3.0, -0.7, 1e300, 2.0 ** 53 + 2.0, 1e-7, 123456789012345.678, -1e-310]


def revalue(rng, spec, pool):
    spec["rows"] = [[(rng.choice(pool) if x != 0 else 0.0) for x in row] for row in spec["rows"]]


def nasty_ids(rng, spec):
    """ID texts that trip naive text handling ('%' forms, leading quote, U+2028/2029/0085, form feed, braces, backslash,
    '#', blanks), NFC/NFD spellings of one text as two DISTINCT IDs of an axis, and names shared by both axes"""
    for key in ("obs", "samp"):
        ids = spec[key]
        for _ in range(rng.choice([1, 1, 2])):
            c = rng.choice(core.NASTY_TEXTS)
            if c not in ids and len(ids):
                ids[rng.randrange(len(ids))] = c
        if len(ids) >= 2 and rng.random() < 0.4:
            a, b = core.twin_ids(rng, 1)
            if a not in ids and b not in ids:
                i, j = rng.sample(range(len(ids)), 2)
                ids[i], ids[j] = a, b
    if rng.random() < 0.5 and spec["obs"] and spec["samp"]:
        shared = rng.choice(spec["samp"])
        if shared not in spec["obs"]:
            spec["obs"][rng.randrange(len(spec["obs"]))] = shared      # the same name on both axes
    assert len(set(spec["obs"])) == len(spec["obs"]) and len(set(spec["samp"])) == len(spec["samp"])


def partial_md(rng, spec):
    """a partially annotated axis: some IDs carry no (or fewer) categories; the metadata frame is not defined for it"""
    for mk in ("omd", "smd"):
        md = spec.get(mk)
        if md and len(md) >= 2 and rng.random() < 0.7:
            q = rng.randrange(1, len(md))
            if rng.random() < 0.5:
                md[q] = {}
            elif len(md[q]):
                md[q].pop(rng.choice(sorted(md[q])))


def trick_ids(rng, spec):
    """IDs that look like other IDs of the same axis (extension, prefix, case variant, leading/trailing blank) and IDs
    much longer than the rest: IDs live in fixed-width arrays"""
    for key in ("obs", "samp"):
        ids = spec[key]
        if len(ids) < 2:
            continue
        cands = [c for c in core.tricky_unknown_ids(ids) if "\n" not in c and "\t" not in c and c.strip()]
        other = spec["samp" if key == "obs" else "obs"]
        cands = [c for c in cands if c not in other]
        if cands and rng.random() < 0.8:
            ids[rng.randrange(len(ids))] = rng.choice(cands)
        if rng.random() < 0.3:
            q = rng.randrange(len(ids))
            long_id = ids[q] + "-" + "L" * rng.choice([20, 40, 70])
            if long_id not in ids:
                ids[q] = long_id
    assert len(set(spec["obs"])) == len(spec["obs"]) and len(set(spec["samp"])) == len(spec["samp"])


def build_case(spec, route, post, seed):
    t = core.build(spec, route)
    return post_op(t, post, seed)


def from_recipe(rc):
    if rc["kind"] == "spec":
        return build_case(rc["spec"], rc["route"], rc["post"], rc["seed"])
    if rc["kind"] == "fixed":
        mk = dict(fixed_corpus())[rc["name"]]
        return post_op(mk(), rc["post"], 1)
    if rc["kind"] == "empty":
        return dict(empty_tables())[rc["name"]]()
    if rc["kind"] == "head":
        import numpy as np
        from biom import Table
        return Table(np.arange(12.0).reshape(3, 4), ["a", "b", "c"], ["w", "x", "y", "z"])
    raise ValueError(rc)


def run_cli(chk, t, tag, tags, rng, exact=True):
    inp = input_obs(t)
    fmt = rng.choice(["hdf5", "json"])
    chk.cli_rng = rng                                  # -o / stdout per call
    try:
        chk.report(t, inp, tag, tags, fmt, quals=(False, True) if exact else (True,))
    finally:
        chk.cli_rng = None
    chk.ids_cli(t, inp, tag, tags, rng.choice(["hdf5", "json"]))      # the same path, possibly the other format
    n = rng.choice([1, 2, 3, 5, 7, None])
    m = rng.choice([1, 2, 3, 5, 7, None])
    chk.head(t, inp, tag, tags, rng.choice(["hdf5", "json"]), n, m, to_file=rng.random() < 0.5)
    chk.export_md(t, inp, tag, tags, fmt, which=rng.choice(["both", "both", "sample", "observation"]))


def run(ctx):
    import random
    ctx.rule = ("tables from core.gen_spec (1..6 x 1..6 quick, ..8 thorough; counts, small counts, dyadic fractions, "
                "negatives; with/without metadata) through every core.build route, then a prior operation "
                "(none/sort_order/transpose/filter/copy); each table x each check (queries = all axes/modes of "
                "sum,min,max,nonzero_counts,density,reduce; nonzero; stats; 4 report modes; frames; metadata frames; "
                "and for a share of tables the commands via HDF5/JSON files). distinct = distinct (table, check, mode); "
                "non-trivial = at least 2x2 with two non-zero cells (metadata frames: axis has metadata)")
    ctx.trusted = ["scipy tocsr/tocsc/toarray used to read the table's own content and layout",
                   "pandas DataFrame construction and to_csv, csv/text parsing of the reports in the harness",
                   "h5py / json writers used to hand tables to the commands (C01/C02)"]
    chk = Checker(ctx)
    os.makedirs(TMP, exist_ok=True)
    try:
        # 1. fixed corpus: repaired defect first
        k_det = 0
        for name, mk in fixed_corpus():
            for post in ["none", "transpose", "sort_rev"]:
                k_det += 1
                if not ctx.mine(k_det):
                    continue
                chk.recipe = {"kind": "fixed", "name": name, "post": post}
                tag = "fixed:%s/%s" % (name, post)
                chk.all_api(from_recipe(chk.recipe), tag, ("fixed", name))
                run_cli(chk, from_recipe(chk.recipe), tag, ("fixed", name, "cli"), random.Random(1))
        for name, mk in empty_tables():
            k_det += 1
            if not ctx.mine(k_det):
                continue
            chk.recipe = {"kind": "empty", "name": name}
            t = mk()
            inp = input_obs(t)
            chk.queries(t, inp, "fixed:" + name, ("fixed", name))
            chk.nonzero(t, inp, "fixed:" + name, ("fixed", name))
            chk.stats(t, inp, "fixed:" + name, ("fixed", name))
            chk.frames(t, inp, "fixed:" + name, ("fixed", name))
            chk.repr_(t, inp, "fixed:" + name, ("fixed", name))
            chk.report(t, inp, "fixed:" + name, ("fixed", name), "api")
        # query -> in-place zeroing along the axis whose layout the table already has (and the other) -> query again
        for name in ("asym-3x4", "full-2x5"):
            for walk, axis in [("obs-walk", "observation"), ("samp-walk", "sample"), ("obs-walk", "sample"),
                               ("samp-walk", "observation")]:
                for probe in ("nnz", "density", "repr", "report"):
                    for rule in ("first", "below-3"):
                        k_det += 1
                        if not ctx.mine(k_det):
                            continue
                        chk.history({"kind": "fixed", "name": name, "post": "none"}, k_det,
                                    "fixed:hist:%s/%s/%s/%s/%s" % (name, walk, axis, probe, rule), ("fixed", "history"),
                                    script={"first": [probe], "walk": walk, "probe": probe, "change": "zero",
                                            "axis": axis, "rule": rule})
        # head: guards of the command and of the method
        chk.recipe = {"kind": "head"}
        t = from_recipe(chk.recipe)
        inp = input_obs(t)
        for n, m in [(0, 2), (2, 0), (-1, 2), (2, -1), (1, 1), (3, 4), (5, 2), (2, 9)]:
            k_det += 1
            if not ctx.mine(k_det):
                continue
            chk.head(t, inp, "fixed:head", ("fixed", "head"), "json", n, m, to_file=False)
            chk.head_api(t, inp, "fixed:head", ("fixed", "head"), n, m)
        import numpy as np
        from biom import Table
        k_det += 1
        if ctx.mine(k_det):
            chk.recipe = {"kind": "fixed", "name": "head-empty-lead", "post": "none"}
            t = from_recipe(chk.recipe)
            inp = input_obs(t)
            for fmt in ("hdf5", "json"):
                for n, m in [(3, 2), (2, 1), (None, None)]:
                    chk.head(t, inp, "fixed:head-empty-lead/" + fmt, ("fixed", "head"), fmt, n, m, to_file=False)
        for fmt in ("json", "hdf5"):
            for which in ("both", "sample", "observation"):
                k_det += 1
                if not ctx.mine(k_det):
                    continue
                for name in ("ragged-undominated", "ragged-list-not-last", "md-numeric-text", "ragged-lists"):
                    chk.recipe = {"kind": "fixed", "name": name, "post": "none"}
                    t = from_recipe(chk.recipe)
                    chk.export_md(t, input_obs(t), "fixed:%s/%s/%s" % (name, fmt, which), ("fixed", "export"), fmt,
                                  which=which)
        # more than 512 IDs on an axis (block-wise paths): rendered in full at least once per run
        for tk, taxis in enumerate(["observation", "sample"]):
            k_det += 1
            if not ctx.mine(k_det):
                continue
            big = ctx.rng.choice([514, 600, 1030]) if tk == 0 else ctx.rng.choice([514, 530])
            spec = core.wide_spec(ctx.rng, n_axis=big, other=2, axis=taxis, classes=("count", "dyadic"))
            aseed = ctx.rng.randrange(10 ** 9)
            chk.recipe = {"kind": "spec", "spec": spec, "route": ctx.rng.choice(core.ROUTES), "post": "none", "seed": tk,
                          "aseed": aseed}
            ttags = ("tall", taxis, chk.recipe["route"])
            ctx.count("tall=%s/%d" % (taxis, big))
            t = from_recipe(chk.recipe)
            ttag = "tall:%d:%d" % (ctx.worker[0], tk)
            if taxis == "observation":
                inp = chk.all_api(t, ttag, ttags, seed=aseed)
            else:
                # by-ID column lookups over > 512 sample IDs are costly in the driver: a selection of the groups
                trng = random.Random(aseed)
                for g in ["nonzero", "repr", "frames", "render", "head", "q-sum", "nnz", "density"]:
                    inp = chk.group(t, g, ttag, ttags, trng)
                chk.report(t, inp, ttag, ttags, "api", quals=(False,))
            n, m = t.shape
            for fmt in ("hdf5", "json"):
                chk.head(from_recipe(chk.recipe), inp, "tall:%d:%d/%s" % (ctx.worker[0], tk, fmt), ttags + ("cli",), fmt,
                         n + ctx.rng.choice([0, 1, 50]), m, to_file=fmt == "json")
            chk.head_api(t, inp, "tall:%d:%d" % (ctx.worker[0], tk), ttags, n, m)
        # wide tables: size-dependent fast paths (>= 64 IDs on an axis)
        for wk, waxis in enumerate(["sample", "observation", "sample", "observation"]):
            k_det += 1
            if not ctx.mine(k_det):
                continue
            spec = core.wide_spec(ctx.rng, axis=waxis, classes=("count", "dyadic", "neg") if wk < 2 else ("smallcount",),
                                  md=wk % 2 == 0)
            route = ctx.rng.choice(core.ROUTES)
            post = ctx.rng.choice(POSTS)
            aseed = ctx.rng.randrange(10 ** 9)
            chk.recipe = {"kind": "spec", "spec": spec, "route": route, "post": post, "seed": wk, "aseed": aseed}
            wtags = ("wide", waxis, route, post)
            ctx.count("wide=%s/%d" % (waxis, max(len(spec["obs"]), len(spec["samp"]))))
            chk.all_api(from_recipe(chk.recipe), "wide:%d:%d" % (ctx.worker[0], wk), wtags, seed=aseed)
            base = chk.recipe
            run_cli(chk, from_recipe(base), "wide:%d:%d" % (ctx.worker[0], wk), wtags + ("cli",), ctx.rng)
            chk.history(base, ctx.rng.randrange(10 ** 9), "wide-hist:%d:%d" % (ctx.worker[0], wk), wtags)
        # 2. every route x every prior operation on one asymmetric spec with metadata
        rng = ctx.rng
        wtag = "w%d:" % ctx.worker[0] if ctx.worker[1] > 1 else ""
        for route in core.ROUTES:
            for post in sorted(set(POSTS)):
                spec = core.gen_spec(rng, max_n=5, max_m=6, min_n=2, min_m=3, classes=("neg", "dyadic", "count"),
                                     md=True, density=0.6)
                chk.recipe = {"kind": "spec", "spec": spec, "route": route, "post": post, "seed": 7}
                chk.all_api(from_recipe(chk.recipe), "grid:%s%s/%s" % (wtag, route, post), ("grid", route, post))
                ctx.count("route=%s" % route)
                ctx.count("post=%s" % post)
        # 3. random tables
        n_tables = 100 if ctx.quick() else 6500 // ctx.worker[1]
        cli_share = 0.15 if ctx.quick() else 0.1
        hist_share = 0.6
        for k in range(n_tables):
            spec, route, post, classes = gen_table(rng, ctx.quick())
            aseed = rng.randrange(10 ** 9) if rng.random() < 0.6 else None
            chk.recipe = {"kind": "spec", "spec": spec, "route": route, "post": post, "seed": k, "aseed": aseed}
            t = from_recipe(chk.recipe)
            tag = "rand:%s%d" % (wtag, k)
            tags = ("random", route, post)
            ctx.count("route=%s" % route)
            ctx.count("post=%s" % post)
            ctx.count("values=%s" % "+".join(classes))
            exact = classes != ("wild",)
            chk.recipe["exact"] = exact
            inp = chk.all_api(t, tag, tags, seed=aseed, exact=exact)
            ctx.count("order=%s" % ("fixed" if aseed is None else "random+poke"))
            ctx.count("metadata=%s" % ("/".join(x for x in ("obs" if inp["table"]["omd"] else "",
                                                          "samp" if inp["table"]["smd"] else "") if x) or "none"))
            if rng.random() < 0.3:
                chk.head_api(t, inp, tag, tags, rng.choice([1, 2, 3, 9]), rng.choice([1, 2, 4, 9]))
            if rng.random() < cli_share:
                run_cli(chk, from_recipe(chk.recipe), tag, tags + ("cli",), rng, exact=exact)
            if exact and rng.random() < hist_share:
                base = chk.recipe
                chk.history(base, rng.randrange(10 ** 9), "hist:%s%d" % (wtag, k), tags)
    finally:
        shutil.rmtree(TMP, ignore_errors=True)


def replay(ctx, rec):
    """rebuild the table from the recorded recipe and run every check on it again (real code re-run);
    without a recipe, re-evaluate the recorded request"""
    import random
    case = rec["case"]
    rc = case.get("recipe")
    chk = Checker(ctx)
    os.makedirs(TMP, exist_ok=True)
    try:
        if rc is not None:
            chk.recipe = rc
            tags = tuple(t for t in rec.get("tags", []) if t not in ("nan-for-zero", "to_dataframe-sparse",
                                                                       "to_dataframe-dense"))
            if rc["kind"] == "history":
                chk.history(rc["base"], rc["hseed"], "replay", ("replay",), script=rc.get("script"))
            elif rc["kind"] == "empty":
                # tables without cells: the summaries only (nothing can be printed, the commands refuse them)
                t = from_recipe(rc)
                inp = input_obs(t)
                chk.queries(t, inp, "replay", tags)
                chk.nonzero(t, inp, "replay", tags)
                chk.stats(t, inp, "replay", tags)
                chk.frames(t, inp, "replay", tags)
            else:
                chk.all_api(from_recipe(rc), "replay", tags, seed=rc.get("aseed"), exact=rc.get("exact", True))
                run_cli(chk, from_recipe(rc), "replay", tags, random.Random(1), exact=rc.get("exact", True))
                t = from_recipe(rc)
                inp = input_obs(t)
                for n, m in [(1, 1), (2, 3), (9, 9), (0, 1)]:
                    chk.head_api(t, inp, "replay", tags, n, m)
        elif case.get("req") is not None:
            chk.ask(case["req"], {"replay": case.get("check")}, rec.get("tags", []))
        else:
            ctx.notes.append("replay: case without recipe or request")
    finally:
        shutil.rmtree(TMP, ignore_errors=True)
